"""C18 end-to-end machinery: odd inputs for the real CLI and the oracle of the property text.

A *case* is a JSON-able dict (it is also the replay / corpus format):
  {'family': str, 'kind': str, 'setup': [op...], 'argv': [hex...], 'stdin': hex|None, 'place': 'LL',
   'shm': bool, 'pty': bool, 'timeout': seconds, 'listen': bool}
setup ops act below the case's work directory (all names are hex-encoded byte strings, relative):
  ['dir', p] ['file', p, size, mtime_ns|None] ['link', p, text] ['fifo', p] ['sock', p] ['cdev', p] ['bdev', p]
  ['utime', p, ns] (does not follow a link)  ['text', p, content]  ['deep', p, depth, namelen, leafkind]
argv elements are byte strings; the marker @W@ is replaced by the absolute work directory and @PORT@ by
a TCP port that is in use.

SAFETY: the CLI deletes what differs.  Every path a case can name is either relative without '/' '..'
(cwd = the work directory, three levels inside the sandbox) or an absolute path below the work directory
built here from @W@.  The fake ssh of the random families only executes doer launches."""
import os, sys, stat, json, time, socket, subprocess, shutil, errno, struct, hashlib, re

DOCUMENTED = {0, 2, 10, 11, 12, 18, 19}
DOER_INTERNAL = {20, 22, 23, 24, 25, 65}     # what the OS reports for 20,22,23,24,25,321 (doer.rs)

SAFE_FAKE_SSH = r'''#!/bin/sh
# fake ssh for generated argument vectors: only a doer launch is executed (locally, with the binary under
# test); anything else (deployment probes, chmod ...) is refused like an unreachable host.
case "$2" in
  *--doer*) cmd=$(printf '%s' "$2" | sed "s#/var/tmp/rjrssync/rjrssync#${FAKE_SSH_BINARY}#g"); exec sh -c "$cmd" ;;
  *) echo "fake ssh: refused" >&2; exit 255 ;;
esac
'''
FAKE_SCP = '#!/bin/sh\necho "fake scp: refused" >&2\nexit 1\n'


def hx(b):
    if isinstance(b, str):
        b = b.encode()
    return b.hex()


def unhx(h):
    return bytes.fromhex(h)


def install_fake_tools(base):
    d = os.path.join(base, 'fakebin')
    os.makedirs(d, exist_ok=True)
    for name, text in (('ssh', SAFE_FAKE_SSH), ('scp', FAKE_SCP)):
        p = os.path.join(d, name)
        with open(p, 'w') as f:
            f.write(text)
        os.chmod(p, 0o755)
    return d


# ------------------------------------------------------------------------------------------------
# sandbox construction
def _mk_deep(base_b, depth, namelen, leaf):
    """base/LLLL.../LLLL... `depth` levels of `namelen`-byte names (beyond PATH_MAX when depth*namelen > 4096),
    built with directory file descriptors; the innermost folder gets a leaf of the given kind."""
    fd = os.open(base_b, os.O_RDONLY | os.O_DIRECTORY)
    try:
        for i in range(depth):
            nm = (b'L%02d' % i) + b'x' * (namelen - 3)
            os.mkdir(nm, dir_fd=fd)
            nfd = os.open(nm, os.O_RDONLY | os.O_DIRECTORY, dir_fd=fd)
            os.close(fd)
            fd = nfd
        if leaf == 'file':
            f = os.open(b'leaf', os.O_WRONLY | os.O_CREAT, 0o644, dir_fd=fd)
            os.write(f, b'deep')
            os.close(f)
        elif leaf == 'link':
            os.symlink(b'nowhere', b'leaf', dir_fd=fd)
        elif leaf == 'fifo':
            os.mkfifo(b'leaf', dir_fd=fd)
    finally:
        os.close(fd)


def apply_setup(work, ops):
    """Returns a list of things to close later (sockets)."""
    keep = []
    wb = os.fsencode(work)
    for op in ops:
        try:
            _apply_op(wb, op, keep)
        except (OSError, OverflowError, ValueError):
            pass                                          # colliding or impossible entries are simply left out
    return keep


def _apply_op(wb, op, keep):
    if True:
        k = op[0]
        p = os.path.join(wb, unhx(op[1])) if op[1] else wb
        if k == 'dir':
            os.makedirs(p, exist_ok=True)
        elif k == 'file':
            size, mt = op[2], op[3]
            with open(p, 'wb') as f:
                if size:
                    if size <= 65536:
                        f.write((hashlib.sha256(op[1].encode()).digest() * (size // 32 + 1))[:size])
                    else:
                        f.truncate(size)            # sparse
            if mt is not None:
                try:
                    os.utime(p, ns=(mt, mt))
                except (OverflowError, OSError):
                    pass
        elif k == 'link':
            os.symlink(unhx(op[2]), p)
        elif k == 'fifo':
            os.mkfifo(p)
        elif k == 'sock':
            s = socket.socket(socket.AF_UNIX, socket.SOCK_STREAM)
            dfd = os.open(os.path.dirname(p), os.O_RDONLY | os.O_DIRECTORY)
            try:                                      # sun_path is short: bind through the directory's descriptor
                s.bind(b'/proc/self/fd/%d/' % dfd + os.path.basename(p))
            finally:
                os.close(dfd)
            keep.append(s)
        elif k == 'cdev':
            os.mknod(p, 0o644 | stat.S_IFCHR, os.makedev(1, 3))
        elif k == 'bdev':
            os.mknod(p, 0o644 | stat.S_IFBLK, os.makedev(7, 250))
        elif k == 'utime':
            try:
                os.utime(p, ns=(op[2], op[2]), follow_symlinks=False)
            except (OverflowError, OSError, NotImplementedError):
                pass
        elif k == 'text':
            with open(p, 'wb') as f:
                f.write(unhx(op[2]))
        elif k == 'deep':
            os.makedirs(p, exist_ok=True)
            _mk_deep(p, op[2], op[3], op[4])
        else:
            raise ValueError(op)


def rmtree(p):
    if os.path.lexists(p):
        if os.path.isdir(p) and not os.path.islink(p):
            shutil.rmtree(p, ignore_errors=True)
        else:
            os.unlink(p)


# ------------------------------------------------------------------------------------------------
# running
def _run_plain(cmd, env, cwd, stdin_bytes, timeout):
    p = subprocess.Popen(cmd, stdout=subprocess.PIPE, stderr=subprocess.PIPE,
                         stdin=subprocess.PIPE if stdin_bytes is not None else subprocess.DEVNULL,
                         env=env, cwd=cwd, start_new_session=True)
    timed_out = False
    try:
        out, err = p.communicate(input=stdin_bytes, timeout=timeout)
    except subprocess.TimeoutExpired:
        timed_out = True
        try:
            os.killpg(p.pid, 9)
        except ProcessLookupError:
            pass
        out, err = p.communicate()
    return p.returncode, out, err, timed_out


def _run_pty(cmd, env, cwd, timeout, keys=b''):
    """stdin/stdout/stderr are a pseudo terminal (80x24): the progress bar is drawn and prompts are interactive.
    `keys` are typed once output stalls (answers to prompts)."""
    import pty, fcntl, termios, select
    master, slave = pty.openpty()
    fcntl.ioctl(slave, termios.TIOCSWINSZ, struct.pack('HHHH', 24, 80, 0, 0))
    p = subprocess.Popen(cmd, stdin=slave, stdout=slave, stderr=slave, env=env, cwd=cwd, start_new_session=True)
    os.close(slave)
    buf = b''
    t0 = time.time()
    timed_out = False
    last_key = time.time()
    keys = list(keys)
    while True:
        if time.time() - t0 > timeout:
            timed_out = True
            try:
                os.killpg(p.pid, 9)
            except ProcessLookupError:
                pass
            break
        r, _, _ = select.select([master], [], [], 0.2)
        if r:
            try:
                d = os.read(master, 65536)
            except OSError:
                d = b''
            if not d:
                break
            buf += d
        else:
            if p.poll() is not None:
                break
            if keys and time.time() - last_key > 0.3:
                try:
                    os.write(master, bytes([keys.pop(0)]))
                except OSError:
                    pass
                last_key = time.time()
            elif not keys and time.time() - last_key > 2.0:
                try:
                    os.write(master, b'\x1b')         # Esc cancels a prompt that nobody answers
                except OSError:
                    pass
                last_key = time.time()
    p.wait()
    os.close(master)
    return p.returncode, buf, b'', timed_out


def run_case(binary, case, base, idx, fakebin):
    """Builds the sandbox, runs the CLI, removes the sandbox.  Returns the observation dict."""
    root = os.path.join('/dev/shm' if case.get('shm') else base, 'c18_%d_%d' % (os.getpid(), idx))
    work = os.path.join(root, 'a', 'b', 'work')
    rmtree(root)
    os.makedirs(work)
    keep = []
    lsock = None
    try:
        keep = apply_setup(work, case.get('setup', []))
        port = 0
        if case.get('listen'):
            lsock = socket.socket(socket.AF_INET, socket.SOCK_STREAM)
            lsock.bind(('0.0.0.0', 0))
            lsock.listen(1)
            port = lsock.getsockname()[1]
        argv = [unhx(a).replace(b'@W@', os.fsencode(work)).replace(b'@PORT@', str(port).encode()) for a in case['argv']]
        env = dict(os.environ)
        for v in ('RUST_LOG', 'RJRSSYNC_TEST_PROMPT_RESPONSE', 'RUST_BACKTRACE'):
            env.pop(v, None)
        env['NO_COLOR'] = '1'
        env['PATH'] = fakebin + os.pathsep + env.get('PATH', '')
        env['FAKE_SSH_BINARY'] = binary
        cmd = [os.fsencode(binary)] + argv
        t0 = time.time()
        if case.get('pty'):
            rc, out, err, to = _run_pty(cmd, env, work, case.get('timeout', 20), unhx(case['keys']) if case.get('keys') else b'')
        else:
            rc, out, err, to = _run_plain(cmd, env, work, unhx(case['stdin']) if case.get('stdin') is not None else None,
                                          case.get('timeout', 20))
        return {'exit': rc, 'stdout': out.decode('utf-8', 'replace'), 'stderr': err.decode('utf-8', 'replace'),
                'timed_out': to, 'wall_s': time.time() - t0}
    finally:
        for s in keep:
            s.close()
        if lsock:
            lsock.close()
        rmtree(root)


# ------------------------------------------------------------------------------------------------
# the oracle: written from the property text
PANIC_RE = re.compile(r"panicked at|thread '.*' panicked|RUST_BACKTRACE|stack backtrace:|fatal runtime error|has overflowed its stack")


def oracle(case, obs):
    """-> (verdict, text).  verdict: 'ok' | 'hang' | 'fail' | 'known:<id>'."""
    if obs['timed_out']:
        return 'hang', 'no exit within %ss (C09 territory; counted, not judged here)' % case.get('timeout', 20)
    rc = obs['exit']
    text = obs['stdout'] + '\n' + obs['stderr']
    if rc < 0:
        return 'fail', 'terminated by signal %d' % -rc
    if PANIC_RE.search(text):
        m = PANIC_RE.search(text)
        return 'fail', 'a panic was reported (exit status %d): %s' % (rc, text[max(0, m.start() - 60):m.start() + 240].replace('\n', ' '))
    doer_mode = any(unhx(a) == b'--doer' for a in case['argv'])
    if rc not in DOCUMENTED:
        if doer_mode and rc in DOER_INTERNAL:
            return 'known:F10', 'a process started with --doer ended with status %d' % rc
        return 'fail', 'exit status %d is not one of the documented 0, 2, 10, 11, 12, 18, 19' % rc
    if rc != 0 and not re.search(r'(?i)error', text):
        return 'fail', 'exit status %d without an error message (output: %r)' % (rc, text[-300:])
    return 'ok', ''


# ------------------------------------------------------------------------------------------------
# generators
FLAG_ENUMS = {
    '--deploy': ['prompt', 'error', 'ok', 'force'],
    '--dest-file-newer': ['prompt', 'error', 'skip', 'overwrite'],
    '--dest-file-older': ['prompt', 'error', 'skip', 'overwrite'],
    '--files-same-time': ['prompt', 'error', 'skip', 'overwrite'],
    '--dest-entry-needs-deleting': ['prompt', 'error', 'skip', 'delete'],
    '--dest-root-needs-deleting': ['prompt', 'error', 'skip', 'delete'],
    '--all-destructive-behaviour': ['prompt', 'error', 'skip', 'proceed'],
    '--generate-auto-complete-script': ['bash', 'elvish', 'fish', 'powershell', 'zsh'],
}
BOOL_FLAGS = ['--dry-run', '--no-progress', '--stats', '-q', '--quiet', '-v', '--verbose', '--list-embedded-binaries',
              '--doer', '--dump-memory-usage', '--help', '-h', '--version', '-V']
VALUE_FLAGS = list(FLAG_ENUMS) + ['--spec', '--filter', '--remote-port', '--port', '--log-filter']
QUIET_FLAGS = ['--dry-run', '--no-progress', '--stats', '--quiet', '--verbose']

MTIMES_NS = [-(2 ** 62), -(2 ** 31 + 1) * 10 ** 9, -(2 ** 31) * 10 ** 9, -315619200 * 10 ** 9, -10 ** 9, -1, 0, 1, 999999999,
             10 ** 9, (2 ** 31 - 1) * 10 ** 9 + 999999999, 2 ** 31 * 10 ** 9, 2 ** 32 * 10 ** 9, 2 ** 33 * 10 ** 9 + 5,
             15032385535 * 10 ** 9 + 999999999, 15032385536 * 10 ** 9, 2 ** 40 * 10 ** 9, 2 ** 62, (2 ** 63 - 1)]
PRE_EPOCH = [m for m in MTIMES_NS if m < 0]


def odd_name(rng):
    """A file name: any bytes except '/' and NUL, 1..255 bytes."""
    k = rng.randrange(12)
    if k == 0:
        n = bytes(rng.randrange(1, 256) for _ in range(rng.choice([1, 2, 5, 40])))
    elif k == 1:
        n = rng.choice([b'-', b'--', b'-x', b'--doer', b'--help', b'-q', b'--spec', b'--filter', b'+a', b'-a'])
    elif k == 2:
        n = rng.choice([b' ', b'a b', b' lead', b'trail ', b'new\nline', b'tab\there', b'cr\rx', b'\x1b[31mred', b'bell\x07', b'del\x7f'])
    elif k == 3:
        n = rng.choice([b'\xff', b'a\xffb', b'\xc3', b'\xc3\x28', b'\xed\xa0\x80', b'\xf4\x90\x80\x80', b'\xe2\x82', b'ok\xfe\xff'])
    elif k == 4:
        n = rng.choice(['é'.encode(), '日本語'.encode(), '🙂'.encode(), 'e\u0301'.encode(), '\u202eabc'.encode(), '\u00a0'.encode(), '\ufeffbom'.encode()])
    elif k == 5:
        n = bytes([rng.choice(b'abcxyz.')]) * rng.choice([200, 254, 255])
    elif k == 6:
        n = rng.choice([b'back\\slash', b'\\', b'a\\b\\c', b'C:', b'C:\\x', b'a:b', b'host:path', b'user@host:p', b':', b'@', b'*', b'?', b'[', b'(', b'a|b', b'$x', b'`x`', b'"', b"'", b'%s', b'{}', b'#'])
    elif k == 7:
        n = rng.choice([b'.', b'..'])[:0] + rng.choice([b'.hidden', b'...', b'.a.', b'a.', b'~', b'~root', b'.git'])
    elif k == 8:
        n = ('x' * rng.randrange(1, 60) + '\u00e9' * rng.randrange(1, 40)).encode()[:255]
    else:
        n = rng.choice([b'a', b'b', b'file.txt', b'sub', b'dir', b'README'])
    n = n.replace(b'/', b'_').replace(b'\0', b'_')[:255]
    if n in (b'', b'.', b'..'):
        n = b'x'
    return n


def quiet_flags(rng, allow_prompts=False):
    fl = []
    for f in QUIET_FLAGS:
        if rng.random() < 0.2:
            if f == '--verbose' and '--quiet' in fl:
                continue
            fl.append(f)
    if not allow_prompts or rng.random() < 0.7:
        if rng.random() < 0.5:
            fl += ['--all-destructive-behaviour', rng.choice(['error', 'skip', 'proceed'])]
        else:
            for f in ['--dest-file-newer', '--dest-file-older', '--files-same-time', '--dest-entry-needs-deleting', '--dest-root-needs-deleting']:
                if rng.random() < 0.5:
                    fl += [f, rng.choice(FLAG_ENUMS[f][1:])]
    return fl


def leaf_ops(rng, rel, shm=False):
    """One odd entry at relative path `rel` (bytes)."""
    k = rng.randrange(14)
    h = hx(rel)
    if k < 4:
        return [['file', h, rng.choice([0, 0, 1, 100, 4095, 4096, 4097, 70000, 1048576, 1048577]), rng.choice(MTIMES_NS + [None, None, 1600000000 * 10 ** 9])]]
    if k == 4:
        return [['dir', h], ['utime', h, rng.choice(MTIMES_NS)]]
    if k == 5:
        return [['link', h, hx(rng.choice([b'nowhere', b'.', b'..', b'/', b'/nonexistent', hx(rel).encode()[:0] + rel.split(b'/')[-1], b'a/../b', b'\xff\xfe', b'x' * 300, b'back\\slash', b'']) or b'e')],
                ['utime', h, rng.choice(MTIMES_NS)]]
    if k == 6:
        return [['fifo', h]]
    if k == 7:
        return [['sock', h]] if len(rel) < 90 and b'/' not in rel else [['fifo', h]]
    if k == 8:
        return [['cdev', h]]
    if k == 9:
        return [['bdev', h]]
    if k == 10:
        return [['file', h, rng.choice([2 ** 20 * 5, 2 ** 26]), rng.choice([None, 0, 1])]]
    if k == 11:
        return [['dir', h]]
    return [['file', h, 3, rng.choice(PRE_EPOCH + [0, 1])]]


def gen_tree_case(rng, kind=None):
    """src and dest trees with odd content, `rjrssync s d [flags]` with local placement."""
    kind = kind or rng.choice(['names', 'names', 'times', 'times', 'special', 'roots', 'deep', 'mixed', 'mixed', 'longnames', 'kept', 'kept'])
    ops, argv = [], []
    src, dest = b's', b'd'
    if kind == 'roots':
        # the root itself is something odd, on either side
        which = rng.choice(['src', 'dest', 'both'])
        if which in ('src', 'both'):
            r = rng.randrange(7)
            if r == 0:
                ops += [['file', hx(src), 5, rng.choice(MTIMES_NS)]]
            elif r == 1:
                ops += [['dir', hx(b'realdir')], ['file', hx(b'realdir/f'), 3, None], ['link', hx(src), hx(rng.choice([b'realdir', b'realdir/f', b'nowhere', b's']))]]
            elif r == 2:
                ops += leaf_ops(rng, src)
            elif r == 3:
                pass                                    # missing source
            elif r == 4:
                ops += [['dir', hx(src)], ['utime', hx(src), rng.choice(MTIMES_NS)]]
            elif r == 5:
                src = odd_name(rng)
                ops += [['dir', hx(src)], ['file', hx(src + b'/f'), 2, None]]
            else:
                ops += [['fifo', hx(src)]]
        else:
            ops += [['dir', hx(src)], ['file', hx(src + b'/f'), 2, None]]
        if which in ('dest', 'both'):
            r = rng.randrange(6)
            if r == 0:
                ops += [['file', hx(dest), 5, rng.choice(MTIMES_NS)]]
            elif r == 1:
                ops += [['dir', hx(b'destreal')], ['link', hx(dest), hx(rng.choice([b'destreal', b'nowhere', b'd']))]]
            elif r == 2:
                ops += leaf_ops(rng, dest)
            elif r == 3:
                dest = odd_name(rng) if dest == b'd' else dest
            elif r == 4:
                dest = b'missing1/missing2/d'
            else:
                ops += [['dir', hx(dest)], ['utime', hx(dest), rng.choice(MTIMES_NS)]]
        if src == dest:
            dest = dest + b'2'
        trail = rng.random() < 0.25
        argv = [src + (b'/' if rng.random() < 0.15 else b''), dest + (b'/' if trail else b'')]
    elif kind == 'kept':
        # a destination entry that is in the way of a source entry and is KEPT (skip), next to entries whose names
        # are multi-byte and of every byte length around the kept path's: path-prefix tests on byte strings
        ops += [['dir', hx(src)], ['dir', hx(dest)]]
        keptname = rng.choice([b'd', b'ab', b'abc', 'k\u00e9'.encode(), b'dir1'])
        if rng.random() < 0.5:
            ops += [['dir', hx(src + b'/' + keptname)], ['file', hx(src + b'/' + keptname + b'/in'), 2, None]]
        else:
            ops += [['file', hx(src + b'/' + keptname), 4, None]]
        r = rng.randrange(3)
        if r == 0:
            ops += [['file', hx(dest + b'/' + keptname), 3, None]] if ops[-1][0] != 'file' else [['dir', hx(dest + b'/' + keptname)]]
        elif r == 1:
            ops += [['link', hx(dest + b'/' + keptname), hx(b'nowhere')]]
        else:
            ops += [['dir', hx(b'elsewhere')], ['link', hx(dest + b'/' + keptname), hx(b'../elsewhere')]]
        pool = ['\u00e9', '\u00e9\u00e9', '\u65e5\u672c\u8a9e', 'a\u00e9', 'ab\u65e5', '\u00f1x', 'd\u00e9', 'ab', 'abcd', '\U0001f600', 'x\U0001f600y']
        for nm in rng.sample(pool, rng.randrange(2, 6)):
            b = nm.encode()
            which = rng.random()
            if which < 0.5:
                ops += [['file', hx(src + b'/' + b), 1, None]]
            elif which < 0.8:
                ops += [['dir', hx(src + b'/' + b)], ['file', hx(src + b'/' + b + b'/f'), 1, None]]
            else:
                ops += [['file', hx(dest + b'/' + b), 1, None]]
        argv = [src, dest]
        flags0 = rng.choice([['--dest-entry-needs-deleting', 'skip'], ['--all-destructive-behaviour', 'skip'],
                             ['--dest-entry-needs-deleting', 'skip', '--dest-file-older', 'overwrite']])
        seen, out = set(), []
        for op in ops:
            key = (op[1], op[0] == 'utime')
            if key not in seen:
                seen.add(key); out.append(op)
        return {'family': 'tree', 'kind': kind, 'setup': out, 'argv': [hx(a) for a in argv] + [hx(f.encode()) for f in flags0], 'place': 'LL', 'timeout': 30}
    elif kind == 'deep':
        side = rng.choice(['src', 'dest', 'both'])
        ops += [['dir', hx(src)], ['dir', hx(dest)], ['file', hx(src + b'/top'), 1, None]]
        depth, nl = rng.choice([(5, 200), (18, 200), (22, 200), (17, 250), (40, 120), (30, 255)])
        leaf = rng.choice(['file', 'link', 'fifo', 'none'])
        if side in ('src', 'both'):
            ops += [['deep', hx(src), depth, nl, leaf]]
        if side in ('dest', 'both'):
            ops += [['deep', hx(dest + (b'' if side == 'dest' else b'')), depth + (0 if side == 'dest' else rng.choice([0, 1])), nl, leaf]]
        argv = [src, dest]
    else:
        ops += [['dir', hx(src)]]
        has_dest = rng.random() < 0.7
        if has_dest:
            ops += [['dir', hx(dest)]]
        n = rng.randrange(1, 7)
        for i in range(n):
            side = rng.choice([src, dest]) if has_dest else src
            if kind == 'names':
                nm = odd_name(rng)
            elif kind == 'longnames':
                nm = bytes([rng.choice(b'abc')]) * rng.choice([250, 255]) + b''
                nm = nm[:255]
            else:
                nm = rng.choice([b'a', b'b', b'c', b'sub']) + (b'%d' % i)
            sub = rng.random() < 0.25
            rel = side + b'/' + nm
            if sub:
                ops += [['dir', hx(rel)]]
                rel = rel + b'/' + (odd_name(rng) if kind in ('names', 'mixed') else b'inner')
            if kind == 'times':
                ops += [['file', hx(rel), rng.choice([0, 3, 5000]), rng.choice(MTIMES_NS)]]
                if has_dest and rng.random() < 0.5:       # the same name on the other side with another odd time
                    other = (dest if side == src else src) + rel[len(side):]
                    if sub:
                        ops += [['dir', hx(other.rsplit(b'/', 1)[0])]]
                    ops += [['file', hx(other), rng.choice([0, 3]), rng.choice(MTIMES_NS)]]
            elif kind == 'special':
                ops += leaf_ops(rng, rel)
                if has_dest and rng.random() < 0.4:       # a regular thing where the other side has a special one
                    other = (dest if side == src else src) + rel[len(side):]
                    if sub:
                        ops += [['dir', hx(other.rsplit(b'/', 1)[0])]]
                    ops += [['file', hx(other), 3, None]] if rng.random() < 0.5 else [['fifo', hx(other)]]
            elif kind == 'longnames':
                ops += [['file', hx(rel), 1, None]] if rng.random() < 0.6 else [['dir', hx(rel)]]
            else:
                ops += leaf_ops(rng, rel) if rng.random() < 0.6 else [['file', hx(rel), rng.choice([0, 1, 10]), None]]
        argv = [src, dest]
    # de-duplicate ops that would collide (same path twice): keep the first
    seen, out = set(), []
    for op in ops:
        key = (op[1], op[0] == 'utime')
        if key in seen:
            continue
        seen.add(key)
        out.append(op)
    flags = quiet_flags(rng, allow_prompts=True)
    if rng.random() < 0.1:
        flags += ['--filter', rng.choice(['-.*', '+a.*', '-sub', '+.*\\.txt', '-\\x{41}'])]
    return {'family': 'tree', 'kind': kind, 'setup': out, 'argv': [hx(a) for a in argv] + [hx(f) for f in flags], 'place': 'LL', 'timeout': 30}


def gen_huge_case(rng, variant=None):
    """Sparse files of up to 2^63 - 1 bytes (tmpfs): totals beyond u64.  Never copied for real."""
    variant = variant or rng.choice(['dry', 'delete', 'equal', 'dry-stats'])
    big = 2 ** 63 - 1
    n = rng.choice([2, 3, 3, 4])
    ops = [['dir', hx(b's')]]
    argv = ['s', 'd']
    if variant in ('dry', 'dry-stats'):
        ops += [['file', hx(b's/big%d' % i), rng.choice([big, big, 2 ** 62, big - 1]), 10 ** 9] for i in range(n)]
        argv += ['--dry-run'] + (['--stats'] if variant == 'dry-stats' else [])
    elif variant == 'delete':
        ops += [['dir', hx(b'd')]] + [['file', hx(b'd/big%d' % i), big, 10 ** 9] for i in range(n)]
        argv += rng.choice([[], ['--stats'], ['--dry-run']])
    else:
        ops += [['dir', hx(b'd')]]
        for i in range(n):
            ops += [['file', hx(b's/big%d' % i), big, 10 ** 9], ['file', hx(b'd/big%d' % i), big, 10 ** 9]]
        argv += rng.choice([[], ['--stats']])
    return {'family': 'tree', 'kind': 'huge-' + variant, 'setup': ops, 'argv': [hx(a) for a in argv], 'place': 'LL', 'shm': True, 'timeout': 30}


def odd_value(rng, flag=None):
    k = rng.randrange(13)
    if flag in FLAG_ENUMS and k < 4:
        return rng.choice(FLAG_ENUMS[flag]).encode()
    if flag in FLAG_ENUMS and k == 4:
        return rng.choice(FLAG_ENUMS[flag]).upper().encode()
    if flag in ('--remote-port', '--port') and k < 6:
        return rng.choice([b'0', b'1', b'22', b'65535', b'65536', b'-1', b'99999999999999999999', b'0x10', b'1e3', b' 80', b'@PORT@', b'@PORT@'])
    if flag == '--filter' and k < 8:
        return rng.choice([b'+.*', b'-.*', b'+', b'-', b'x', b'', b'+(', b'-[', b'+a{99999}', b'+(a*)*b', b'+\\', b'-(?P<n>a)(?P<n>b)', b'+\\p{Greek}',
                           b'+' + b'(' * 300 + b')' * 300, b'-' + b'a?' * 2000, b'+\\x{110000}', b'+(?i)A', b'-^$', b'+a|b', b'+[[:alpha:]]', b'+.{0,100000}',
                           b'+(?:' * 120 + b'a' + b')' * 120])
    if flag == '--log-filter' and k < 6:
        return rng.choice([b'info', b'trace', b'off', b'garbage=', b'a=b=c', b'=', b'rjrssync=trace', b'/', b'info/['])
    if k == 8:
        return b''
    if k == 9:
        return b'A' * rng.choice([1000, 70000, 120000])
    if k == 10:
        return rng.choice([b'\xff', b'ab\xfe', b'\xc3\x28', b'\xed\xa0\x80'])
    if k == 11:
        return rng.choice([b'-', b'--', b'-x', b'--dry-run', b'--doer', b'=', b'=x'])
    return rng.choice([b'yes', b'no', b'0', b'true', b'prompt ', b' skip', b'\n', b'\xe2\x80\x8b', b'null', b'~'])


def odd_positional(rng):
    k = rng.randrange(16)
    if k < 3:
        return rng.choice([b's', b'd', b's/', b'd/', b's/f', b'missing', b'missing/deeper/'])
    if k == 3:
        return rng.choice([b'@W@/s', b'@W@/d', b'@W@/missing', b'@W@/s/', b'@W@/s/f'])
    if k == 4:
        return rng.choice([b'localhost:@W@/s', b'localhost:@W@/d', b'user@localhost:@W@/d', b'localhost:s', b'h:d', b'[::1]:d'])
    if k == 5:
        return rng.choice([b'host:', b':path', b'user@:p', b'@host:p', b'a:b:c', b'user@@h:p', b'u@h@x:p', b'h:\\x', b'C:\\x', b'C:', b'c:x', b'C:/x'.replace(b'/', b'\\')])
    if k == 6:
        return b''
    if k == 7:
        return b'p' * rng.choice([300, 5000, 100000])
    if k == 8:
        return rng.choice([b'\xff', b's\xff', b'h\xfe:p'])
    if k == 9:
        return rng.choice([b'-', b'--', b'-s'])
    if k == 10:
        return rng.choice([b'a b', b' ', b'new\nline', b'*', b'~', b'$HOME', b'`id`', b'a;b', b'a|b', b"it's", b'"q"'])
    if k == 11:
        return rng.choice(['é'.encode(), '日本'.encode(), 'host\u00e9:p'.encode()])
    if k == 12:
        return rng.choice([b'fifo', b'lnk', b'loop', b'old'])
    return rng.choice([b's', b'd'])


ARGS_SETUP = [['dir', hx(b's')], ['file', hx(b's/f'), 3, None], ['dir', hx(b's/sub')], ['file', hx(b's/sub/g'), 0, 1],
              ['dir', hx(b'd')], ['file', hx(b'd/f'), 4, 5], ['file', hx(b'd/extra'), 1, None],
              ['fifo', hx(b'fifo')], ['link', hx(b'lnk'), hx(b's')], ['link', hx(b'loop'), hx(b'loop')], ['file', hx(b'old'), 2, -10 ** 9],
              ['text', hx(b'good.yaml'), hx(b'syncs:\n  - src: s\n    dest: d2\n')], ['text', hx(b'empty.yaml'), hx(b'')],
              ['text', hx(b'bad.yaml'), hx(b'syncs: [')], ['dir', hx(b'dir.yaml')]]


def gen_args_case(rng):
    """Random subsets and orders of the real flags with good, bad, empty, huge and non-UTF-8 values."""
    argv = []
    shape = rng.randrange(10)
    npos = rng.choice([0, 1, 2, 2, 2, 2, 3, 4]) if shape else 2
    pos = [odd_positional(rng) for _ in range(npos)]
    nflags = rng.choice([0, 1, 1, 2, 3, 5, 8])
    flags = []
    for _ in range(nflags):
        if rng.random() < 0.45:
            f = rng.choice(BOOL_FLAGS if rng.random() < 0.8 else ['--doer', '--dump-memory-usage', '--list-embedded-binaries'])
            if rng.random() < 0.06:
                flags.append((f + '=' + rng.choice(['true', 'false', '', '1'])).encode())
            else:
                flags.append(f.encode())
        else:
            f = rng.choice(VALUE_FLAGS)
            if f == '--spec' and rng.random() < 0.7:
                v = rng.choice([b'good.yaml', b'empty.yaml', b'bad.yaml', b'dir.yaml', b'missing.yaml', b'fifo.yaml', b's', b'@W@/good.yaml'])
            else:
                v = odd_value(rng, f)
            r = rng.random()
            if r < 0.25:
                flags.append(f.encode() + b'=' + v)
            elif r < 0.3:
                flags.append(f.encode())                     # value missing
            else:
                flags += [f.encode(), v]
    if rng.random() < 0.05:
        flags.append(rng.choice([b'--unknown', b'-Z', b'--doer=1', b'--', b'-', b'--spec', b'---', b'-qv', b'-qq', b'--quiet --verbose']))
    # interleave
    items = [[p] for p in pos]
    i = 0
    grouped = []
    while i < len(flags):
        if flags[i].startswith(b'--') and b'=' not in flags[i] and flags[i].decode('latin1') in VALUE_FLAGS and i + 1 < len(flags):
            grouped.append([flags[i], flags[i + 1]])
            i += 2
        else:
            grouped.append([flags[i]])
            i += 1
    allg = items + grouped
    if rng.random() < 0.7:
        rng.shuffle(allg)
    for g in allg:
        argv += g
    total = sum(len(a) + 1 for a in argv)
    while total > 1800000 and argv:                          # stay below ARG_MAX
        total -= len(argv.pop()) + 1
    doer = b'--doer' in argv
    case = {'family': 'args', 'kind': 'doer-flag' if doer else 'boss', 'setup': ARGS_SETUP, 'argv': [hx(a) for a in argv], 'place': 'LL',
            'listen': any(b'@PORT@' in a for a in argv), 'timeout': 20}
    if doer:
        case['stdin'] = hx(rng.choice([b'', b'\n', b'zz\n', b'00112233445566778899aabbccddeeff\n', b'\xff\xfe\n', b'1' * 33 + b'\n']))
    return case


def gen_doer_case(rng):
    """A process started in doer mode by hand: nonsense arguments, garbage or nothing on stdin."""
    extra = []
    for _ in range(rng.choice([0, 0, 1, 2, 3])):
        extra += rng.choice([[b'--port', odd_value(rng, '--port')], [b'--log-filter', odd_value(rng, '--log-filter')], [b'--dump-memory-usage'],
                              [b'--port'], [b'--unknown'], [b'positional'], [b'--port=7'], [b'--help'], [b'--version'], [b'--spec', b'x'], [b'--dry-run'], [b'\xff']])
    argv = [b'--doer'] + extra
    if rng.random() < 0.3:
        rng.shuffle(argv)
    stdin = rng.choice([b'', b'\n', b'not hex\n', b'00112233445566778899aabbccddeeff\n', b'00112233445566778899aabbccddeeff', b'0\n', b'f' * 32 + b'\nmore\nlines\n',
                        b'f' * 33 + b'\n', b'-1\n', b'+1\n', b'\xff\xfe\xfd\n', b'\0\n', b' 12\n', b'12 \n', b'A' * 100000 + b'\n', b'0x12\n', b'1_000\n'])
    return {'family': 'doer', 'kind': 'direct', 'setup': [], 'argv': [hx(a) for a in argv], 'stdin': hx(stdin), 'place': 'LL',
            'listen': any(b'@PORT@' in a for a in argv), 'timeout': 20}


SPEC_BASE = '''src_hostname: ""
dest_hostname: ""
deploy_behaviour: error
syncs:
  - src: s
    dest: d2
    filters: [ "+.*", "-sub" ]
    dest_file_newer_behaviour: error
    dest_file_older_behaviour: skip
    files_same_time_behaviour: skip
    dest_entry_needs_deleting_behaviour: delete
    dest_root_needs_deleting_behaviour: delete
  - src: s2
    dest: d3
'''

SPEC_HANDMADE = [
    # several YAML documents: whatever is done with the later ones, none of them may bring the process down
    b'syncs: []\n---\n' + b'- ' * 200000 + b'x\n', b'syncs: []\n---\n' + b'? ' * 200000 + b'x\n', b'syncs: []\n---\nok: 1\n---\n' + b'- ' * 150000 + b'x\n',
    b'syncs:\n  - src: s\n    dest: d2\n---\n' + b'- ' * 200000 + b'x\n', b'- ' * 200000 + b'x\n---\nsyncs: []\n', b'syncs: []\n---\n' + b'a:\n' + b''.join(b' ' * i + b'k:\n' for i in range(1, 3000)),
    b'syncs:\n  - src: s\n    dest: d2\n---\nsyncs:\n  - src: s2\n    dest: d3\n', b'syncs:\n  - src: s\n    dest: d2\n---\nfree-form notes, not a mapping\n', b'---\n---\nsyncs: []\n',
    b'', b'\n', b'---\n', b'...\n', b'syncs:\n', b'syncs: []\n', b'syncs: {}\n', b'syncs: 5\n', b'syncs: ~\n', b'[]\n', b'{}\n', b'5\n', b'"str"\n', b'~\n',
    b'syncs: [' * 1, b'syncs: ' + b'[' * 5000, b'syncs: ' + b'[' * 3000 + b']' * 3000, b'syncs: ' + b'{a: ' * 3000, b'a: ' * 3000 + b'b', b'- ' * 4000 + b'x',
    b'syncs:\n  - src: s\n    dest: d2\n    src: s\n', b'syncs:\n  - src: s\n', b'syncs:\n  - dest: d2\n', b'syncs:\n  - src: ""\n    dest: d2\n',
    b'syncs:\n  - src: [s]\n    dest: d2\n', b'syncs:\n  - src: 5\n    dest: 6\n', b'syncs:\n  - src: true\n    dest: null\n', b'syncs:\n  - src: s\n    dest: d2\n    filters: "+x"\n',
    b'syncs:\n  - src: s\n    dest: d2\n    filters: [1, 2]\n', b'syncs:\n  - src: s\n    dest: d2\n    filters: [["+x"]]\n', b'syncs:\n  - src: s\n    dest: d2\n    filters: ["x"]\n',
    b'syncs:\n  - src: s\n    dest: d2\n    filters: ["+("]\n', b'syncs:\n  - src: s\n    dest: d2\n    unknown_key: 1\n', b'unknown: 1\n', b'syncs:\n  - [a, b]\n', b'syncs:\n  - s\n',
    b'syncs:\n  - src: s\n    dest: d2\n    dest_file_newer_behaviour: bogus\n', b'syncs:\n  - src: s\n    dest: d2\n    dest_file_newer_behaviour: PROMPT\n',
    b'syncs:\n  - src: s\n    dest: d2\n    dest_file_newer_behaviour: [error]\n', b'deploy_behaviour: maybe\nsyncs: []\n', b'src_hostname: [a]\nsyncs: []\n',
    b'src_hostname: 5\n', b'src_username: u\nsyncs:\n  - src: s\n    dest: d2\n', b'dest_hostname: ""\ndest_username: someone\nsyncs:\n  - src: s\n    dest: d2\n',
    b'a: &x [1, 2]\nb: *x\n', b'syncs: &s\n  - src: s\n    dest: d2\nother: *s\n', b'syncs:\n  - &a {src: s, dest: d2}\n  - *a\n', b'x: *undefined\n', b'&a a: *a\n',
    b'syncs:\n  - src: &p s\n    dest: *p\n', b'? [complex, key]\n: v\n', b'? {a: b}\n: v\nsyncs: []\n', b'1: 2\nsyncs: []\n', b'~: x\n', b'true: x\nsyncs: []\n',
    b'syncs:\n\t- src: s\n\t  dest: d2\n', b'\tsyncs: []\n', b'syncs: [\t]\n', b'syncs:\n  - src: s\n\tdest: d2\n', b'key: "unterminated\n', b"key: 'unterminated\n",
    b'key: |\n  block\n  scalar\nsyncs: []\n', b'key: >-\n  folded\nsyncs: []\n', b'key: |+5\n', b'%YAML 1.2\n---\nsyncs: []\n', b'%TAG ! tag:x,2000:\n---\nsyncs: []\n', b'%BOGUS\n---\n',
    b'--- !!map\nsyncs: []\n', b'syncs: !!seq []\n', b'syncs: !!str []\n', b'syncs: !custom []\n', b'!!binary x\n', b'syncs: !!int "x"\n', b'a: !!float abc\n', b'a: !!bool maybe\n',
    b'---\nsyncs: []\n---\nsecond: doc\n', b'--- a\n--- b\n', b'syncs: []\n...\ngarbage [\n', b'\xef\xbb\xbfsyncs: []\n', b'\xff\xfes\x00y\x00', b'\xfe\xff\x00s\x00y', b'\xff\xff\xff', b'\x00\x00\x00',
    b'syncs: []\x00\n', b'\x80\x81\x82', b'syncs: [\xc3\x28]\n', b'a: \xed\xa0\x80\n', b'key: "\\x41\\u263A\\U0001F600"\nsyncs: []\n', b'key: "\\q"\n', b'key: "\\xZZ"\n', b'key: "\\u12"\n', b'key: "\\UFFFFFFFF"\n',
    b'key: "\\ud800"\n', b'a: 0x7fffffffffffffff\nb: 0xffffffffffffffffffff\nc: 1e999\nd: -0\ne: .inf\nf: .nan\ng: 0o17\nh: 1_000\nsyncs: []\n', b'a: 99999999999999999999999999999\nsyncs: []\n',
    b'a: -9223372036854775808\nb: -9223372036854775809\nsyncs: []\n', b'{a: 1, a: 2}\n', b'a: 1\na: 2\nsyncs: []\n', b'syncs: []\nsyncs: []\n', b'{' * 200 + b'}' * 200, b'[' * 100 + b']' * 100 + b'\n',
    b'{a: [b, {c: [d, {e: f}]}]}\n', b'a:\n' + b''.join(b' ' * i + b'k%d:\n' % i for i in range(1, 400)), b'a: ' + b'x' * 1000000 + b'\n', b'syncs:\n' + b'  - src: s\n    dest: d2\n' * 3000,
    b'#' * 100000, b'# only a comment\n', b': \n', b':\n', b'- \n', b'-\n', b'? \n', b'a: b: c\n', b'a:b\n', b'[a, b\n', b'{a: b\n', b'a: [b, c}\n', b'a: {b, c]\n', b', \n', b'a: ,\n',
    b'"a": "b"\n"syncs": []\n', b"'syncs': []\n", b'syncs : []\n', b'SYNCS: []\n', b' syncs: []\n', b'syncs: []  # c\n', b'syncs:\n- src: s\n  dest: d2\n', b'syncs:\n    - src: s\n      dest: d2\n',
    b'syncs:\n  - src: s\n    dest: d2\n  - src: missing\n    dest: d3\n', b'syncs:\n  - src: s\n    dest: d2\n    filters: []\n', b'syncs:\n  - {src: s, dest: d2, filters: ["+.*"]}\n',
    b'syncs:\n  - src: fifo\n    dest: d2\n', b'syncs:\n  - src: old\n    dest: d2\n', b'syncs:\n  - src: loop\n    dest: d2\n', b'syncs:\n  - src: s\n    dest: fifo\n',
    b'syncs:\n  - src: s\n    dest: d2\n    filters: ["+' + b'(' * 500 + b'"]\n', b'syncs:\n  - src: s\n    dest: "d2 "\n', b'syncs:\n  - src: "s"\n    dest: ' + b'D' * 5000 + b'\n',
    b'src_hostname: nosuchhost\nsyncs:\n  - src: s\n    dest: d2\n', b'dest_hostname: nosuchhost\nsyncs:\n  - src: s\n    dest: d2\n', b'src_hostname: "a b;c"\nsyncs:\n  - src: s\n    dest: d2\n',
    b'src_hostname: "-oProxyCommand=x"\nsyncs:\n  - src: s\n    dest: d2\n', b'src_hostname: "' + b'h' * 70000 + b'"\nsyncs:\n  - src: s\n    dest: d2\n',
]


def spec_text_is_safe(t):
    """Conservative: the text cannot name a path outside the work directory (no '/', no '..', no escapes that
    could spell them, no home or drive syntax)."""
    return not any(x in t for x in (b'/', b'..', b'\\', b'~/', b'%')) or t in SPEC_HANDMADE_SAFE


SPEC_HANDMADE_SAFE = set(SPEC_HANDMADE)     # read one by one: they name only s, s2, d2, d3, fifo, old, loop, missing


def mutate_spec(rng, text):
    t = bytearray(text)
    for _ in range(rng.choice([1, 1, 2, 3, 6])):
        k = rng.randrange(12)
        if not t:
            t = bytearray(b'a')
        i = rng.randrange(len(t))
        if k == 0:
            del t[i:i + rng.choice([1, 1, 3, 10, 40])]
        elif k == 1:
            t[i:i] = bytes([rng.choice(b':-[]{}#&*!|>\'"@`, \t\n?')])
        elif k == 2:
            t[i] = rng.choice(b'abcxyz0159 \t\n:-[]{}"\'#&*!,')
        elif k == 3:
            j = rng.randrange(len(t))
            a, b = min(i, j), max(i, j)
            t[a:a] = t[a:b][:200]                              # duplicate a span
        elif k == 4:
            lines = bytes(t).split(b'\n')
            if len(lines) > 1:
                a = rng.randrange(len(lines))
                if rng.random() < 0.5:
                    lines.insert(a, lines[rng.randrange(len(lines))])      # duplicate a line (duplicate keys)
                else:
                    del lines[a]                                           # drop a line (missing keys)
            t = bytearray(b'\n'.join(lines))
        elif k == 5:
            lines = bytes(t).split(b'\n')
            a = rng.randrange(len(lines))
            lines[a] = rng.choice([b' ', b'\t', b'  ', b'']) + lines[a].lstrip() if rng.random() < 0.5 else b'  ' + lines[a]
            t = bytearray(b'\n'.join(lines))
        elif k == 6:
            t[i:i] = rng.choice([b'[' * 2000, b'{a: ' * 1500, b'x' * 100000, b'&a ', b'*a ', b'!!str ', b'!!int ', b'? ', b'---\n', b'...\n', b'\xff', b'\x00', b'\xef\xbb\xbf', b'\xc3', b'\r\n', b'\r'])
        elif k == 7:
            for key in (b'error', b'skip', b'delete', b'"+.*"', b'"-sub"', b'd2', b'd3', b's\n'):
                if key in t and rng.random() < 0.4:
                    rep = rng.choice([b'5', b'[]', b'{}', b'~', b'true', b'1.5', b'""', b'[a, b]', b'{a: b}', b'prompt', b'Error', b'overwrite', b'"x"', b'- x'])
                    t = bytearray(bytes(t).replace(key, rep if not rep.startswith(b'- ') else rep, 1))
                    break
        elif k == 8:
            t = bytearray(bytes(t).replace(b':', rng.choice([b'', b' :', b'::', b':\t', b'=', b': :']), rng.choice([1, 2, 100])))
        elif k == 9:
            t = t[:i]                                          # truncate
        elif k == 10:
            t = bytearray(bytes(t).replace(b'\n', rng.choice([b'\r\n', b'\r', b'\n\n', b' \n', b'\n#c\n'])))
        else:
            t[i:i] = bytes(rng.randrange(256) for _ in range(rng.choice([1, 4, 50])))
    return bytes(t)


SPEC_SETUP = [['dir', hx(b's')], ['file', hx(b's/f'), 3, None], ['dir', hx(b's/sub')], ['file', hx(b's/sub/g'), 0, 1], ['dir', hx(b's2')], ['file', hx(b's2/h'), 9, 2],
              ['dir', hx(b'd2')], ['file', hx(b'd2/stale'), 2, None], ['fifo', hx(b'fifo')], ['link', hx(b'loop'), hx(b'loop')], ['file', hx(b'old'), 2, -10 ** 9]]


def gen_spec_case(rng, text=None):
    if text is None:
        if rng.random() < 0.35:
            text = rng.choice(SPEC_HANDMADE)
        else:
            for _ in range(20):
                text = mutate_spec(rng, SPEC_BASE.encode())
                if spec_text_is_safe(text):
                    break
            else:
                text = SPEC_BASE.encode()
    if not spec_text_is_safe(text):
        text = text.replace(b'/', b'_').replace(b'..', b'__').replace(b'\\', b'_').replace(b'%', b'_')
    as_dir = rng.random() < 0.02
    ops = list(SPEC_SETUP) + ([['dir', hx(b'spec.yaml')]] if as_dir else [['text', hx(b'spec.yaml'), hx(text)]])
    argv = [b'--spec', b'spec.yaml']
    r = rng.random()
    if r < 0.1:
        argv += [b's', b'd2']                                  # --spec together with positionals
    elif r < 0.15:
        argv = [b's', b'--spec', b'spec.yaml']
    elif r < 0.2:
        argv = [b'--spec=spec.yaml']
    argv += [f.encode() for f in quiet_flags(rng)]
    if rng.random() < 0.1:
        argv += [b'--filter', rng.choice([b'+.*', b'-x', b'bad', b'+('])]
    return {'family': 'spec', 'kind': 'dir' if as_dir else 'text', 'setup': ops, 'argv': [hx(a) for a in argv], 'place': 'LL', 'timeout': 30}


def gen_remote_case(rng, base_case=None):
    """A tree case run with the source and/or the destination behind the fake ssh (a real doer process)."""
    c = dict(base_case or gen_tree_case(rng, rng.choice(['times', 'special', 'names', 'roots', 'mixed'])))
    place = rng.choice(['RL', 'LR', 'RR'])
    argv = [unhx(a) for a in c['argv']]
    # the two positionals are the first two elements of a tree case
    def remote(p):
        if p.startswith(b'-'):
            return p
        return b'localhost:@W@/' + p
    if not (argv[0].startswith(b'-') or argv[1].startswith(b'-')):
        if place[0] == 'R':
            argv[0] = remote(argv[0])
        if place[1] == 'R':
            argv[1] = remote(argv[1])
    extra = []
    r = rng.random()
    listen = False
    if r < 0.12:
        extra = [b'--remote-port', b'@PORT@']                  # a port that is in use: the doer cannot bind
        listen = True
    elif r < 0.2:
        extra = [b'--remote-port', rng.choice([b'0', b'1', b'65535'])]
    elif r < 0.28:
        extra = [b'--deploy', rng.choice([b'error', b'prompt'])]
    c.update({'family': 'remote', 'place': place, 'argv': [hx(a) for a in argv + extra], 'listen': listen, 'timeout': 40})
    return c


def valid_odd_name(rng):
    """An odd name that the tool can carry (valid UTF-8, no backslash)."""
    for _ in range(50):
        n = odd_name(rng)
        try:
            n.decode('utf-8')
        except UnicodeDecodeError:
            continue
        if b'\\' in n:
            continue
        return n
    return b'plain'


def gen_pty_case(rng):
    """A sync on a pseudo terminal: the progress bar is drawn (long and odd names in its message, files large
    enough for several redraws) and, for some, prompts are shown and answered, cancelled or left alone."""
    if rng.random() < 0.3:
        c = gen_tree_case(rng, rng.choice(['names', 'longnames', 'times', 'mixed', 'special']))
        ops = list(c['setup'])
        pos = [unhx(a) for a in c['argv']][:2]
    else:
        ops = [['dir', hx(b's')], ['dir', hx(b'd')]]
        names = [valid_odd_name(rng) for _ in range(rng.choice([3, 10, 40]))]
        for i, nm in enumerate(names):
            nm = nm[:200] + b'%d' % i
            r = rng.random()
            if r < 0.15:
                ops += [['dir', hx(b's/' + nm)], ['file', hx(b's/' + nm + b'/' + valid_odd_name(rng)), rng.choice([0, 5, 70000]), None]]
            elif r < 0.25:
                ops += [['link', hx(b's/' + nm), hx(rng.choice([b'nowhere', b'.', valid_odd_name(rng)]))]]
            else:
                ops += [['file', hx(b's/' + nm), rng.choice([0, 1, 4096, 70000, 70000, 2 ** 20, 2 ** 20 + 1, 2 ** 22 * 3, 2 ** 24, 2 ** 26 if rng.random() < 0.5 else 2 ** 20, 2 ** 27 if rng.random() < 0.15 else 5]), rng.choice([None, 0, 1, 10 ** 18, 2 ** 33 * 10 ** 9])]]
            r = rng.random()
            if r < 0.15:
                ops += [['file', hx(b'd/' + nm), 2, rng.choice([0, 5 * 10 ** 18])]]          # older / newer on the destination
            elif r < 0.25:
                ops += [['dir', hx(b'd/' + nm)], ['file', hx(b'd/' + nm + b'/inner'), 1, None]]   # incompatible: needs deleting
        for i in range(rng.choice([0, 3, 30])):
            ops += [['file', hx(b'd/stale' + valid_odd_name(rng)[:100] + b'%d' % i), rng.choice([0, 9]), None]]
        pos = [b's', b'd']
    if rng.random() < 0.5:
        flags = [b'--all-destructive-behaviour', rng.choice([b'proceed', b'proceed', b'skip', b'error'])]
        keys = b''
    else:
        flags = rng.choice([[], [b'--dest-entry-needs-deleting', b'prompt'], [b'--all-destructive-behaviour', b'prompt'], [b'--stats'], [b'--verbose'], [b'--dry-run']])
        keys = rng.choice([b'\r', b'\r\r\r', b'j\r', b'q', b'\x1b', b'jj\r', b'k\r', b'xyz\r', b'', b'j\rj\rj\rj\r', b'\r' * 12])
    seen, out = set(), []
    for op in ops:
        key = (op[1], op[0] == 'utime')
        if key in seen:
            continue
        seen.add(key)
        out.append(op)
    return {'family': 'pty', 'kind': 'bar', 'setup': out, 'argv': [hx(a) for a in pos + flags], 'place': 'LL', 'pty': True, 'keys': hx(keys), 'timeout': 40}


# ------------------------------------------------------------------------------------------------
def shrink(case, still_fails, budget=40):
    """Greedy: drop setup ops and arguments while the failure stays.  `still_fails(case) -> bool`."""
    cur = dict(case)
    tries = 0
    changed = True
    while changed and tries < budget:
        changed = False
        for field in ('setup', 'argv'):
            i = len(cur[field]) - 1
            while i >= 0 and tries < budget:
                if field == 'argv' and i < 2 and cur['family'] in ('tree', 'remote', 'pty'):
                    break                                    # keep the two positionals
                cand = dict(cur)
                cand[field] = cur[field][:i] + cur[field][i + 1:]
                tries += 1
                try:
                    ok = still_fails(cand)
                except Exception:
                    ok = False
                if ok:
                    cur = cand
                    changed = True
                i -= 1
    return cur


def describe(case):
    def s(h):
        return unhx(h).decode('utf-8', 'backslashreplace')
    return {'family': case['family'], 'kind': case.get('kind'), 'place': case.get('place'), 'argv': [s(a)[:120] for a in case['argv']][:30],
            'setup': [[op[0], s(op[1])[:80]] + [x if not isinstance(x, str) else s(x)[:60] for x in op[2:]] for op in case.get('setup', [])][:25]}
