#!/usr/bin/env python3
"""Fault-injecting stand-in for `ssh` (C09).  Used through a tiny `ssh` shell script first on PATH:

    ssh <[user@]host> <remote command>      ->   python3 cut_proxy.py <host> <remote command>

It runs the remote command locally (the deployed binary path is replaced by $FAKE_SSH_BINARY, as
tools/e2e.py's plain fake ssh does) and, according to the plan in $C09_PLAN (JSON, keyed by host),
  * "env":  {...}                      extra environment for this doer only,
  * "cut":  {"dir": "b2d"|"d2b", "frames": i, "bytes": b}
            puts a TCP proxy between boss and doer (the port in the doer's two
            "Waiting for incoming network connection on port N" lines is rewritten) which closes both
            sockets once `i` whole frames plus `b` bytes of the next one went in direction `dir`
            (boss->doer / doer->boss).  A frame is an 8-byte LE length followed by that many bytes.
  * "kill": {"log": path, "lines": k}  SIGKILLs the doer's process group as soon as the doer's command
            log (RJRSSYNC_VERIF_CMD_LOG, given through "env") has k lines, i.e. around its k-th command;
            what was in the log at that moment is written to <log>.killed
            (only when the signal really ended the process).
No other behaviour of ssh is imitated: stdin is inherited, stdout/stderr are relayed line by line until
the handshake and byte-wise afterwards, the exit status is the child's (255 when it was killed)."""
import os, sys, json, socket, struct, subprocess, threading, time, signal

HS = b'Waiting for incoming network connection on port '


class Proxy:
    def __init__(self, target_port, cut):
        self.target = target_port
        self.cut = cut
        self.ls = socket.socket(socket.AF_INET, socket.SOCK_STREAM)
        self.ls.bind(('0.0.0.0', 0))
        self.ls.listen(1)
        self.port = self.ls.getsockname()[1]
        self.lock = threading.Lock()
        self.closed = False
        self.frames = {'b2d': 0, 'd2b': 0}
        self.did_cut = False
        threading.Thread(target=self.serve, daemon=True).start()

    def close_both(self):
        with self.lock:
            if self.closed:
                return
            self.closed = True
        for s in (self.a, self.b):
            try:
                s.shutdown(socket.SHUT_RDWR)
            except OSError:
                pass
            try:
                s.close()
            except OSError:
                pass

    def serve(self):
        try:
            self.a, _ = self.ls.accept()           # the boss
        except OSError:
            return
        self.ls.close()
        self.b = socket.create_connection(('127.0.0.1', self.target))   # the doer
        for s in (self.a, self.b):
            s.setsockopt(socket.IPPROTO_TCP, socket.TCP_NODELAY, 1)
        threading.Thread(target=self.pump, args=(self.a, self.b, 'b2d'), daemon=True).start()
        threading.Thread(target=self.pump, args=(self.b, self.a, 'd2b'), daemon=True).start()

    def pump(self, src, dst, name):
        """Forward src -> dst counting frames; in the cut direction stop exactly at the planned position."""
        cutting = bool(self.cut) and self.cut.get('dir') == name
        frames_left = int(self.cut.get('frames', 0)) if cutting else -1
        budget = None      # bytes still allowed once the frame count is reached
        if cutting and frames_left == 0:
            budget = int(self.cut.get('bytes', 0))
            if budget == 0:
                self.did_cut = True
                self.close_both()
                return
        hdr = b''          # partial length header of the current frame
        body_left = 0      # bytes of the current frame body still to pass
        try:
            while True:
                data = src.recv(65536)
                if not data:
                    break
                i, cut_here = 0, False
                while i < len(data) and not cut_here:
                    if budget is not None:
                        take = min(budget, len(data) - i)
                        i += take
                        budget -= take
                        cut_here = budget == 0
                        continue
                    done = False
                    if body_left == 0:
                        take = min(8 - len(hdr), len(data) - i)
                        hdr += data[i:i + take]
                        i += take
                        if len(hdr) == 8:
                            body_left = struct.unpack('<Q', hdr)[0]
                            hdr = b''
                            done = body_left == 0
                    else:
                        take = min(body_left, len(data) - i)
                        body_left -= take
                        i += take
                        done = body_left == 0
                    if done:
                        self.frames[name] += 1
                        frames_left -= 1
                        if cutting and frames_left == 0:
                            budget = int(self.cut.get('bytes', 0))
                            cut_here = budget == 0
                dst.sendall(data[:i])
                if cut_here:
                    self.did_cut = True
                    self.close_both()
                    return
        except OSError:
            pass
        # one side ended: propagate (a half-open proxy would hide the peer's death)
        self.close_both()


def main():
    host, cmd = sys.argv[1], sys.argv[2]
    plan = {}
    try:
        plan = json.loads(os.environ.get('C09_PLAN', '{}')).get(host.split('@')[-1], {})
    except ValueError:
        pass
    binary = os.environ['FAKE_SSH_BINARY']
    cmd = cmd.replace('/var/tmp/rjrssync/rjrssync', binary)
    env = dict(os.environ)
    env.update(plan.get('env', {}))
    child = subprocess.Popen(['sh', '-c', cmd], stdout=subprocess.PIPE, stderr=subprocess.PIPE, env=env,
                             process_group=0)
    proxy = [None]
    plock = threading.Lock()

    def relay(src, dst):
        # line by line until the handshake line, raw afterwards
        while True:
            line = src.readline()
            if not line:
                break
            if line.startswith(HS) and plan.get('cut'):
                port = int(line[len(HS):].strip())
                with plock:
                    if proxy[0] is None:
                        proxy[0] = Proxy(port, plan['cut'])
                line = HS + str(proxy[0].port).encode() + b'\n'
            try:
                dst.write(line)
                dst.flush()
            except OSError:
                break
        try:
            dst.close()
        except OSError:
            pass

    killed = [None]     # what the command log held when SIGKILL was sent

    def killer():
        k = plan['kill']
        path, want = k['log'], int(k['lines'])
        while child.poll() is None:
            try:
                with open(path, 'rb') as f:
                    text = f.read()
            except OSError:
                text = b''
            if text.count(b'\n') >= want:
                killed[0] = text
                try:
                    os.killpg(child.pid, signal.SIGKILL)
                except ProcessLookupError:
                    pass
                return
            time.sleep(0.0005)

    ts = [threading.Thread(target=relay, args=(child.stdout, sys.stdout.buffer)),
          threading.Thread(target=relay, args=(child.stderr, sys.stderr.buffer))]
    for t in ts:
        t.start()
    if plan.get('kill'):
        threading.Thread(target=killer, daemon=True).start()
    rc = child.wait()
    for t in ts:
        t.join()
    # the kill counts only if it ended the process (a doer that had already exited is not a fault)
    was_killed = killed[0] is not None and rc == -signal.SIGKILL
    if was_killed:
        with open(plan['kill']['log'] + '.killed', 'wb') as f:
            f.write(killed[0])
    if proxy[0] is not None:
        try:
            proxy[0].close_both()
        except AttributeError:
            pass
        if plan['cut'].get('stats'):
            with open(plan['cut']['stats'], 'w') as f:
                json.dump({'frames': proxy[0].frames, 'did_cut': proxy[0].did_cut}, f)
    # do not run interpreter shutdown handlers on broken pipes
    os._exit(255 if (was_killed or rc < 0) else rc)


if __name__ == '__main__':
    main()
