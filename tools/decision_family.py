"""Decision table of the planner through the REAL boss, exhaustive over class representatives.

needs_delete / needs_copy (boss_sync.rs:604-670) decide from a pair (source entry, destination entry) at one path,
the flag "destination platform differentiates symlink kinds" and the same-time behaviour.  Both functions only look at
  * the kinds of the two entries,
  * for two files: the order of the two modification times (not the sizes),
  * for two links: equality of the two targets (variant Normalized / NotNormalized and text) and equality of the two kinds.
REPS is a set of entries that contains, for every such class, entries falling on every side of it - including near
misses a wrong comparison would confuse (times 1 ns, just under and exactly one second, and hours apart; equal time with
different sizes; texts that differ in one byte, in case, by a redundant separator, by variant only).  Every ordered pair of
representatives is planned by the real boss at one path below two folder roots, in both arrival orders (source listing
first / destination listing first - the two code paths process_src_entry / process_dest_entry), for both values of the
platform flag and for same-time = skip and overwrite; the mutating command sequence the real boss sends must equal the
extracted model's.  The oracle (independent of the model, from the property texts of C01/C04/C12/C13): a pair of identical
entries plans nothing; the plan does not depend on the arrival order; a link is re-created iff its text or (on a
differentiating destination) its kind changed; a file with a different time is copied, one with the same time is left alone
under `skip`."""
import json
import vlib, e2e, sync_e2e, scripted

T0 = sync_e2e.T0
S = 10 ** 9


def reps():
    r = []
    for name, t, data in (('f0', T0, b'same'), ('f0b', T0, b'other-size!'), ('f+1ns', T0 + 1, b'same'), ('f-1ns', T0 - 1, b'same'),
                          ('f+.9s', T0 + S - 1, b'same'), ('f+1s', T0 + S, b'same'), ('f-1s', T0 - S, b'same'),
                          ('f+2h', T0 + 7200 * S, b'same'), ('f-1d', T0 - 86400 * S, b'x'), ('fepoch', 0, b'same'), ('fempty', T0, b'')):
        r.append((name, {'k': 'file', 'data': data, 'mtime_ns': t}, None))
    r.append(('dir', {'k': 'dir'}, None))
    for name, text in (('la', b'a'), ('lb', b'b'), ('lA', b'A'), ('l./a', b'./a'), ('la/', b'a/'), ('l..a', b'../a'),
                       ('l/a', b'/a'), ('la\\b', b'a\\b'), ('la/b', b'a/b')):
        for k in ('u', 'f', 'd'):
            if k != 'u' and name not in ('la', 'lb', 'l/a'):
                continue
            r.append(('%s:%s' % (name, k), {'k': 'link', 'text': text}, k))
    return r


def family(run, binary, jbin, quick, tag='decision'):
    R = reps()
    reqs = []
    for (ns, s, ks) in R:
        for (nd, d, kd) in R:
            for diff in (0, 1):
                if diff == 1 and not (s['k'] == 'link' and d['k'] == 'link'):
                    continue          # the flag is only read for two links
                for same in ('S', 'A'):
                    if same == 'A' and not (s['k'] == 'file' and d['k'] == 'file'):
                        continue      # the same-time behaviour is only read for two files
                    sc = sync_e2e.Scenario()
                    sc.cfg = {'newer': 'A', 'older': 'A', 'same': same, 'entry': 'A', 'root': 'A'}
                    sc.outside = {'': {'k': 'dir'}}
                    sc.src = {'': {'k': 'dir'}, 'e': dict(s)}
                    sc.dest = {'': {'k': 'dir'}, 'e': dict(d)}
                    kS = {'e': ks} if ks else None
                    kD = {'e': kd} if kd else None
                    for sched in ('SD', 'DS'):
                        reqs.append((sc, kS, kD, diff, sched, ns, nd, same))
    # listings (entry texts) from the model's lister, one judge call
    lines = []
    for (sc, kS, kD, diff, sched, ns, nd, same) in reqs:
        lines.append('LIST ex=- S %s E' % ' '.join(scripted.virtual_tokens(sc.src, kS)))
        lines.append('LIST ex=- S %s E' % ' '.join(scripted.virtual_tokens(sc.dest, kD)))
    outs = vlib.judge(jbin, lines)

    def parse_list(o):
        res = []
        if o != '-':
            for item in o.split(','):
                hp, ent = item.split('=', 1)
                res.append((bytes.fromhex(hp).decode('latin1'), ent))
        return res
    full = []
    for i, rq in enumerate(reqs):
        full.append(rq + (parse_list(outs[2 * i]), parse_list(outs[2 * i + 1])))
    hl = [scripted.harness_line(sc, ls, ld, sched, diff=diff) for (sc, kS, kD, diff, sched, ns, nd, same, ls, ld) in full]
    ml = [scripted.model_line(sc, ls, ld, sched, diff=diff, kinds_s=kS, kinds_d=kD) for (sc, kS, kD, diff, sched, ns, nd, same, ls, ld) in full]
    impl = scripted.run_batch(binary, hl, timeout=900)
    model = [sync_e2e.parse_model(x) for x in vlib.judge(jbin, ml)]
    by_pair = {}
    for rq, im, mo in zip(full, impl, model):
        (sc, kS, kD, diff, sched, ns, nd, same, ls, ld) = rq
        run.count(tag + '-cases')
        mt = sync_e2e.canon_model_trace(mo['dest'])
        run.case((tag, ns, nd, diff, same, sched), len(im['dest']) > 0)
        run.traces_validated += 1
        rep = {'family': tag, 'src_entry': ns, 'dest_entry': nd, 'diff': diff, 'same': same, 'sched': sched,
               'scenario': sc.to_json(), 'impl_trace': im['dest'], 'model_trace': mt}
        if not (mo['errs'] or mo['panic']) and (im['dest'] != mt or im['ok'] != mo['ok']):
            run.broke('correspondence', tag, json.dumps(rep)[:2500])
        by_pair.setdefault((ns, nd, diff, same), []).append((sched, im))
        # oracle from the property texts
        s, d = sc.src['e'], sc.dest['e']
        tr = im['dest']
        dels = [c for c in tr if c[0] in ('RmF', 'RmD', 'RmL')]
        news = [c for c in tr if c[0] in ('Mk', 'Lnk', 'W')]
        bad = None
        if not im['ok']:
            bad = 'the sync failed'
        elif s['k'] != d['k']:
            if not dels or not news:
                bad = 'kinds differ but the destination entry is not replaced'
        elif s['k'] == 'dir':
            if tr:
                bad = 'two folders: something is planned'
        elif s['k'] == 'file':
            if dels:
                bad = 'two files: a deletion is planned'
            elif s['mtime_ns'] == d['mtime_ns'] and same == 'S' and news:
                bad = 'equal modification times under skip: the file is copied'
            elif (s['mtime_ns'] != d['mtime_ns'] or same == 'A') and not news:
                bad = 'different modification times (or same-time=overwrite): the file is not copied'
        else:
            text_differs = s['text'] != d['text'] and not same_path_text(s['text'], d['text'])
            kind_differs = diff == 1 and (kS or {}).get('e', 'u') != (kD or {}).get('e', 'u')
            if (text_differs or kind_differs) != bool(dels and news):
                if s['text'] == d['text'] or text_differs:      # texts equal up to redundant separators: either answer is within the property
                    bad = 'link re-created = %s although text differs = %s, kind differs on a differentiating destination = %s' % (bool(dels and news), text_differs, kind_differs)
        if bad:
            run.fail('decision table (%s vs %s, diff=%d, same=%s, arrival %s): %s' % (ns, nd, diff, same, sched, bad), rep)
    for key, items in by_pair.items():
        if len({json.dumps(im['dest']) for _, im in items}) > 1:
            run.fail('decision table: the plan for %s depends on the arrival order' % (key,),
                     {'family': tag, 'pair': key, 'traces': {s_: im['dest'] for s_, im in items}})
    return len(full)


def same_path_text(a, b):
    """equal as sequences of path components (redundant separators / '.' components dropped), relative texts only"""
    def comps(t):
        if t.startswith(b'/') or b'\\' in t:
            return None
        c = [x for x in t.split(b'/') if x != b'']
        return [x for i, x in enumerate(c) if not (x == b'.' and i > 0)]
    ca, cb = comps(a), comps(b)
    return ca is not None and ca == cb
