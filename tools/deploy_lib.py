"""Helpers of the C19 deployment leg: a fake `ssh` and a fake `scp` (python scripts written into a
temporary directory that is put first on PATH) which play one sandboxed remote host per scenario,
builders for boss binaries with an embedded-binaries table, and readers of what the fakes logged.

Simulated remote host H = directory <root>/hosts/H ; its /var/tmp is <root>/hosts/H/var/tmp, a
Windows host's %TEMP% is <root>/hosts/H/TEMP.  The host description (JSON file, path in
$DEPLOY_FAKE_CONF):
    {"hosts": {"H": {"os": "linux"|"windows", "uname": "<what `uname -a` prints>", "umask": 18}}}

What the fakes do - written from the documented behaviour of the real tools, *not* from what
rjrssync expects of them:
  ssh H "<command>"   runs the command with bash under the remote umask, with /var/tmp redirected
                      into the sandbox.  Nothing is special-cased for a launch: a missing program
                      gives bash's "No such file or directory" (127), a program without an x bit
                      gives bash's "Permission denied" (126).  The OS probe is answered from the
                      host description (a Linux host ignores the first line, which is a comment
                      for sh, and prints `Remote system is <uname -a>`; a Windows host prints
                      `Remote system is Windows AMD64`).  A Windows host cannot run anything here:
                      every launch answers cmd's "The system cannot find the path specified.".
  scp [-r] [-p] SRC H:DIR
                      OpenSSH semantics (scp.c sink(), same in sftp mode): a file that does not
                      exist yet is created with the *source's permission bits* masked by the remote
                      umask; a file that exists is rewritten in place and keeps its mode (unless
                      -p).  Directories likewise.  An executable that is being run cannot be
                      written (ETXTBSY -> scp fails), as on a real host.
Log ($DEPLOY_FAKE_LOG): one JSON object per line, see the `log(...)` calls.
"""
import os, sys, json, stat, shutil, hashlib, struct, subprocess, time, zlib

FAKE_SSH = r'''#!/usr/bin/env python3
import os, sys, json, time, fcntl, re, subprocess
ROOT = os.environ['DEPLOY_FAKE_ROOT']; LOG = os.environ['DEPLOY_FAKE_LOG']
CONF = json.load(open(os.environ['DEPLOY_FAKE_CONF']))

def log(**kw):
    kw['tool'] = 'ssh'; kw['t'] = time.time()
    with open(LOG, 'a') as f:
        fcntl.flock(f, fcntl.LOCK_EX)
        f.write(json.dumps(kw) + '\n')

def fstat(p):
    try:
        st = os.stat(p)
        return {'exists': True, 'mode': st.st_mode & 0o7777, 'size': st.st_size}
    except OSError:
        return {'exists': False}

target, command = sys.argv[1], sys.argv[2]
host = target.split('@')[-1]
h = CONF['hosts'][host]
hroot = os.path.join(ROOT, 'hosts', host)
windows = h.get('os') == 'windows'
os.umask(h.get('umask', 0o22))
local = command.replace('/var/tmp', hroot + '/var/tmp')
exe = hroot + '/var/tmp/rjrssync/rjrssync'

if 'Remote system is' in command:
    log(kind='ostest', host=host, target=target)
    sys.stdout.write('Remote system is Windows AMD64\n' if windows else 'Remote system is %s\n' % h['uname'])
    sys.exit(0)
if '--doer' in command:
    log(kind='launch', host=host, target=target, file=fstat(exe))
    if windows:
        sys.stderr.write('The system cannot find the path specified.\n'); sys.exit(1)
    os.execv('/bin/bash', ['bash', '-c', local])
if windows:
    log(kind='other', host=host, command=command[:300]); sys.exit(1)
if re.search(r'\bchmod\b', command):
    before = fstat(exe)
    p = subprocess.run(['/bin/bash', '-c', local])
    log(kind='chmod', host=host, target=target, command=command, before=before, after=fstat(exe), rc=p.returncode)
    sys.exit(p.returncode)
log(kind='other', host=host, command=command[:300])
os.execv('/bin/bash', ['bash', '-c', local])
'''

FAKE_SCP = r'''#!/usr/bin/env python3
import os, sys, json, time, fcntl, hashlib, errno
ROOT = os.environ['DEPLOY_FAKE_ROOT']; LOG = os.environ['DEPLOY_FAKE_LOG']
CONF = json.load(open(os.environ['DEPLOY_FAKE_CONF']))
flags = [a for a in sys.argv[1:] if a.startswith('-')]
pos = [a for a in sys.argv[1:] if not a.startswith('-')]
src, dst = pos[0], pos[1]
target, rpath = dst.split(':', 1)
host = target.split('@')[-1]
h = CONF['hosts'][host]
hroot = os.path.join(ROOT, 'hosts', host)
windows = h.get('os') == 'windows'
umask = h.get('umask', 0o22)
os.umask(umask)
preserve = any('p' in f for f in flags)
recursive = any('r' in f for f in flags)
rdir = os.path.join(hroot, rpath.replace('%', '')) if windows else hroot + rpath
files = []

def put_file(s, d):
    st = os.stat(s)
    data = open(s, 'rb').read()
    rec = {'rel': os.path.relpath(d, rdir), 'src_mode': st.st_mode & 0o7777, 'size': len(data),
           'sha': hashlib.sha256(data).hexdigest(), 'existed': os.path.lexists(d)}
    if rec['existed']:
        with open(d, 'r+b') as f:            # rewritten in place, the mode stays
            f.truncate(0); f.write(data)
        if preserve:
            os.chmod(d, st.st_mode & 0o7777)
    else:
        fd = os.open(d, os.O_WRONLY | os.O_CREAT | os.O_EXCL, st.st_mode & 0o777)    # the process umask applies
        with os.fdopen(fd, 'wb') as f:
            f.write(data)
        if preserve:
            os.chmod(d, st.st_mode & 0o7777)
    rec['dst_mode'] = os.stat(d).st_mode & 0o7777
    files.append(rec)

def put_dir(s, d):
    if not os.path.isdir(d):
        os.mkdir(d, os.stat(s).st_mode & 0o777)
    for n in sorted(os.listdir(s)):
        p = os.path.join(s, n)
        if os.path.isdir(p):
            put_dir(p, os.path.join(d, n))
        else:
            put_file(p, os.path.join(d, n))

rc, err = 0, ''
try:
    if not os.path.isdir(rdir):
        raise OSError(errno.ENOENT, 'No such file or directory', rpath)
    name = os.path.basename(src.rstrip('/'))
    if os.path.isdir(src):
        if not recursive:
            raise OSError(errno.EISDIR, 'not a regular file', src)
        put_dir(src, os.path.join(rdir, name))
    else:
        put_file(src, os.path.join(rdir, name))
except OSError as e:
    rc, err = 1, 'scp: %s: %s' % (e.filename, e.strerror)
    sys.stderr.write(err + '\n')
with open(LOG, 'a') as f:
    fcntl.flock(f, fcntl.LOCK_EX)
    f.write(json.dumps({'tool': 'scp', 'kind': 'scp', 'host': host, 'target': target, 'rpath': rpath, 'flags': flags,
                        'files': files, 'rc': rc, 'err': err, 't': time.time()}) + '\n')
sys.exit(rc)
'''

# a doer of another version: announces itself on both streams, then waits for its stdin to close
OTHER_VERSION_DOER = ('#!/bin/sh\n{ echo "rjrssync doer v%(version)s"; echo "rjrssync doer v%(version)s" >&2; '
                      'while IFS= read -r l; do :; done; exit 0; }\n')       # one compound command: parsed before it runs

UNAMES = {
    'x86_64': 'Linux fakehost 5.15.0-91-generic #101-Ubuntu SMP Tue Nov 14 13:30:08 UTC 2023 x86_64 x86_64 x86_64 GNU/Linux',
    'aarch64': 'Linux fakepi 6.1.21-v8+ #1642 SMP PREEMPT Mon Apr  3 17:24:16 BST 2023 aarch64 GNU/Linux',
    'x86_64-alpine': 'Linux fakealp 6.6.8-0-lts #1-Alpine SMP PREEMPT_DYNAMIC x86_64 Linux',
    'aarch64-alpine': 'Linux fakealp 6.6.8-0-lts #1-Alpine SMP PREEMPT_DYNAMIC aarch64 Linux',
}
# the triples the code accepts for a remote of that kind, in its order of preference (boss_deploy.rs:304-312)
COMPATIBLE = {
    'x86_64': ['x86_64-unknown-linux-musl', 'x86_64-unknown-linux-gnu'],
    'aarch64': ['aarch64-unknown-linux-musl', 'aarch64-unknown-linux-gnu'],
    'windows': ['x86_64-pc-windows-msvc', 'x86_64-pc-windows-gnu'],
}


def install_tools(base):
    d = os.path.join(base, 'fakebin')
    os.makedirs(d, exist_ok=True)
    for name, text in (('ssh', FAKE_SSH), ('scp', FAKE_SCP)):
        p = os.path.join(d, name)
        with open(p, 'w') as f:
            f.write(text)
        os.chmod(p, 0o755)
    return d


def host_root(root, host='localhost'):
    return os.path.join(root, 'hosts', host)


def remote_bin_path(root, host='localhost', windows=False):
    if windows:
        return os.path.join(host_root(root, host), 'TEMP', 'rjrssync', 'rjrssync.exe')
    return os.path.join(host_root(root, host), 'var', 'tmp', 'rjrssync', 'rjrssync')


def make_host(root, host, kind, uname_key, umask, state, same_binary=None):
    """Creates the sandbox of one remote host and the description entry for the fakes.
    state: 'absent' (no rjrssync folder) | 'empty-dir' (folder, no file) | 'other-version' (a program
    announcing another version, mode 755) | 'same' (copy of same_binary, 755) | 'same-noexec' (copy, 644:
    an earlier deployment that was interrupted before its chmod)."""
    windows = kind == 'windows'
    os.makedirs(os.path.join(host_root(root, host), 'TEMP' if windows else 'var/tmp'))
    p = remote_bin_path(root, host, windows)
    if state != 'absent':
        os.makedirs(os.path.dirname(p))
    if state == 'other-version':
        with open(p, 'w') as f:
            f.write(OTHER_VERSION_DOER % {'version': '0.0.1-other'})
        os.chmod(p, 0o755)
    elif state in ('same', 'same-noexec'):
        shutil.copyfile(same_binary, p)          # a copy, never a hard link: scp rewrites it in place
        os.chmod(p, 0o755 if state == 'same' else 0o644)
    elif state not in ('absent', 'empty-dir'):
        raise ValueError(state)
    return {'os': 'windows' if windows else 'linux', 'uname': UNAMES.get(uname_key, uname_key), 'umask': umask}


def fake_env(root, fakebin, hosts, tag='x'):
    conf = os.path.join(root, 'conf_%s.json' % tag)
    with open(conf, 'w') as f:
        json.dump({'hosts': hosts}, f)
    logf = os.path.join(root, 'log_%s.jsonl' % tag)
    if os.path.exists(logf):
        os.unlink(logf)
    return {'PATH': fakebin + os.pathsep + os.environ.get('PATH', ''), 'DEPLOY_FAKE_ROOT': root,
            'DEPLOY_FAKE_LOG': logf, 'DEPLOY_FAKE_CONF': conf}, logf


def read_log(path):
    out = []
    try:
        for l in open(path):
            try:
                out.append(json.loads(l))
            except ValueError:
                pass
    except OSError:
        pass
    return out


# ------------------------------------------------------------------------------------------------
# the embedded-binaries table (bincode of embedded_binaries.rs::EmbeddedBinaries, written from the struct
# definition: bool, Vec<{String, bytes}>, u64 little-endian lengths) and its python reading
def deflate_raw(data, level=1):
    c = zlib.compressobj(level, zlib.DEFLATED, -15)       # raw deflate = flate2 DeflateEncoder
    return c.compress(data) + c.flush()


def inflate_raw(data):
    return zlib.decompress(data, -15)


def table_bytes(entries, compressed=False):
    """entries: [(triple bytes, *uncompressed* binary bytes)]"""
    b = bytes([1 if compressed else 0]) + struct.pack('<Q', len(entries))
    for triple, data in entries:
        d = deflate_raw(data) if compressed else data
        b += struct.pack('<Q', len(triple)) + triple + struct.pack('<Q', len(d)) + d
    return b


def table_parse(b):
    """-> (compressed, [(triple, stored bytes)]) or None"""
    try:
        comp = b[0]
        if comp not in (0, 1):
            return None
        n, = struct.unpack_from('<Q', b, 1)
        off, out = 9, []
        for _ in range(n):
            l, = struct.unpack_from('<Q', b, off); off += 8
            t = b[off:off + l]; off += l
            l, = struct.unpack_from('<Q', b, off); off += 8
            d = b[off:off + l]
            if len(d) != l:
                return None
            off += l
            out.append((t, d))
        return bool(comp), out
    except (struct.error, IndexError):
        return None


def sha(b):
    return hashlib.sha256(b).hexdigest()


def sha_file(p):
    try:
        return sha(open(p, 'rb').read())
    except OSError:
        return None


def mode_of(p):
    try:
        return os.stat(p).st_mode & 0o7777
    except OSError:
        return None


# ------------------------------------------------------------------------------------------------
# the deployment steps as a trace of file modes, recovered from the fakes' log.  Compared with the
# extracted model (Model/Deploy.v) line by line.
def observed_trace(log, windows):
    """log: the records of one host.  -> dict(tokens=[(step, mode of the remote program file after it)],
    staged_mode, existed, launches_before) of the *deployment* part of the log (from the OS probe on);
    None when no OS probe was made.  Steps: scp | chmod | launch | ostest | other."""
    i0 = next((i for i, d in enumerate(log) if d.get('kind') == 'ostest'), None)
    if i0 is None:
        return None
    name = 'rjrssync/rjrssync' + ('.exe' if windows else '')
    r = {'tokens': [], 'staged_mode': None, 'existed': None,
         'launches_before': sum(1 for d in log[:i0] if d.get('kind') == 'launch')}
    for d in log[i0 + 1:]:
        k = d.get('kind')
        if k == 'scp':
            mode = None
            for f in d.get('files', []):
                if f['rel'] == name:
                    r['staged_mode'], r['existed'], mode = f['src_mode'], f['existed'], f['dst_mode']
            r['tokens'].append(('scp', mode))
        elif k == 'chmod':
            r['tokens'].append(('chmod', d['after'].get('mode')))
        elif k == 'launch':
            r['tokens'].append(('launch', d['file'].get('mode') if d['file'].get('exists') else None))
        else:
            r['tokens'].append((k or 'other', None))
    return r
