"""doer-ops: ARBITRARY command sequences against the real local doer thread, command by command, side by side with the
doer model (Model/Fs.v doer_exec through Model/DoerOps.v, extracted; judge request OPS).

The boss only ever sends the sequences its planner produces; the doer's handlers have many more cases (creating over an existing
entry of each kind, deleting the wrong kind, a missing or non-folder parent, a path through a symlink to a folder / a file /
nothing, a continuation chunk for another path, everything at or below a failed deletion).  Here every command kind is issued at
every kind of place.  Compared per command: success / the error class (EEXIST, ENOENT, ENOTDIR, EISDIR, ENOTEMPTY, refused, ...);
after the sequence: the tree below the root (kinds, bytes, link texts; modification times where the model says they were SET).
A command the model routes through a symlink (`Through` event: it would act OUTSIDE the root) ends the comparison of that sequence
- what happens behind the link is not in the model; the real tree is checked up to there.
Property oracle (C07: every doer-side failure becomes an Error response; C02/C12: nothing is changed through a link): a command
that the real doer answers with success must have had its effect on the real tree, and a command it answers with an Error must
have left the entry it names as it was."""
import os, re, json, shutil, tempfile
import vlib, e2e
from sync_e2e import hexs

ERRNO = {17: 'EEXIST', 2: 'ENOENT', 20: 'ENOTDIR', 21: 'EISDIR', 39: 'ENOTEMPTY', 40: 'ENOENT'}
T0 = 1_500_000_000_000_000_000


def err_class(text):
    if 'earlier deletion' in text or 'Not processing' in text:
        return 'EREFUSED'
    if 'earlier part of the file' in text or 'Refusing' in text or 'refus' in text.lower():
        return 'EREFUSED'
    if 'Unexpected continued' in text or 'nexpected' in text:
        return 'ECONT'
    m = re.search(r'os error (\d+)', text)
    if m:
        return ERRNO.get(int(m.group(1)), 'E%s' % m.group(1))
    return 'EOTHER'


def base_tree(rng):
    t = {'': {'k': 'dir'}, 'f': {'k': 'file', 'data': b'ffff', 'mtime_ns': T0}, 'd': {'k': 'dir'}, 'd/x': {'k': 'file', 'data': b'x', 'mtime_ns': T0 + 1},
         'e': {'k': 'dir'}, 'lf': {'k': 'link', 'text': b'f'}, 'ld': {'k': 'link', 'text': b'd'}, 'lx': {'k': 'link', 'text': b'nowhere'},
         'd/sub': {'k': 'dir'}}
    for k in rng.sample(['f', 'd/x', 'e', 'lf', 'ld', 'lx', 'd/sub'], rng.randrange(0, 3)):
        t.pop(k, None)
    if 'e' in t and rng.random() < 0.5:
        # names that file managers and tools drop into folders: ordinary entries to a sync
        t['e/' + rng.choice(['.DS_Store', 'Thumbs.db', 'desktop.ini', '.gitkeep', '.directory', '.nfs0001', 'lost+found'])] = {'k': 'file', 'data': b'litter', 'mtime_ns': T0 + 3}
    return t


PLACES = ['f', 'd', 'e', 'lf', 'ld', 'lx', 'new', 'd/x', 'd/new', 'd/sub', 'f/below', 'lf/below', 'ld/below', 'lx/below', 'missing/below', 'd/sub/deep', 'e/n']


def gen_cmds(rng, n):
    cmds = []
    stale = set()          # links whose target was created / deleted earlier in the sequence: the model's link kind is the one at the start
    for _ in range(n):
        p = rng.choice([x for x in PLACES if not any(x == l or x.startswith(l + '/') for l in stale)])
        if p in ('f', 'd'):
            stale.add('l' + p)
        hp = hexs(p)
        r = rng.random()
        if r < 0.2:
            cmds.append('Mk:%s' % hp)
        elif r < 0.35:
            cmds.append('RmF:%s' % hp)
        elif r < 0.5:
            cmds.append('RmD:%s' % hp)
        elif r < 0.62:
            cmds.append('RmL:%s:%s' % (hp, rng.choice('fdu')))
        elif r < 0.75:
            # the kind sent with the command is what the text resolves to (the model keeps it as the link's resolution): nothing, or the
            # folder `outside` next to the root
            if rng.random() < 0.5:
                cmds.append('Lnk:%s:u:%s%s' % (hp, rng.choice('NU'), rng.choice([b'nowhere', b'a/b/c', b'/nonexistent-abs']).hex()))
            else:
                cmds.append('Lnk:%s:d:%s%s' % (hp, rng.choice('NU'), (b'../' * (p.count('/') + 1) + b'outside').hex()))
        else:
            data = rng.choice([b'', b'A', b'hello world', b'z' * 300])
            more = rng.random() < 0.35
            cmds.append('W:%s:%s:%s:%d' % (hp, data.hex() or '-', '-' if more else str(T0 + rng.randrange(1, 99)), 1 if more else 0))
            if more and rng.random() < 0.8:
                q = p if rng.random() < 0.8 else rng.choice([x for x in PLACES if not any(x == l or x.startswith(l + '/') for l in stale)])
                if q in ('f', 'd'):
                    stale.add('l' + q)
                cmds.append('W:%s:%s:%s:0' % (hexs(q), b'TAIL'.hex(), str(T0 + 7)))
    return cmds


def model_tokens(tree):
    toks = []
    for rel in sorted(tree, key=lambda x: (x.count('/') if x else -1, x)):
        n = tree[rel]
        hp = hexs(rel)
        if n['k'] == 'dir':
            toks += ['D', hp]
        elif n['k'] == 'file':
            toks += ['F', hp, str(n['mtime_ns']), hexs(n['data'])]
        else:
            kind = 'u'
            toks += ['L', hp, hexs(n['text']), kind]
    return toks


def link_kinds(tree):
    """what a link resolves to inside the tree (the model's NLink kind): f / d / u"""
    out = {}
    for rel, n in tree.items():
        if n['k'] == 'link':
            tgt = n['text'].decode()
            base = os.path.dirname(rel)
            q = os.path.normpath(os.path.join(base, tgt)) if not tgt.startswith('/') else None
            k = tree.get(q, {}).get('k') if q is not None and not q.startswith('..') else None
            out[rel] = {'dir': 'd', 'file': 'f'}.get(k, 'u')
    return out


def parse_model(line):
    kv = dict(t.split('=', 1) for t in line.split() if '=' in t)
    res = [] if kv['res'] == '-' else kv['res'].split(',')
    fs = {}
    if kv['fs'] != '-':
        for item in kv['fs'].split(';'):
            f = item.split(':')
            rel = '' if f[1] == '-' else bytes.fromhex(f[1]).decode('latin1')
            if f[0] == 'D':
                fs[rel] = ('dir',)
            elif f[0] == 'F':
                fs[rel] = ('file', bytes.fromhex(f[4]) if f[4] != '-' else b'', int(f[3]) if f[2] == 'set' else None)
            else:
                fs[rel] = ('link', bytes.fromhex(f[2]) if f[2] != '-' else b'')
    ev = [] if kv['events'] == '-' else kv['events'].split(',')
    return res, fs, ev


def real_tree(root):
    snap = e2e.snapshot(root, with_hash=False)
    out = {}
    for rel, v in snap.items():
        if v[0] == 'dir':
            out[rel] = ('dir',)
        elif v[0] == 'file':
            with open(os.path.join(root, rel) if rel else root, 'rb') as f:
                out[rel] = ('file', f.read(), v[3])
        elif v[0] == 'link':
            out[rel] = ('link', v[1])
        else:
            out[rel] = ('other',)
    return out


def effect_missing(binary, base, tree, prefix):
    """the real doer answered the LAST command of `prefix` with success: does the entry it names show the effect?  -> None or a description"""
    d = tempfile.mkdtemp(prefix='eff_', dir=base)
    try:
        root = os.path.join(d, 'root')
        os.makedirs(os.path.join(d, 'outside'))
        e2e.build_tree(root, tree)
        out = vlib.harness(binary, 'doerops', ['%s %s' % (root.encode().hex(), ' '.join(prefix))], timeout=120)[0].split()
        if len(out) != len(prefix) or out[-1] != 'ok':
            return None
        f = prefix[-1].split(':')
        rel = bytes.fromhex(f[1]).decode('latin1') if f[1] != '-' else ''
        full = os.path.join(root, rel) if rel else root
        if any(os.path.islink(os.path.join(root, *rel.split('/')[:i])) for i in range(1, rel.count('/') + 1)):
            return None                      # below a link: not judged here
        if f[0] == 'Mk' and not (os.path.isdir(full) and not os.path.islink(full)):
            return 'CreateFolder %r was answered with success but there is no folder there (%s)' % (rel, 'a symlink' if os.path.islink(full) else 'a file' if os.path.exists(full) else 'nothing')
        if f[0] == 'RmD' and not os.path.lexists(full):
            # the folder is gone: was it empty when the command arrived?  (a DeleteFolder must never take contents with it - that is what
            # keeps entries the filters exclude, which the boss does not know about, where they are)
            d2 = tempfile.mkdtemp(prefix='eff2_', dir=base)
            try:
                root2 = os.path.join(d2, 'root')
                os.makedirs(os.path.join(d2, 'outside'))
                e2e.build_tree(root2, tree)
                if len(prefix) > 1:
                    vlib.harness(binary, 'doerops', ['%s %s' % (root2.encode().hex(), ' '.join(prefix[:-1]))], timeout=120)
                full2 = os.path.join(root2, rel) if rel else root2
                if os.path.isdir(full2) and not os.path.islink(full2) and os.listdir(full2):
                    return 'DeleteFolder %r removed a folder that still held %s' % (rel, sorted(os.listdir(full2))[:3])
            finally:
                shutil.rmtree(d2, ignore_errors=True)
        if f[0] in ('RmF', 'RmD', 'RmL') and os.path.lexists(full):
            return '%s %r was answered with success but the entry is still there' % ({'RmF': 'DeleteFile', 'RmD': 'DeleteFolder', 'RmL': 'DeleteSymlink'}[f[0]], rel)
        if f[0] == 'Lnk' and not os.path.islink(full):
            return 'CreateSymlink %r was answered with success but there is no symlink there' % rel
        if f[0] == 'W' and not os.path.islink(full) and not os.path.isfile(full):
            return 'CreateOrUpdateFile %r was answered with success but there is no file there' % rel
        return None
    finally:
        shutil.rmtree(d, ignore_errors=True)


def family(run, binary, jbin, n_seq=120, seq_len=7, tag='doerops'):
    rng = run.rng
    base = tempfile.mkdtemp(prefix='doerops_', dir=vlib.CACHE)
    try:
        cases = []
        for i in range(n_seq):
            tree = base_tree(rng)
            cmds = gen_cmds(rng, rng.randrange(2, seq_len + 1))
            root = os.path.join(base, 'r%d' % i, 'root')
            os.makedirs(os.path.dirname(root))
            os.makedirs(os.path.join(base, 'r%d' % i, 'outside'))
            e2e.build_tree(root, tree)
            cases.append((tree, cmds, root))
        # the model: link kinds as they resolve inside the tree
        mlines = []
        for tree, cmds, root in cases:
            kinds = link_kinds(tree)
            toks = []
            for rel in sorted(tree, key=lambda x: (x.count('/') if x else -1, x)):
                n = tree[rel]
                hp = hexs(rel)
                if n['k'] == 'dir':
                    toks += ['D', hp]
                elif n['k'] == 'file':
                    toks += ['F', hp, str(n['mtime_ns']), hexs(n['data'])]
                else:
                    toks += ['L', hp, hexs(n['text']), kinds[rel]]
            mlines.append('OPS S %s E C %s E' % (' '.join(toks), ' '.join(cmds)))
        model = [parse_model(x) for x in vlib.judge(jbin, mlines)]
        impl = vlib.harness(binary, 'doerops', ['%s %s' % (root.encode().hex(), ' '.join(cmds)) for _, cmds, root in cases], timeout=600)
        for (tree, cmds, root), (mres, mfs, mev), il in zip(cases, model, impl):
            ires = il.split()
            run.count(tag + ':sequences')
            run.case((tag, tuple(sorted(tree)), tuple(cmds)), True)
            run.traces_validated += 1
            rep = {'driver': 'unit-doerops', 'tree': sorted(tree), 'cmds': cmds, 'impl': ires, 'model': mres, 'model_events': mev}
            if len(ires) != len(cmds):
                run.broke('correspondence', tag, 'the real doer answered %d of %d commands: %s' % (len(ires), len(cmds), json.dumps(rep)[:800]))
                continue
            # where the model goes through a link the comparison of this sequence ends (what lies behind the link is outside the model)
            through = None
            if mev:
                # find the first command after which the model's run has an event: re-ask the model prefix by prefix only when needed
                pre = vlib.judge(jbin, [mlines[cases.index((tree, cmds, root))].rsplit(' C ', 1)[0] + ' C ' + ' '.join(cmds[:k]) + ' E' for k in range(1, len(cmds) + 1)])
                for k, pl in enumerate(pre):
                    if parse_model(pl)[2]:
                        through = k
                        break
            upto = len(cmds) if through is None else through
            bad = None
            for k in range(upto):
                ic = 'ok' if ires[k] == 'ok' else (err_class(bytes.fromhex(ires[k][4:]).decode('utf-8', 'replace')) if ires[k].startswith('err=') and ires[k] != 'err=-' else ires[k])
                mc = mres[k]
                run.count(tag + ':cmd:' + cmds[k].split(':')[0] + ':' + ('ok' if ic == 'ok' else 'err'))
                if (ic == 'ok') != (mc == 'ok'):
                    bad = 'command %d (%s): the real doer answered %s, the model %s' % (k, cmds[k][:60], ic, mc)
                    break
                if ic != mc and ic not in ('EOTHER',) and mc not in ('EWRITE', 'EINJ', 'EKIND'):
                    # both failed, with different classes: a correspondence detail, not a property failure
                    run.count(tag + ':error-class-differs:%s/%s' % (ic, mc))
            if bad:
                # which one is right?  the property oracle on the real tree decides whether this is a violation or a model mismatch:
                # re-run the prefix up to the disagreeing command on a fresh copy of the tree and look at the entry the command names
                viol = effect_missing(binary, base, tree, cmds[:k + 1]) if ic == 'ok' else None
                if viol:
                    run.fail('doer-ops (C07: every doer-side failure becomes an Error response): %s [%s]' % (viol, bad), rep)
                else:
                    run.broke('correspondence', tag, bad + ' ' + json.dumps(rep)[:900])
                continue
            if through is None:
                rt = real_tree(root)
                diffs = []
                for rel in sorted(set(rt) | set(mfs)):
                    a, b = rt.get(rel), mfs.get(rel)
                    if a is None or b is None or a[0] != b[0]:
                        diffs.append('%r: real %s, model %s' % (rel, a and a[0], b and b[0]))
                    elif a[0] == 'file' and (a[1] != b[1] or (b[2] is not None and a[2] != b[2])):
                        diffs.append('%r: file bytes/time real (%d bytes, %s) model (%d bytes, %s)' % (rel, len(a[1]), a[2], len(b[1]), b[2]))
                    elif a[0] == 'link' and a[1] != b[1]:
                        diffs.append('%r: link text real %r model %r' % (rel, a[1], b[1]))
                if diffs:
                    # a command that answered ok without its effect, or an error that changed something: the property oracle
                    run.fail('doer-ops: after %s the real tree differs from what the answers (all equal to the model\'s) imply: %s' % (
                        [c[:40] for c in cmds], diffs[:4]), rep)
    finally:
        shutil.rmtree(base, ignore_errors=True)
