"""End-to-end sandbox helpers: build trees, snapshot them without following anything, run the real
CLI (optionally through a fake ssh so that src and/or dest are *remote* doers on localhost),
parse the summary output."""
import os, sys, stat, hashlib, subprocess, re, shutil, random, json, time

# ------------------------------------------------------------------------------------------------
# trees:  {relative path (str, '/' separated, '' = the root itself): node}
#   node = {'k': 'file', 'data': bytes, 'mtime_ns': int} | {'k': 'file', 'len': n, 'fill': seed, 'mtime_ns': int}
#        | {'k': 'dir'} | {'k': 'link', 'text': bytes} | {'k': 'fifo'}


def file_bytes(node):
    if 'data' in node:
        return node['data']
    n, seed = node['len'], node.get('fill', 0)
    if n == 0:
        return b''
    block = hashlib.sha256(b'fill%d' % seed).digest() * 128       # 4096 bytes
    reps = n // len(block) + 1
    return (block * reps)[:n]


def build_tree(root, tree):
    """Create `tree` at path `root` (root must not exist; its parent must)."""
    root_b = os.fsencode(root)
    items = sorted(tree.items(), key=lambda kv: (kv[0].count('/') if kv[0] else -1, kv[0]))
    for rel, node in items:
        p = root_b if rel == '' else os.path.join(root_b, os.fsencode(rel))
        k = node['k']
        if k == 'dir':
            os.mkdir(p)
        elif k == 'file':
            with open(p, 'wb') as f:
                f.write(file_bytes(node))
        elif k == 'link':
            os.symlink(node['text'], p)
        elif k == 'fifo':
            os.mkfifo(p)
        else:
            raise ValueError(k)
    # times last (creating children changes directory mtimes; only file mtimes matter)
    for rel, node in items:
        if node['k'] == 'file' and 'mtime_ns' in node:
            p = root_b if rel == '' else os.path.join(root_b, os.fsencode(rel))
            os.utime(p, ns=(node['mtime_ns'], node['mtime_ns']))


def snapshot(root, with_hash=True):
    """{rel: ('file', size, sha256hex, mtime_ns) | ('dir',) | ('link', text bytes) | ('other', mode)};
    rel '' is the root itself; {} if the root does not exist. Never follows a symlink."""
    out = {}
    root_b = os.fsencode(root)

    def visit(p, rel):
        try:
            st = os.lstat(p)
        except FileNotFoundError:
            return
        if stat.S_ISLNK(st.st_mode):
            out[rel] = ('link', os.readlink(p))
        elif stat.S_ISDIR(st.st_mode):
            out[rel] = ('dir',)
            try:
                names = sorted(os.listdir(p))
            except PermissionError:
                names = []
            for n in names:
                visit(os.path.join(p, n), (rel + '/' if rel else '') + os.fsdecode(n))
        elif stat.S_ISREG(st.st_mode):
            h = ''
            if with_hash:
                hh = hashlib.sha256()
                with open(p, 'rb') as f:
                    for blk in iter(lambda: f.read(1 << 20), b''):
                        hh.update(blk)
                h = hh.hexdigest()
            out[rel] = ('file', st.st_size, h, st.st_mtime_ns)
        else:
            out[rel] = ('other', stat.S_IFMT(st.st_mode))
    visit(root_b.rstrip(b'/') if len(root_b) > 1 else root_b, '')
    return out


def tree_to_snapshot(tree):
    """What snapshot() returns right after build_tree(tree)."""
    out = {}
    for rel, node in tree.items():
        if node['k'] == 'dir':
            out[rel] = ('dir',)
        elif node['k'] == 'link':
            out[rel] = ('link', node['text'])
        elif node['k'] == 'file':
            b = file_bytes(node)
            out[rel] = ('file', len(b), hashlib.sha256(b).hexdigest(), node.get('mtime_ns'))
        else:
            out[rel] = ('other', 0)
    return out


def snap_json(s):
    return {k: [x.decode('latin1') if isinstance(x, bytes) else x for x in v] for k, v in s.items()}


# ------------------------------------------------------------------------------------------------
# fake ssh
FAKE_SSH = r'''#!/bin/sh
# fake ssh: $1 = [user@]host, $2 = remote command.  Runs the command locally with the deployed
# binary path replaced by the binary under test.  Logs what it was asked to do.
[ -n "$FAKE_SSH_LOG" ] && printf 'ssh %s\n' "$1" >> "$FAKE_SSH_LOG"
cmd=$(printf '%s' "$2" | sed "s#/var/tmp/rjrssync/rjrssync#${FAKE_SSH_BINARY}#g")
exec sh -c "$cmd"
'''


def fake_ssh_dir(base, script=FAKE_SSH):
    d = os.path.join(base, 'fakebin')
    os.makedirs(d, exist_ok=True)
    p = os.path.join(d, 'ssh')
    with open(p, 'w') as f:
        f.write(script)
    os.chmod(p, 0o755)
    return d


# ------------------------------------------------------------------------------------------------
def run_cli(binary, args, env=None, timeout=60, cwd=None, ulimit_f=None, fake_ssh=None, stdin=None, prefix=None):
    """Runs the CLI. Returns dict(exit, stdout, stderr, timed_out, wall_s). exit is negative for a signal."""
    e = dict(os.environ)
    e.pop('RUST_LOG', None)
    e['NO_COLOR'] = '1'
    if env:
        e.update(env)
    if fake_ssh:
        e['PATH'] = fake_ssh + os.pathsep + e.get('PATH', '')
        e['FAKE_SSH_BINARY'] = binary
    cmd = list(prefix or []) + [binary] + list(args)
    if ulimit_f is not None:
        # EFBIG instead of SIGXFSZ
        sh = "trap '' XFSZ; ulimit -f %d; exec \"$@\"" % ulimit_f
        cmd = ['sh', '-c', sh, 'sh'] + cmd
    t0 = time.time()
    p = subprocess.Popen(cmd, stdout=subprocess.PIPE, stderr=subprocess.PIPE, stdin=subprocess.DEVNULL if stdin is None else subprocess.PIPE,
                         env=e, cwd=cwd, start_new_session=True)
    timed_out = False
    try:
        out, err = p.communicate(input=stdin, timeout=timeout)
    except subprocess.TimeoutExpired:
        timed_out = True
        try:
            os.killpg(p.pid, 9)
        except ProcessLookupError:
            pass
        out, err = p.communicate()
    return {'exit': p.returncode, 'stdout': out.decode('utf-8', 'replace'), 'stderr': err.decode('utf-8', 'replace'),
            'timed_out': timed_out, 'wall_s': time.time() - t0}


ANSI = re.compile(r'\x1b\[[0-9;]*m')
NUM = r'([\d,]+)'


def parse_output(text):
    """Summary counters and 'Would ...' lines from stdout+stderr text."""
    t = ANSI.sub('', text)
    r = {'nothing': 'Nothing to do!' in t, 'deleted': None, 'copied': None, 'would': [], 'errors': [], 'prompts': []}
    m = re.search(r'(?:Deleted|Would delete) %s file\(s\) totalling (.*?), %s folder\(s\) and %s symlink\(s\)' % (NUM, NUM, NUM), t)
    if m:
        r['deleted'] = {'files': int(m.group(1).replace(',', '')), 'bytes_h': m.group(2), 'folders': int(m.group(3).replace(',', '')), 'symlinks': int(m.group(4).replace(',', ''))}
    m = re.search(r'(?:Copied|Would copy) %s file\(s\) totalling (.*?), (?:created|would create) %s folder\(s\) and (?:copied|would copy) %s symlink\(s\)' % (NUM, NUM, NUM), t)
    if m:
        r['copied'] = {'files': int(m.group(1).replace(',', '')), 'bytes_h': m.group(2), 'folders': int(m.group(3).replace(',', '')), 'symlinks': int(m.group(4).replace(',', ''))}
    for line in t.splitlines():
        mm = re.match(r"Would (delete|copy|create) (.*)$", line.strip())
        if mm and 'file(s)' not in line:
            r['would'].append((mm.group(1), mm.group(2)))
        if line.startswith('ERROR') or 'Sync error' in line:
            r['errors'].append(line.strip())
        if 'What do?' in line:
            r['prompts'].append(line.strip())
    return r


DOCUMENTED_EXITS = {0, 2, 10, 11, 12, 18, 19}
