"""Helpers of the C19 check: synthetic ELF64 / PE generators over section-table layouts, an
independent python reading of both formats (used by the property oracle - it never looks at the
Coq model), payload generator shared with the Rust harness and the OCaml driver, runners."""
import os, struct, subprocess, hashlib, resource

NAME = b'.rjembed'
MAX_FA = 1 << 20          # generated FileAlignment values stay below this (memory: vec![0; file_alignment])


def gen_payload(n, seed):
    return bytes(((i * 7 + seed * 13 + (i >> 8) * 31 + (i >> 16) * 17) & 0xFF) for i in range(n))


def hexs(b):
    return b.hex() if b else '-'


def rnd_bytes(rng, n, nonzero=False):
    if nonzero:
        return bytes(rng.randrange(1, 256) for _ in range(n))
    return bytes(rng.randrange(256) for _ in range(n))


# ------------------------------------------------------------------------------------------------
# ELF64
class ElfLayout:
    """sections: list of dict(name, data, extra_pad); names_pos: index of the names section in the table;
    the file holds the section contents in table order, the section header table at the end."""

    def __init__(self, names, names_pos, entsize=0x40, phdr_gap=56, pads=None, datas=None, null_first=True,
                 unterminated=False, out_of_order=False):
        self.names, self.names_pos, self.entsize, self.phdr_gap = list(names), names_pos, entsize, phdr_gap
        self.pads, self.datas, self.null_first = pads, datas, null_first
        self.unterminated, self.out_of_order = unterminated, out_of_order

    def describe(self):
        return {'fmt': 'elf', 'names': [n.decode('latin1') for n in self.names], 'names_pos': self.names_pos,
                'entsize': self.entsize, 'phdr_gap': self.phdr_gap, 'out_of_order': self.out_of_order}

    def build(self, rng):
        """returns (bytes, info) info: dict(sections=[(name, off, size)], names_idx, shoff)"""
        # section list in table order: other sections + the names section at names_pos
        secs = []
        others = list(self.names)
        strtab = b'\0'
        name_off = {}
        allnames = others + [b'.shstrtab']
        for n in allnames:
            name_off[n] = len(strtab)
            strtab += n + b'\0'
        if self.unterminated:
            strtab = strtab[:-1]
        table = others[:self.names_pos] + [b'.shstrtab'] + others[self.names_pos:]
        body = bytearray(b'\x7fELF\x02\x01\x01' + b'\0' * 9)
        body += struct.pack('<HHIQQQIHHHHHH', 2, 62, 1, 0x401000, 0x40, 0, 0, 0x40, 56, 1, self.entsize, 0, 0)
        assert len(body) == 0x40
        body += rnd_bytes(rng, self.phdr_gap)
        order = list(range(len(table)))
        if self.out_of_order:
            rng.shuffle(order)
        place = {}
        for k in order:
            n = table[k]
            pad = (self.pads[k] if self.pads else rng.choice([0, 0, 1, 7, 16]))
            body += rnd_bytes(rng, pad)
            data = strtab if n == b'.shstrtab' else (self.datas[k] if self.datas else rnd_bytes(rng, rng.choice([0, 1, 5, 32, 100])))
            place[k] = (len(body), len(data))
            body += data
        body += rnd_bytes(rng, rng.choice([0, 0, 3, 8]))   # bytes between the last section and the table
        shoff = len(body)
        hdrs = b''
        sections = []
        full = ([b''] if self.null_first else []) + table
        for k, n in enumerate(full):
            if self.null_first and k == 0:
                h = b'\0' * 0x40
                sections.append((b'', 0, 0))
            else:
                kk = k - (1 if self.null_first else 0)
                off, size = place[kk]
                h = struct.pack('<IIQQQQIIQQ', name_off[n], 3 if n == b'.shstrtab' else 1, 0, 0, off, size, 0, 0, 1, 0)
                sections.append((n, off, size))
            hdrs += h + rnd_bytes(rng, self.entsize - 0x40)
        names_idx = self.names_pos + (1 if self.null_first else 0)
        struct.pack_into('<Q', body, 0x28, shoff)
        struct.pack_into('<H', body, 0x3C, len(full))
        struct.pack_into('<H', body, 0x3E, names_idx)
        return bytes(body) + hdrs, {'sections': sections, 'names_idx': names_idx, 'shoff': shoff, 'entsize': self.entsize}


def elf_parse(b):
    """Independent reader: None if the header is not a plausible ELF64 LE v1; else dict."""
    if len(b) < 0x40 or b[:4] != b'\x7fELF' or b[4] != 2 or b[5] != 1 or b[6] != 1:
        return None
    shoff, = struct.unpack_from('<Q', b, 0x28)
    entsize, shnum, shstrndx = struct.unpack_from('<HHH', b, 0x3A)
    r = {'shoff': shoff, 'entsize': entsize, 'shnum': shnum, 'shstrndx': shstrndx, 'sections': []}
    if shoff + shnum * entsize > len(b) or entsize < 0x40 or shstrndx >= shnum:
        return None
    raw = []
    for i in range(shnum):
        h = b[shoff + i * entsize: shoff + (i + 1) * entsize]
        nm, ty, fl, ad, off, size = struct.unpack_from('<IIQQQQ', h, 0)
        raw.append((nm, off, size, h, ty))
    noff, nsize = raw[shstrndx][1], raw[shstrndx][2]
    if noff + nsize > len(b):
        return None
    tab = b[noff:noff + nsize]
    for nm, off, size, h, ty in raw:
        end = tab.find(b'\0', nm) if nm < len(tab) else -1
        name = tab[nm:end] if end >= 0 else None
        # SHT_NOBITS (.bss, .tbss) occupies no bytes of the file
        r['sections'].append({'name': name, 'name_off': nm, 'off': off, 'size': size, 'hdr': h, 'nobits': ty == 8})
    r['names_off'], r['names_size'] = noff, nsize
    return r


def elf_wellformed(b):
    """The layouts the round-trip/preservation statements talk about (mirrors wf_elf in Props/C19.v)."""
    p = elf_parse(b)
    if p is None or p['shoff'] + p['shnum'] * p['entsize'] != len(b):
        return None
    if p['names_off'] < 0x40 or p['names_size'] == 0 or b[p['names_off'] + p['names_size'] - 1] != 0:
        return None
    if any(s['name_off'] >= p['names_size'] for s in p['sections']):
        return None
    return p


def elf_in_file_order(p):
    """Sections listed before the names section lie before the end of the name table, later ones after it."""
    ins = p['names_off'] + p['names_size']
    for i, s in enumerate(p['sections']):
        if s['size'] == 0 or s['nobits']:
            continue
        if i < p['shstrndx'] and s['off'] + s['size'] > ins:
            return False
        if i > p['shstrndx'] and s['off'] < ins:
            return False
    return True


# ------------------------------------------------------------------------------------------------
# PE
class PeLayout:
    def __init__(self, nsec, fa, gap, sa=0x1000, soh=0xF0, extra_hdr_pad=0, names=None, sig_base=0x40, bss=False):
        self.nsec, self.fa, self.gap, self.sa, self.soh = nsec, fa, gap, sa, soh
        self.extra_hdr_pad, self.names, self.sig_base, self.bss = extra_hdr_pad, names, sig_base, bss

    def describe(self):
        return {'fmt': 'pe', 'nsec': self.nsec, 'fa': self.fa, 'gap': self.gap, 'sa': self.sa, 'soh': self.soh,
                'extra_hdr_pad': self.extra_hdr_pad, 'sig_base': self.sig_base}

    def build(self, rng):
        fa, sa = self.fa, self.sa
        # choose e_lfanew so that the distance from the end of the section headers to the next
        # multiple of FileAlignment is `gap` (when gap < fa; otherwise whatever the modulus gives)
        base = self.sig_base
        hend0 = base + 4 + 20 + self.soh + self.nsec * 40
        want = self.gap % fa if fa > 0 else 0
        delta = (-(hend0 + want)) % fa if fa > 0 else 0
        sig = base + delta
        hend = sig + 4 + 20 + self.soh + self.nsec * 40
        b = bytearray(b'MZ' + rnd_bytes(rng, 0x3a) + struct.pack('<I', sig))
        b += rnd_bytes(rng, sig - 0x40)
        b += b'PE\0\0'
        b += struct.pack('<HHIIIHH', 0x8664, self.nsec, 0x12345678, 0, 0, self.soh, 0x22)
        opt = bytearray(rnd_bytes(rng, self.soh))
        if self.soh >= 64:
            struct.pack_into('<H', opt, 0, 0x20b)
            struct.pack_into('<II', opt, 32, sa, fa)
        b += opt
        assert len(b) == sig + 24 + self.soh
        al = lambda x, m: ((x + m - 1) // m) * m if m else x
        hdr_size = al(hend, fa) + self.extra_hdr_pad * (fa if fa else 1)
        secs = []
        ptr = hdr_size
        va = al(max(hdr_size, 1), sa) if sa else 0x1000
        datas = []
        for i in range(self.nsec):
            nm = (self.names[i] if self.names else (b'.s%d' % i))
            nm = nm[:8]
            if self.bss and i == self.nsec - 1 and self.nsec > 1:
                raw, vs, p = 0, 0x100, 0
                data = b''
            else:
                raw = al(rng.choice([1, 5, 64, 200]), fa) if fa else 64
                if raw > (1 << 16):
                    raw = fa
                vs = max(1, raw - rng.randrange(0, min(raw, 8)))
                p = ptr
                data = rnd_bytes(rng, raw)
                ptr += raw
            secs.append((nm, vs, va, raw, p))
            datas.append(data)
            va = al(va + max(vs, 1), sa) if sa else va + 0x1000
        for (nm, vs, v, raw, p) in secs:
            b += nm + b'\0' * (8 - len(nm)) + struct.pack('<IIIIIIHHI', vs, v, raw, p, 0, 0, 0, 0, 0x60000020)
        assert len(b) == hend
        b += b'\0' * (hdr_size - hend)
        for d in datas:
            b += d
        if self.soh >= 64:
            struct.pack_into('<II', b, sig + 24 + 56, va, hdr_size & 0xFFFFFFFF)
        return bytes(b), {'sig': sig, 'hend': hend, 'fa': fa, 'sa': sa, 'nsec': self.nsec, 'soh': self.soh}


def pe_parse(b):
    if len(b) < 0x40:
        return None
    sig, = struct.unpack_from('<I', b, 0x3c)
    if sig + 24 > len(b) or b[sig:sig + 4] != b'PE\0\0':
        return None
    fh = sig + 4
    n, = struct.unpack_from('<H', b, fh + 2)
    soh, = struct.unpack_from('<H', b, fh + 16)
    oh = fh + 20
    sh = oh + soh
    if sh + n * 40 > len(b) or oh + 64 > len(b):
        return None
    sa, fa = struct.unpack_from('<II', b, oh + 32)
    soi, sohd = struct.unpack_from('<II', b, oh + 56)
    secs = []
    for i in range(n):
        h = b[sh + i * 40: sh + (i + 1) * 40]
        nm = h[:8].split(b'\0')[0]
        vs, va, raw, ptr = struct.unpack_from('<IIII', h, 8)
        secs.append({'name': nm, 'vs': vs, 'va': va, 'raw': raw, 'ptr': ptr, 'hdr': h})
    return {'sig': sig, 'fh': fh, 'oh': oh, 'sh': sh, 'n': n, 'soh': soh, 'sa': sa, 'fa': fa, 'soi': soi,
            'soh_field': sohd, 'sections': secs, 'hend': sh + n * 40}


def pe_fa(b):
    """FileAlignment as the code under test would read it, or None (used to keep generated inputs from
    asking for gigabyte allocations)."""
    if len(b) < 0x40:
        return None
    sig, = struct.unpack_from('<I', b, 0x3c)
    oh = sig + 24
    if oh + 40 > len(b):
        return None
    return struct.unpack_from('<I', b, oh + 36)[0]


# ------------------------------------------------------------------------------------------------
PANIC_CLASSES = [('attempt to add with overflow', 'add'), ('attempt to subtract with overflow', 'sub'),
                 ('attempt to multiply with overflow', 'mul'), ('attempt to divide by zero', 'div'),
                 ('split index', 'split'), ('assertion failed', 'assert'),
                 ('range end index', 'index'), ('range start index', 'index'), ('slice index starts', 'index'),
                 ('out of range for slice', 'index'), ('out of bounds', 'index')]


def canon(line):
    """canonical answer of the implementation: 'OK <len> <sha256>', 'ERR x', 'PANIC <class>'"""
    t = line.split()
    if not t:
        return 'EMPTY'
    if t[0] == 'OK':
        return 'OK %s %s' % (t[1], hashlib.sha256(bytes.fromhex(t[2]) if t[2] not in ('-', '@') else b'').hexdigest()[:16])
    if t[0] == 'PANIC':
        try:
            msg = bytes.fromhex(t[1]).decode('utf-8', 'replace')
        except ValueError:
            return 'PANIC ' + t[1]           # the model prints the class directly
        for pat, cls in PANIC_CLASSES:
            if pat in msg:
                return 'PANIC ' + cls
        return 'PANIC ?' + msg[:60]
    return ' '.join(t[:2])


def ok_bytes(line):
    t = line.split()
    if t and t[0] == 'OK':
        return b'' if t[2] == '-' else bytes.fromhex(t[2])
    return None


def run_impl(binary, lines, abort_ok=False, timeout=900):
    """Feed request lines to `rjrssync --verif-harness exe`.  With abort_ok (release profile: panic=abort)
    the process dies on a panic after its hook printed the PANIC line; it is restarted on the rest."""
    out = []
    todo = list(lines)
    while todo:
        p = subprocess.run([binary, '--verif-harness', 'exe'], input='\n'.join(todo) + '\n', text=True,
                           stdout=subprocess.PIPE, stderr=subprocess.PIPE, timeout=timeout)
        got = p.stdout.splitlines()
        out.extend(got)
        if p.returncode == 0 and len(got) == len(todo):
            break
        if not abort_ok or not got or not got[-1].startswith('PANIC'):
            raise RuntimeError('harness exe died: rc=%s after %d/%d answers: %s' % (p.returncode, len(got), len(todo), p.stderr[-500:]))
        todo = todo[len(got):]
    return out


def run_judge(jbin, lines, timeout=900):
    def big_stack():
        try:
            resource.setrlimit(resource.RLIMIT_STACK, (resource.RLIM_INFINITY, resource.RLIM_INFINITY))
        except (ValueError, OSError):
            pass
    p = subprocess.run([jbin], input='\n'.join(lines) + '\n', text=True, timeout=timeout,
                       stdout=subprocess.PIPE, stderr=subprocess.PIPE, preexec_fn=big_stack)
    if p.returncode != 0:
        raise RuntimeError('judge_exe failed rc=%s: %s' % (p.returncode, p.stderr[-800:]))
    return p.stdout.splitlines()
