"""Helpers of the C06 check: pattern generator for the regex subset of Model/RegexParse.v, test
strings, the documented filter rule evaluated with python's re.fullmatch (the property oracle), and
tree generators for the end-to-end runs."""
import re, warnings, itertools

LETTERS = ['a', 'b', 'c', 'A', 'B']
OTHER = ['0', '1', '/', '.', '_', '-', ' ']
META = set('\\.+*?()|[]{}^$#&-~')
PATHY = ['build', 'builder', 'builder.txt', 'rebuild', 'build/x', 'a/build', 'build/', 'dist', 'dist2', 'my-dist',
         'a/dist', 'dist/keep', 'a', 'b', 'ab', 'a/b', 'a/b/c', 'x.tmp', 'x.TMP', 'a/x.tmp', 'keep.txt', 'BUILD']


class Pat:
    """rs: the text given to rjrssync; py: the same regular expression in python spelling, or None
    when python has no equivalent / reads it differently; chars: literal characters it mentions."""
    def __init__(self, rs, py, chars=()):
        self.rs, self.py, self.chars = rs, py, set(chars)

    def cat(self, o):
        return Pat(self.rs + o.rs, None if self.py is None or o.py is None else self.py + o.py, self.chars | o.chars)


def esc(c):
    return '\\' + c if c in META else c


def gen_class(rng):
    neg = rng.random() < 0.3
    items, chars = [], set()
    n = rng.choice([1, 1, 2, 2, 3])
    lead_dash = rng.random() < 0.08
    trail_dash = rng.random() < 0.08
    for _ in range(n):
        k = rng.random()
        if k < 0.45:
            c = rng.choice(LETTERS + OTHER + ['^', ']', '\\', '(', '*', '$', '|'])
            if c in ('-',):
                items.append('\\-')
            elif c in (']', '\\', '^'):
                items.append('\\' + c)
            else:
                items.append(c)
            chars.add(c)
        elif k < 0.8:
            lo, hi = rng.choice([('a', 'c'), ('a', 'b'), ('A', 'B'), ('0', '1'), ('a', 'a'), ('b', 'c'), ('A', 'c'), ('.', '0'), ('0', 'a')])
            items.append(lo + '-' + hi)
            chars.update([lo, hi])
        else:
            # a negated class that contains \D \W \S may denote the empty set, which the regex crate refuses: not in the subset
            items.append(rng.choice(['\\d', '\\w', '\\s', '\\n', '\\t'] + ([] if neg else ['\\D', '\\W', '\\S'])))
    body = ''.join(items)
    if lead_dash:
        body = '-' + body; chars.add('-')
    if trail_dash:
        body = body + '-'; chars.add('-')
    t = '[' + ('^' if neg else '') + body + ']'
    return Pat(t, t, chars)


def gen_atom(rng, depth):
    k = rng.random()
    if k < 0.42:
        c = rng.choice(LETTERS * 3 + OTHER + ['}', ']'])
        return Pat(esc(c), esc(c), [c])
    if k < 0.50:
        return Pat('.', '.')
    if k < 0.62:
        return gen_class(rng)
    if k < 0.68:
        e = rng.choice(['\\d', '\\w', '\\s', '\\D', '\\W', '\\S', '\\t', '\\n'])
        return Pat(e, e, ['0', ' '])
    if k < 0.72:
        a = rng.choice(['^', '$', '\\A', '\\z'])
        return Pat(a, {'\\z': '\\Z'}.get(a, a))
    if depth <= 0:
        c = rng.choice(LETTERS)
        return Pat(c, c, [c])
    inner = gen_alt(rng, depth - 1)
    g = rng.random()
    if g < 0.45:
        o = '('
    elif g < 0.8:
        o = '(?:'
    elif g < 0.93:
        o = '(?i:'
    else:
        o = '(?-i:'
    return Pat(o + inner.rs + ')', None if inner.py is None else o + inner.py + ')', inner.chars)


def gen_quant(rng):
    k = rng.random()
    if k < 0.3:
        q = '*'
    elif k < 0.5:
        q = '+'
    elif k < 0.7:
        q = '?'
    elif k < 0.8:
        q = '{%d}' % rng.choice([0, 1, 2, 3])
    elif k < 0.9:
        q = '{%d,}' % rng.choice([0, 1, 2])
    else:
        lo = rng.choice([0, 1, 2]); q = '{%d,%d}' % (lo, lo + rng.choice([0, 1, 2]))
    if rng.random() < 0.15:
        q += '?'                 # lazy: same set of matches
    return q


def gen_cat(rng, depth):
    n = rng.choice([0, 1, 1, 2, 2, 3, 3, 4])
    p = Pat('', '')
    for _ in range(n):
        a = gen_atom(rng, depth)
        if rng.random() < 0.3:
            q = gen_quant(rng)
            a = Pat(a.rs + q, None if a.py is None else a.py + q, a.chars)
            if rng.random() < 0.04:           # stacked quantifier: (x*)+ for the regex crate, possessive / error in python
                q2 = rng.choice(['*', '+', '{2}'])
                a = Pat(a.rs + q2, None, a.chars)
        if rng.random() < 0.03:               # flag in the middle of a group (python: only at the very start)
            fl = rng.choice(['(?i)', '(?-i)'])
            a = Pat(a.rs + fl, None, a.chars)
        p = p.cat(a)
    return p


def gen_alt(rng, depth):
    n = rng.choice([1, 1, 1, 2, 2, 3])
    p = gen_cat(rng, depth)
    for _ in range(n - 1):
        p = p.cat(Pat('|', '|')).cat(gen_cat(rng, depth))
    return p


def gen_pattern(rng):
    """A pattern of the subset."""
    p = gen_alt(rng, rng.choice([0, 1, 1, 2, 2, 3]))
    if rng.random() < 0.12:
        p = Pat('(?i)', '(?i)').cat(p)        # at the very start python reads it the same way
    elif rng.random() < 0.10:
        p = Pat('^', '^').cat(p).cat(Pat('$', '$'))   # explicitly anchored by the user
    return p


def gen_pathy_pattern(rng):
    """Filters as users write them: names, alternations of names, extensions, folders."""
    names = ['build', 'dist', 'a', 'b', 'x', 'keep', 'builder', 'target']
    k = rng.random()
    if k < 0.35:
        t = '|'.join(rng.sample(names, rng.choice([2, 2, 3])))
    elif k < 0.5:
        t = rng.choice(names)
    elif k < 0.65:
        t = '.*\\.(?:' + '|'.join(rng.sample(['tmp', 'txt', 'o', 'TMP'], 2)) + ')'
    elif k < 0.75:
        t = rng.choice(names) + '/.*'
    elif k < 0.85:
        t = '(?i).*\\.tmp'
    elif k < 0.93:
        t = '(' + '|'.join(rng.sample(names, 2)) + ')(/.*)?'
    else:
        t = '[^/]*/' + rng.choice(names) + '|' + rng.choice(names)
    # users also anchor their patterns themselves (fully or on one side); whole-path semantics must not depend on it
    a = rng.random()
    if a < 0.12:
        t = '^' + t + '$'
    elif a < 0.17:
        t = '^' + t
    elif a < 0.22:
        t = t + '$'
    return Pat(t, t, set(t) - META)


# ------------------------------------------------------------------------------------------------
def strings_over(alpha, maxlen):
    out = ['']
    for n in range(1, maxlen + 1):
        out += [''.join(t) for t in itertools.product(alpha, repeat=n)]
    return out


def alphabet_for(pats, rng, size=4):
    chars = set()
    for p in pats:
        chars |= {c for c in p.chars if len(c) == 1 and ord(c) < 128}
    chars = sorted(chars)
    rng.shuffle(chars)
    alpha = chars[:size - 1]
    # a case variant of a letter in the pattern and a character the pattern does not mention
    for c in list(alpha):
        if c.isalpha() and len(alpha) < size and c.swapcase() not in alpha:
            alpha.append(c.swapcase()); break
    for c in ['z', '/', 'a', 'b', '0', '\n']:
        if len(alpha) >= size:
            break
        if c not in alpha:
            alpha.append(c)
    return alpha[:size]


# ------------------------------------------------------------------------------------------------
_cache = {}


def py_compile(text):
    """Compiled python regex for the pattern's own text, or None if python cannot take it as is."""
    if text in _cache:
        return _cache[text]
    r = None
    try:
        with warnings.catch_warnings():
            warnings.simplefilter('error')
            r = re.compile(text, re.ASCII)
    except (re.error, Warning, RecursionError, OverflowError):
        r = None
    _cache[text] = r
    return r


def documented_verdict(filters, path, matcher):
    """The property text. filters: [(sign, pattern)], matcher(pattern, path) -> bool = the regular
    expression matches the entire path. Returns True when the entry takes part (ancestors aside)."""
    if path == '':
        return True
    state = True if not filters else (filters[0][0] != '+')
    for sg, pat in filters:
        if matcher(pat, path):
            state = (sg == '+')
    return state


def py_rule(filters_py, path):
    """filters_py: [(sign, python pattern text)]; None if python cannot judge this case."""
    comp = []
    for sg, t in filters_py:
        if t is None:
            return None
        c = py_compile(t)
        if c is None:
            return None
        if '\n' in path and '$' in t:
            return None           # python's $ also matches before a final newline
        comp.append((sg, c))
    return documented_verdict(comp, path, lambda c, s: c.fullmatch(s) is not None)


def takes_part(filters_py, rel):
    """With the 'an excluded folder hides everything beneath it' clause: rel and every ancestor survive."""
    parts = rel.split('/')
    for i in range(1, len(parts) + 1):
        v = py_rule(filters_py, '/'.join(parts[:i]))
        if v is None:
            return None
        if not v:
            return False
    return True


# ------------------------------------------------------------------------------------------------
NAMES = ['build', 'builder.txt', 'rebuild', 'dist', 'a', 'b', 'x.tmp', 'keep.txt', 'X.TMP', 'target']


def gen_tree(rng, depth=3, width=4, mtime=1_600_000_000_000_000_000, fill=0):
    """{rel: node} with '' = root dir."""
    tree = {'': {'k': 'dir'}}

    def grow(prefix, d):
        for nm in rng.sample(NAMES, rng.randint(1, width)):
            rel = (prefix + '/' if prefix else '') + nm
            if d > 0 and '.' not in nm and rng.random() < 0.55:
                tree[rel] = {'k': 'dir'}
                grow(rel, d - 1)
            else:
                tree[rel] = {'k': 'file', 'data': ('%s#%d' % (rel, fill)).encode(), 'mtime_ns': mtime}
    grow('', depth)
    return tree
