"""Helpers of the C06 check: pattern generator for the regex subset of Model/RegexParse.v, test
strings, the documented filter rule evaluated with python's re.fullmatch (the property oracle), and
tree generators for the end-to-end runs."""
import re, warnings, itertools

LETTERS = ['a', 'b', 'c', 'A', 'B']
OTHER = ['0', '1', '/', '.', '_', '-', ' ']
META = set('\\.+*?()|[]{}^$#&-~')
PATHY = ['build', 'builder', 'builder.txt', 'rebuild', 'build/x', 'a/build', 'build/', 'dist', 'dist2', 'my-dist',
         'a/dist', 'dist/keep', 'a', 'b', 'ab', 'a/b', 'a/b/c', 'x.tmp', 'x.TMP', 'a/x.tmp', 'keep.txt', 'BUILD']


class Pat:
    """rs: the text given to rjrssync; py: the same regular expression in python spelling, or None
    when python has no equivalent / reads it differently; chars: literal characters it mentions."""
    def __init__(self, rs, py, chars=()):
        self.rs, self.py, self.chars = rs, py, set(chars)

    def cat(self, o):
        return Pat(self.rs + o.rs, None if self.py is None or o.py is None else self.py + o.py, self.chars | o.chars)


def esc(c):
    return '\\' + c if c in META else c


def gen_class(rng):
    neg = rng.random() < 0.3
    items, chars = [], set()
    n = rng.choice([1, 1, 2, 2, 3])
    lead_dash = rng.random() < 0.08
    trail_dash = rng.random() < 0.08
    for _ in range(n):
        k = rng.random()
        if k < 0.45:
            c = rng.choice(LETTERS + OTHER + ['^', ']', '\\', '(', '*', '$', '|'])
            if c in ('-',):
                items.append('\\-')
            elif c in (']', '\\', '^'):
                items.append('\\' + c)
            else:
                items.append(c)
            chars.add(c)
        elif k < 0.8:
            lo, hi = rng.choice([('a', 'c'), ('a', 'b'), ('A', 'B'), ('0', '1'), ('a', 'a'), ('b', 'c'), ('A', 'c'), ('.', '0'), ('0', 'a')])
            items.append(lo + '-' + hi)
            chars.update([lo, hi])
        else:
            # a negated class that contains \D \W \S may denote the empty set, which the regex crate refuses: not in the subset
            items.append(rng.choice(['\\d', '\\w', '\\s', '\\n', '\\t'] + ([] if neg else ['\\D', '\\W', '\\S'])))
    body = ''.join(items)
    if lead_dash:
        body = '-' + body; chars.add('-')
    if trail_dash:
        body = body + '-'; chars.add('-')
    t = '[' + ('^' if neg else '') + body + ']'
    return Pat(t, t, chars)


def gen_atom(rng, depth):
    k = rng.random()
    if k < 0.42:
        c = rng.choice(LETTERS * 3 + OTHER + ['}', ']'])
        return Pat(esc(c), esc(c), [c])
    if k < 0.50:
        return Pat('.', '.')
    if k < 0.62:
        return gen_class(rng)
    if k < 0.68:
        e = rng.choice(['\\d', '\\w', '\\s', '\\D', '\\W', '\\S', '\\t', '\\n'])
        return Pat(e, e, ['0', ' '])
    if k < 0.72:
        a = rng.choice(['^', '$', '\\A', '\\z'])
        return Pat(a, {'\\z': '\\Z'}.get(a, a))
    if depth <= 0:
        c = rng.choice(LETTERS)
        return Pat(c, c, [c])
    inner = gen_alt(rng, depth - 1)
    g = rng.random()
    if g < 0.45:
        o = '('
    elif g < 0.8:
        o = '(?:'
    elif g < 0.93:
        o = '(?i:'
    else:
        o = '(?-i:'
    return Pat(o + inner.rs + ')', None if inner.py is None else o + inner.py + ')', inner.chars)


def gen_quant(rng):
    k = rng.random()
    if k < 0.3:
        q = '*'
    elif k < 0.5:
        q = '+'
    elif k < 0.7:
        q = '?'
    elif k < 0.8:
        q = '{%d}' % rng.choice([0, 1, 2, 3])
    elif k < 0.9:
        q = '{%d,}' % rng.choice([0, 1, 2])
    else:
        lo = rng.choice([0, 1, 2]); q = '{%d,%d}' % (lo, lo + rng.choice([0, 1, 2]))
    if rng.random() < 0.15:
        q += '?'                 # lazy: same set of matches
    return q


def gen_cat(rng, depth):
    n = rng.choice([0, 1, 1, 2, 2, 3, 3, 4])
    p = Pat('', '')
    for _ in range(n):
        a = gen_atom(rng, depth)
        if rng.random() < 0.3:
            q = gen_quant(rng)
            a = Pat(a.rs + q, None if a.py is None else a.py + q, a.chars)
            if rng.random() < 0.04:           # stacked quantifier: (x*)+ for the regex crate, possessive / error in python
                q2 = rng.choice(['*', '+', '{2}'])
                a = Pat(a.rs + q2, None, a.chars)
        if rng.random() < 0.03:               # flag in the middle of a group (python: only at the very start)
            fl = rng.choice(['(?i)', '(?-i)'])
            a = Pat(a.rs + fl, None, a.chars)
        p = p.cat(a)
    return p


def gen_alt(rng, depth):
    n = rng.choice([1, 1, 1, 2, 2, 3])
    p = gen_cat(rng, depth)
    for _ in range(n - 1):
        p = p.cat(Pat('|', '|')).cat(gen_cat(rng, depth))
    return p


def gen_pattern(rng):
    """A pattern of the subset."""
    p = gen_alt(rng, rng.choice([0, 1, 1, 2, 2, 3]))
    if rng.random() < 0.12:
        p = Pat('(?i)', '(?i)').cat(p)        # at the very start python reads it the same way
    elif rng.random() < 0.10:
        p = Pat('^', '^').cat(p).cat(Pat('$', '$'))   # explicitly anchored by the user
    return p


def gen_pathy_pattern(rng):
    """Filters as users write them: names, alternations of names, extensions, folders."""
    names = ['build', 'dist', 'a', 'b', 'x', 'keep', 'builder', 'target']
    k = rng.random()
    if k < 0.35:
        t = '|'.join(rng.sample(names, rng.choice([2, 2, 3])))
    elif k < 0.5:
        t = rng.choice(names)
    elif k < 0.65:
        t = '.*\\.(?:' + '|'.join(rng.sample(['tmp', 'txt', 'o', 'TMP'], 2)) + ')'
    elif k < 0.75:
        t = rng.choice(names) + '/.*'
    elif k < 0.85:
        t = '(?i).*\\.tmp'
    elif k < 0.93:
        t = '(' + '|'.join(rng.sample(names, 2)) + ')(/.*)?'
    else:
        t = '[^/]*/' + rng.choice(names) + '|' + rng.choice(names)
    # users also anchor their patterns themselves (fully or on one side); whole-path semantics must not depend on it
    a = rng.random()
    if a < 0.12:
        t = '^' + t + '$'
    elif a < 0.17:
        t = '^' + t
    elif a < 0.22:
        t = t + '$'
    return Pat(t, t, set(t) - META)


# ------------------------------------------------------------------------------------------------
def strings_over(alpha, maxlen):
    out = ['']
    for n in range(1, maxlen + 1):
        out += [''.join(t) for t in itertools.product(alpha, repeat=n)]
    return out


def alphabet_for(pats, rng, size=4):
    chars = set()
    for p in pats:
        chars |= {c for c in p.chars if len(c) == 1 and ord(c) < 128}
    chars = sorted(chars)
    rng.shuffle(chars)
    alpha = chars[:size - 1]
    # a case variant of a letter in the pattern and a character the pattern does not mention
    for c in list(alpha):
        if c.isalpha() and len(alpha) < size and c.swapcase() not in alpha:
            alpha.append(c.swapcase()); break
    for c in ['z', '/', 'a', 'b', '0', '\n']:
        if len(alpha) >= size:
            break
        if c not in alpha:
            alpha.append(c)
    return alpha[:size]


# ------------------------------------------------------------------------------------------------
_cache = {}


def py_compile(text):
    """Compiled python regex for the pattern's own text, or None if python cannot take it as is."""
    if text in _cache:
        return _cache[text]
    r = None
    try:
        with warnings.catch_warnings():
            warnings.simplefilter('error')
            r = re.compile(text, re.ASCII)
    except (re.error, Warning, RecursionError, OverflowError):
        r = None
    _cache[text] = r
    return r


def documented_verdict(filters, path, matcher):
    """The property text. filters: [(sign, pattern)], matcher(pattern, path) -> bool = the regular
    expression matches the entire path. Returns True when the entry takes part (ancestors aside)."""
    if path == '':
        return True
    state = True if not filters else (filters[0][0] != '+')
    for sg, pat in filters:
        if matcher(pat, path):
            state = (sg == '+')
    return state


def py_rule(filters_py, path):
    """filters_py: [(sign, python pattern text)]; None if python cannot judge this case."""
    comp = []
    for sg, t in filters_py:
        if t is None:
            return None
        c = py_compile(t)
        if c is None:
            return None
        if '\n' in path and '$' in t:
            return None           # python's $ also matches before a final newline
        comp.append((sg, c))
    return documented_verdict(comp, path, lambda c, s: c.fullmatch(s) is not None)


def takes_part(filters_py, rel):
    """With the 'an excluded folder hides everything beneath it' clause: rel and every ancestor survive."""
    parts = rel.split('/')
    for i in range(1, len(parts) + 1):
        v = py_rule(filters_py, '/'.join(parts[:i]))
        if v is None:
            return None
        if not v:
            return False
    return True


# ------------------------------------------------------------------------------------------------
NAMES = ['build', 'builder.txt', 'rebuild', 'dist', 'a', 'b', 'x.tmp', 'keep.txt', 'X.TMP', 'target']


def gen_tree(rng, depth=3, width=4, mtime=1_600_000_000_000_000_000, fill=0):
    """{rel: node} with '' = root dir."""
    tree = {'': {'k': 'dir'}}

    def grow(prefix, d):
        for nm in rng.sample(NAMES, rng.randint(1, width)):
            rel = (prefix + '/' if prefix else '') + nm
            if d > 0 and '.' not in nm and rng.random() < 0.55:
                tree[rel] = {'k': 'dir'}
                grow(rel, d - 1)
            else:
                tree[rel] = {'k': 'file', 'data': ('%s#%d' % (rel, fill)).encode(), 'mtime_ns': mtime}
    grow('', depth)
    return tree


# ------------------------------------------------------------------------------------------------
# Repeated filters: lists of the shape [.., F, .., G, .., F, ..] where G has the opposite sign and overlaps F.
# "The last matching filter wins" must hold when the same filter text occurs more than once; a list is only
# interesting on a tree that contains paths matched by both F and G, so the witnesses are computed (python
# re.fullmatch on the patterns' own texts) and planted in the trees.
POOL_NAMES = NAMES + ['debug', 'trace.log', 'top.log', 'notes.txt', 'x.o', 'dist2', 'builder', 'my-dist', 'keep', 'x']


def path_pool():
    dirs = [n for n in POOL_NAMES if '.' not in n]
    out = list(POOL_NAMES)
    out += [d + '/' + n for d in dirs for n in POOL_NAMES]
    out += [d + '/' + e + '/' + n for d in dirs[:6] for e in dirs[:6] for n in POOL_NAMES]
    return out


_POOL = None

REPEAT_TABLE = [      # (F, G): own texts, spelled the same in python; F and G overlap
    ('.*\\.log', 'debug/.*'), ('.*\\.tmp', 'a/.*'), ('a(/.*)?', 'a/x\\.tmp'), ('build|dist', '.*'), ('.*\\.txt', 'keep\\.txt|a/keep\\.txt'),
    ('(?i).*\\.tmp', '.*/[^/]*'), ('.*/(build|target)', 'a/.*|b/.*'), ('[^/]*', 'a|b|keep\\.txt'), ('(a|b)(/.*)?', '.*/build|.*/dist|.*\\.tmp'),
    ('dist/.*', '.*keep.*'), ('.*', '.*\\.(?:tmp|o)'), ('^debug(/.*)?$', '.*\\.log'), ('target|.*/target', '[^/]*/target'), ('x\\.tmp|X\\.TMP|.*/x\\.tmp', '(?i).*x\\.tmp'),
]


def both_match(fp, gp, pool=None):
    """Paths of the pool that the regular expressions fp and gp (python texts) both match entirely."""
    global _POOL
    if pool is None:
        if _POOL is None:
            _POOL = path_pool()
        pool = _POOL
    cf, cg = py_compile(fp), py_compile(gp)
    if cf is None or cg is None:
        return []
    return [p for p in pool if cf.fullmatch(p) and cg.fullmatch(p)]


def gen_repeat_list(rng, table_index=None):
    """One filter list with a repeated filter: returns (filters [(sign, Pat)], witnesses) or None when the
    randomly drawn F and G have no common path in the pool.  Witnesses whose ancestors all take part come
    first (their verdict is observable end to end)."""
    if table_index is not None:
        ft, gt = REPEAT_TABLE[table_index % len(REPEAT_TABLE)]
        F, G = Pat(ft, ft, set(ft) - META), Pat(gt, gt, set(gt) - META)
        if (table_index // len(REPEAT_TABLE)) % 2:
            F, G = G, F
    else:
        F, G = gen_pathy_pattern(rng), gen_pathy_pattern(rng)
        if F.rs == G.rs:
            return None
    wit = both_match(F.py, G.py)
    if not wit:
        return None
    H = gen_pathy_pattern(rng)
    sh = rng.choice('+-')
    shape = rng.choice(['FGF', 'FGF', 'FGF', 'FGFH', 'HFGF', 'FGGF', 'FHGF', 'FGFGF', 'GFGF', 'FFGF'])
    if table_index is not None and table_index < 2 * len(REPEAT_TABLE):
        shape = 'FGF'

    def observable(w):
        parts = w.split('/')
        return all(py_rule(pyf, '/'.join(parts[:i])) for i in range(1, len(parts)))
    # both sign assignments occur; one under which no witness can be observed (an ancestor folder is excluded) is the second choice
    signs = ['+', '-']
    rng.shuffle(signs)
    for sf in signs:
        sg = '-' if sf == '+' else '+'
        fl = [{'F': (sf, F), 'G': (sg, G), 'H': (sh, H)}[c] for c in shape]
        pyf = [(s, p.py) for s, p in fl]
        if any(observable(w) for w in wit):
            break
    rng.shuffle(wit)
    wit.sort(key=lambda w: (not observable(w), w.count('/')))
    return fl, wit


def plant(tree, rel, node):
    """Put `node` at `rel`, turning every ancestor into a folder; an existing folder at `rel` is kept."""
    parts = rel.split('/')
    for i in range(1, len(parts)):
        anc = '/'.join(parts[:i])
        if tree.get(anc, {}).get('k') != 'dir':
            tree[anc] = {'k': 'dir'}
    if tree.get(rel, {}).get('k') == 'dir':
        return
    tree[rel] = node


def derive_dest(rng, src, mtime=1_600_000_000_000_000_000):
    """A stale copy of part of the source plus entries of its own."""
    dest = {'': {'k': 'dir'}}
    for rel, node in src.items():
        parent = rel.rsplit('/', 1)[0] if '/' in rel else ''
        if rel and parent in dest and dest[parent]['k'] == 'dir' and rng.random() < 0.6:
            dest[rel] = dict(node)
            if node['k'] == 'file':
                dest[rel] = {'k': 'file', 'data': b'old:' + node['data'], 'mtime_ns': mtime}
    extra = gen_tree(rng, depth=2, width=3, mtime=mtime, fill=2)
    for rel, node in extra.items():
        parent = rel.rsplit('/', 1)[0] if '/' in rel else ''
        if rel and rel not in dest and parent in dest and dest[parent]['k'] == 'dir':
            dest[rel] = node
    return dest


def trees_with_witnesses(rng, witnesses, empty_dest=False):
    """Source and destination trees that contain paths matched by both the repeated filter and the filter in
    between: up to three witnesses on the source (two of them as stale copies on the destination) and up to
    two more on the destination only."""
    src = gen_tree(rng, depth=2, width=4, mtime=1_700_000_000_000_000_000, fill=1)
    on_src = witnesses[:3]
    for w in on_src:
        plant(src, w, {'k': 'file', 'data': ('%s#w' % w).encode(), 'mtime_ns': 1_700_000_000_000_000_000})
    if empty_dest:
        return src, None
    dest = derive_dest(rng, src)
    for w in on_src[:2]:
        if src[w]['k'] == 'file':
            plant(dest, w, {'k': 'file', 'data': b'mine:' + src[w]['data'], 'mtime_ns': 1_600_000_000_000_000_000})
        else:
            plant(dest, w, {'k': 'dir'})
    placed = 0
    for w in witnesses[3:]:
        parts = w.split('/')
        ancs = ['/'.join(parts[:i]) for i in range(1, len(parts))]
        if w in src or any(src.get(a, {'k': 'dir'})['k'] != 'dir' for a in ancs):
            continue
        plant(dest, w, {'k': 'file', 'data': ('%s#destonly' % w).encode(), 'mtime_ns': 1_600_000_000_000_000_000})
        placed += 1
        if placed == 2:
            break
    # planting may have turned a destination file into a folder: drop entries that lost their parent folder
    for rel in sorted(dest, key=len, reverse=True):
        if rel:
            parent = rel.rsplit('/', 1)[0] if '/' in rel else ''
            if dest.get(parent, {}).get('k') != 'dir':
                del dest[rel]
    return src, dest


def yaml_sq(s):
    """YAML single-quoted scalar (backslashes are literal, a quote is doubled)."""
    return "'" + s.replace("'", "''") + "'"


def spec_text(src, dest, filters, src_host=None, dest_host=None):
    t = ''
    if src_host:
        t += 'src_hostname: %s\n' % src_host
    if dest_host:
        t += 'dest_hostname: %s\n' % dest_host
    t += 'syncs:\n  - src: %s\n    dest: %s\n' % (yaml_sq(src), yaml_sq(dest))
    if filters:
        t += '    filters:\n' + ''.join('      - %s\n' % yaml_sq(f) for f in filters)
    return t
