def run_e2e(run, binary, tier):
    pass
def replay_e2e(run, binary, r):
    pass
