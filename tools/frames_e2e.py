"""End-to-end legs of C10: the real binaries with a man in the middle on the TCP link (tools/mitm_proxy.py
acting as the fake ssh), and a real `--doer` attacked by a peer that does not hold the key.
Oracles are written from the property text and look only at what the implementation did:
the doer's command log, the destination tree, exit codes, the nonces recovered from the captured frames."""
import os, sys, json, shutil, socket, subprocess, tempfile, time, struct, hashlib
from concurrent.futures import ThreadPoolExecutor
import vlib, e2e
import frames_lib as fl

HERE = os.path.dirname(os.path.abspath(__file__))
MARK = 'Waiting for incoming network connection on port '
OPS = ['dup', 'drop', 'flip', 'swap', 'replay_later', 'reflect', 'inject_forged', 'inject_garbage', 'inject_oversize', 'truncate']


def src_tree():
    t = {'': {'k': 'dir'}, 'a.txt': {'k': 'file', 'data': b'alpha\n' * 20, 'mtime_ns': 1600000000 * 10**9},
         'big.bin': {'k': 'file', 'len': 41000, 'fill': 3, 'mtime_ns': 1600000001 * 10**9},
         'sub': {'k': 'dir'}, 'sub/c.txt': {'k': 'file', 'data': b'c' * 5000, 'mtime_ns': 1600000002 * 10**9},
         'sub/d.txt': {'k': 'file', 'data': b'', 'mtime_ns': 1600000003 * 10**9},
         'sub/deep': {'k': 'dir'}, 'sub/deep/e.bin': {'k': 'file', 'len': 9000, 'fill': 5, 'mtime_ns': 1600000004 * 10**9},
         'ln': {'k': 'link', 'text': b'a.txt'}}
    return t


def dest_tree():
    return {'': {'k': 'dir'}, 'a.txt': {'k': 'file', 'data': b'old', 'mtime_ns': 1500000000 * 10**9},
            'stale.txt': {'k': 'file', 'data': b'stale', 'mtime_ns': 1500000000 * 10**9},
            'gone': {'k': 'dir'}, 'gone/x': {'k': 'file', 'data': b'x', 'mtime_ns': 1500000000 * 10**9}}


def fake_ssh_dir(base):
    d = os.path.join(base, 'fakebin')
    os.makedirs(d, exist_ok=True)
    p = os.path.join(d, 'ssh')
    with open(p, 'w') as f:
        f.write('#!/bin/sh\nexec python3 %s "$@"\n' % os.path.join(HERE, 'mitm_proxy.py'))
    os.chmod(p, 0o755)
    return d


def read_log(path):
    out = {'key': None, 'frames': {0: [], 1: []}, 'applied': False, 'not_applied': False, 'doer_exit': None, 'closed': None, 'identical': False}
    try:
        lines = open(path).read().splitlines()
    except OSError:
        return out
    for l in lines:
        try:
            o = json.loads(l)
        except ValueError:
            continue
        if 'key' in o:
            out['key'] = o['key']
        elif 'hex' in o:
            out['frames'][o['dir']].append(bytes.fromhex(o['hex']))
        elif 'applied' in o:
            out['applied'] = True
        elif 'not_applied' in o:
            out['not_applied'] = True
        elif 'identical' in o:
            out['identical'] = True
        elif 'doer_exit' in o:
            out['doer_exit'] = o['doer_exit']
        elif 'closed' in o:
            out['closed'] = o['closed']
    return out


def read_cmds(path):
    """Kinds of the commands the remote doer (its main thread) started to execute; a last line cut short by the
    process dying is ignored."""
    try:
        text = open(path).read()
    except OSError:
        return []
    lines = text.split('\n')[:-1]          # complete lines only
    out = []
    for l in lines:
        t = l.split()
        if len(t) >= 2 and t[0] == '"main"':
            out.append(t[1])
    return out


def run_sync(binary, base, name, placement, plan):
    """One sync in a fresh sandbox. Returns dict(result, log, cmds (remote doer's command kinds), src, dest_before, dest_after)."""
    d = os.path.join(base, name)
    os.makedirs(d)
    src, dest = os.path.join(d, 'src'), os.path.join(d, 'dest')
    e2e.build_tree(src, src_tree())
    e2e.build_tree(dest, dest_tree())
    before = e2e.snapshot(dest)
    logf, cmdlog = os.path.join(d, 'mitm.jsonl'), os.path.join(d, 'cmds.log')
    env = {'MITM_PLAN': json.dumps(plan), 'MITM_LOG': logf, 'MITM_DOER_CMD_LOG': cmdlog, 'MITM_GRACE': '2'}
    both = None
    if placement == 'both_remote':
        sd = os.path.join(d, 'sessions'); os.makedirs(sd)
        env['MITM_SESSION_DIR'] = sd
        k = plan.get('session', 0)
        both = [(logf + '.%d' % j, cmdlog + '.%d' % j) for j in (0, 1)]
        logf, cmdlog = both[k]
    a = ('localhost:' if placement in ('src_remote', 'both_remote') else '') + src + '/'
    b = ('localhost:' if placement in ('dest_remote', 'both_remote') else '') + dest + '/'
    r = e2e.run_cli(binary, [a, b], env=env, timeout=40, fake_ssh=fake_ssh_dir(d))
    cmds = read_cmds(cmdlog)
    out = {'result': r, 'log': read_log(logf), 'cmds': cmds, 'src': e2e.snapshot(src), 'before': before, 'after': e2e.snapshot(dest),
           'src_path': src, 'dest_path': dest}
    if both:
        # session 0 = the launch for the source (the boss sets the source up first), session 1 = the destination
        out['logs'] = [read_log(lf) for lf, _ in both]
        out['cmds_by_session'] = [read_cmds(cf) for _, cf in both]
    return out


def kinds_of(binary, key, frames, d):
    """Kinds of the plaintexts of honest frames of direction d (frame i sealed with counter d + 2i)."""
    lines = ['O %s %d %d %s' % (key, d + 2 * i, d, fl.hx(f[8:])) for i, f in enumerate(frames)]
    out = vlib.harness(binary, 'frames', lines) if lines else []
    return [l.split()[1] if l != 'O none' else None for l in out]


def tree_oracle(run_out):
    """Nothing of a manipulated frame may be acted upon: the destination only ever holds what the source
    holds (or what it held before): no foreign entry, every file a prefix of the source file or untouched."""
    src, before, after = run_out['src'], run_out['before'], run_out['after']
    for rel, node in after.items():
        if before.get(rel) == node:
            continue
        s = src.get(rel)
        if s is None:
            return 'destination entry %r exists in neither the source nor the previous destination' % rel
        if node[0] != s[0]:
            return 'destination entry %r has kind %s, source has %s' % (rel, node[0], s[0])
        if node[0] == 'link' and node[1] != s[1]:
            return 'destination link %r has a text the source does not have' % rel
        if node[0] == 'file':
            sp = os.path.join(run_out['src_path'], rel); dp = os.path.join(run_out['dest_path'], rel)
            sb, db = open(sp, 'rb').read(), open(dp, 'rb').read()
            if sb[:len(db)] != db:
                return 'destination file %r (%d bytes) is not a prefix of the source file' % (rel, len(db))
    return None


def nonce_oracle(run, binary, log, what):
    """(c) the counter each captured frame was sealed with must be lsb + 2*index: all distinct."""
    key = log['key']
    lines, meta = [], []
    for d in (0, 1):
        for i, f in enumerate(log['frames'][d]):
            lines.append('N %s %d %s' % (key, 2 * len(log['frames'][d]) + 6, fl.hx(f[8:])))
            meta.append((d, i))
    out = vlib.harness(binary, 'frames', lines) if lines else []
    seen = {}
    for (d, i), l in zip(meta, out):
        run.count('e2e-nonce-recovered')
        got = l.split()[1]
        if got != str(d + 2 * i):
            txt = 'frame %d of direction %d of a real session was sealed with counter %s (needs %d)' % (i, d, got, d + 2 * i)
            if got in seen:
                txt += ' - the same (key, nonce) as frame %d of direction %d' % (seen[got][1], seen[got][0])
            return txt
        seen[got] = (d, i)
    return None


def plan_for(rng, op, d, i, forged_hex, sess=0):
    p = {'dir': d, 'index': i, 'op': op, 'session': sess}
    if op == 'flip':
        p['bit'] = rng.randrange(0, 1 << 16)
    if op == 'replay_later':
        p['gap'] = rng.randrange(0, 2)
    if op == 'reflect':
        p['keep'] = rng.random() < 0.5
    if op == 'inject_forged':
        p.update(op='inject', hex=forged_hex, keep=rng.random() < 0.5)
    if op == 'inject_garbage':
        p.update(op='inject', hex=(struct.pack('<Q', 24) + bytes(rng.randrange(256) for _ in range(24))).hex(), keep=True)
    if op == 'inject_oversize':
        p.update(op='inject', hex=struct.pack('<Q', rng.choice([fl.BUF + 1, 1 << 40, (1 << 64) - 1])).hex(), keep=True)
    if op == 'truncate':
        p['keep_bytes'] = rng.choice([0, 1, 8, 9, 20])
    return p


def judge_run(run, binary, placement, plan, base_kinds, n_frames, out, label):
    """Evaluate the oracles on one manipulated run."""
    r, log = out['result'], out['log']
    run.count('e2e:%s:%s' % (placement, label))
    run.count('e2e-exit:%s:dir%d:%s' % (label, plan['dir'], 'timeout' if r['timed_out'] else r['exit']))
    d, i = plan['dir'], plan['index']
    applied = log['applied']
    # number of frames of the manipulated direction that reach the receiver unchanged and in place
    pos = {'dup': i + 1, 'replay_later': i + 2 + plan.get('gap', 0)}.get(plan['op'], i)
    run.case(('e2e', placement, json.dumps(plan, sort_keys=True)), applied,
             sample={'case': {'leg': 'e2e', 'placement': placement, 'plan': {k: (v if k != 'hex' else v[:32] + '..') for k, v in plan.items()}},
                     'impl': 'exit=%s doer_exit=%s cmds=%d frames=%d/%d' % (r['exit'], log['doer_exit'], len(out['cmds']), len(log['frames'][0]), len(log['frames'][1]))})
    replay = {'leg': 'e2e', 'placement': placement, 'plan': plan, 'exit': r['exit'], 'timed_out': r['timed_out'], 'doer_exit': log['doer_exit'],
              'doer_commands': out['cmds'][:60], 'stderr': r['stderr'][-800:]}
    bad = tree_oracle(out)
    if bad:
        run.fail('C10 e2e: ' + bad, replay); return
    if log['key']:
        # what the boss really sent (decrypted with the session key the fake ssh saw), in order
        sent = kinds_of(binary, log['key'], log['frames'][0], 0)
        replay['boss_sent'] = sent[:60]
        cmds = out['cmds']
        if cmds != sent[:len(cmds)]:
            run.fail('C10 e2e: the doer executed %r..., which is not a prefix of the commands the boss sent %r... '
                     '(a manipulated frame was acted upon)' % (cmds[max(0, i - 2):i + 3], sent[max(0, i - 2):i + 3]), replay); return
        if applied and d == 0 and len(cmds) > pos:
            run.fail('C10 e2e: the doer executed %d commands although the stream deviates after %d frames' % (len(cmds), pos), replay); return
    if applied and pos <= n_frames[d] - 1 and not r['timed_out'] and r['exit'] == 0 and 'ERROR' not in r['stderr']:
        # the receiver has to give the connection up, so the frames from the deviation on (at least the final
        # message of the direction) cannot have arrived
        run.fail('C10 e2e: the stream of direction %d was manipulated (%s at frame %d) and the sync completed without any error' % (d, plan['op'], i), replay); return
    run.traces_validated += 1


def cross_open_oracle(run, binary, logs):
    """Where the keys are visible (the fake ssh saw both key lines of a both-remote run): the two links must not
    share a key, and no frame captured on one link may open under the other link's key at its own position
    (frame i of direction d is expected under counter d + 2i) - "accepted only if produced with the session's
    secret key for exactly this position in this direction of the stream"."""
    k0, k1 = logs[0]['key'], logs[1]['key']
    if k0 and k1 and k0.strip().lower() == k1.strip().lower():
        return ('the two boss-doer links of one run (source and destination both remote) use the same key %s: frame i of '
                'one link is sealed under the same (key, nonce) as frame i of the other' % k0)
    lines, meta = [], []
    for a in (0, 1):
        key = logs[1 - a]['key']
        for d in (0, 1):
            for i, f in enumerate(logs[a]['frames'][d][:24]):
                lines.append('O %s %d %d %s' % (key, d + 2 * i, d, fl.hx(f[8:])))
                meta.append((a, d, i))
    out = vlib.harness(binary, 'frames', lines) if lines else []
    for (a, d, i), l in zip(meta, out):
        run.count('e2e-cross-open-tried')
        if l != 'O none':
            return ('frame %d of direction %d captured on link %d opens under the key of link %d at the same position (%s): '
                    'it would be accepted there' % (i, d, a, 1 - a, l))
    return None


def cross_link_leg(run, binary, base, tier):
    """Source and destination both remote: two links in one run.  The man in the middle delivers frame i of
    direction d of one link in place of frame i of direction d of the other link.  The receiver must fail the
    connection and nothing of the foreign frame may be acted upon."""
    pl = 'both_remote'
    b = run_sync(binary, base, 'base_cross', pl, {'op': 'none', 'session': 0})
    r, logs = b['result'], b.get('logs') or []
    ok = (r['exit'] == 0 and not r['timed_out'] and {k: v[:3] for k, v in b['after'].items()} == {k: v[:3] for k, v in b['src'].items()}
          and len(logs) == 2 and all(l['key'] and l['frames'][0] and l['frames'][1] for l in logs))
    run.count('e2e-baseline:%s/cross' % pl)
    run.case(('e2e-baseline', pl, 'cross'), True, sample={'case': {'leg': 'e2e', 'placement': pl, 'plan': 'none'},
             'impl': 'exit=%s frames=%s' % (r['exit'], [[len(l['frames'][0]), len(l['frames'][1])] for l in logs])})
    if not ok:
        run.broke('correspondence', 'e2e-baseline', json.dumps({'placement': pl, 'leg': 'cross', 'exit': r['exit'], 'timed_out': r['timed_out'],
                                                                'stderr': r['stderr'][-1500:], 'keys': [l['key'] for l in logs]}))
        return
    run.traces_validated += 1
    for k, l in enumerate(logs):
        bad = nonce_oracle(run, binary, l, pl)
        if bad:
            run.fail('C10 nonce reuse: ' + bad, {'leg': 'e2e-nonce', 'placement': pl, 'session': k})
            return
    run.count('e2e-keys-of-two-links:' + ('same' if logs[0]['key'] == logs[1]['key'] else 'different'))
    bad = cross_open_oracle(run, binary, logs)
    if bad:
        run.fail('C10 e2e (two links of one run): ' + bad, {'leg': 'e2e-cross', 'placement': pl, 'plan': {'op': 'none', 'session': 0},
                                                              'keys': [l['key'] for l in logs]})
        # go on: the splice below shows the consequence on the real doer
    ns = [{0: len(l['frames'][0]), 1: len(l['frames'][1])} for l in logs]
    run.extra.setdefault('e2e_frames_per_direction', {})['both_remote/cross'] = ns
    idxs = [0, 1, 2, 3] if tier == 'quick' else list(range(0, 8))
    jobs = []
    for sess in (0, 1):
        for d in (0, 1):
            for i in idxs:
                if i < min(ns[0][d], ns[1][d]) - 1:
                    jobs.append((sess, d, i, {'dir': d, 'index': i, 'op': 'cross', 'session': sess, 'wait': 1.5}))

    def one(job):
        sess, d, i, plan = job
        return job, run_sync(binary, base, 'cross%d_%d_%d' % (sess, d, i), pl, plan)
    with ThreadPoolExecutor(max_workers=min(12, vlib.NPROC)) as ex:
        results = list(ex.map(one, jobs))
    applied_b2d = 0
    for (sess, d, i, plan), out in results:
        log = out['log']
        if log['applied'] and d == 0:
            applied_b2d += 1
        if log['applied'] and log['identical']:
            run.fail('C10 e2e (two links of one run): frame %d of direction %d is the same ciphertext on both links - the same plaintext '
                     'sealed under the same key and nonce twice' % (i, d), {'leg': 'e2e-cross', 'placement': pl, 'plan': plan})
            run.count('e2e:%s:cross-identical' % pl)
            shutil.rmtree(os.path.dirname(out['src_path']), ignore_errors=True)
            continue          # (the delivered stream does not deviate from the honest one: nothing more to judge)
        judge_run(run, binary, pl, plan, None, ns[sess], out, 'cross')
        shutil.rmtree(os.path.dirname(out['src_path']), ignore_errors=True)
    run.extra['e2e_cross_link_applied_boss_to_doer'] = applied_b2d
    if applied_b2d == 0:
        run.broke('correspondence', 'e2e-cross-link-vacuous', 'no boss->doer frame of one link could be delivered on the other link (%d runs)' % len(jobs))


def wrong_key_leg(run, binary, base):
    """A doer started directly with a known key; the peer does not hold it."""
    rng = run.rng
    variants = ['right-key', 'wrong-key', 'garbage', 'own-key-other-direction']
    for v in variants:
        d = os.path.join(base, 'wk_' + v)
        os.makedirs(d)
        root = os.path.join(d, 'a', 'b', 'c', 'target')
        key = bytes(rng.randrange(256) for _ in range(16)).hex()
        other = bytes(rng.randrange(256) for _ in range(16)).hex()
        cmdlog = os.path.join(d, 'cmds.log')
        env = dict(os.environ); env['RJRSSYNC_VERIF_CMD_LOG'] = cmdlog; env.pop('RUST_LOG', None)
        if v in ('right-key', 'wrong-key'):
            wire = fl.unhx(fl.kv(vlib.harness(binary, 'frames', ['C %s %s' % (key if v == 'right-key' else other, root.encode().hex())])[0])['wire'])
        elif v == 'garbage':
            wire = struct.pack('<Q', 40) + bytes(rng.randrange(256) for _ in range(40))
        else:
            # frames sealed under the right key but with the doer's own sending nonces (reflection material)
            wire = fl.unhx(fl.kv(vlib.harness(binary, 'frames', ['S %s 1 1 2 z:1:10:1 z:2:0:0' % key])[0])['wire'])
        p = subprocess.Popen([binary, '--doer'], stdin=subprocess.PIPE, stdout=subprocess.PIPE, stderr=subprocess.PIPE, env=env)
        try:
            p.stdin.write((key + '\n').encode()); p.stdin.flush()
            port = None
            t0 = time.time()
            while time.time() - t0 < 20:
                line = p.stdout.readline().decode('utf-8', 'replace')
                if not line:
                    break
                if line.startswith(MARK):
                    port = int(line[len(MARK):].strip()); break
            if port is None:
                raise vlib.BrokenTie('doer did not announce a port')
            s = socket.create_connection(('127.0.0.1', port))
            s.sendall(wire)
            s.shutdown(socket.SHUT_WR)
            try:
                rc = p.wait(timeout=20)
            except subprocess.TimeoutExpired:
                rc = None
            s.close()
        finally:
            if p.poll() is None:
                p.kill(); p.wait()
        cmds = read_cmds(cmdlog)
        made = os.path.isdir(os.path.join(d, 'a'))
        run.count('doer-direct:' + v)
        run.case(('doer-direct', v), v != 'right-key', sample={'case': {'leg': 'doer-direct', 'variant': v}, 'impl': 'exit=%s cmds=%r created=%s' % (rc, cmds, made)})
        run.traces_validated += 1
        replay = {'leg': 'doer-direct', 'variant': v, 'exit': rc, 'commands': cmds, 'created_ancestors': made}
        if v == 'right-key':
            # positive control: the observation channel works
            if cmds[:2] != ['SetRoot', 'CreateRootAncestors'] or not made or rc != 0:
                run.broke('correspondence', 'doer-direct-control', json.dumps(replay))
        else:
            if cmds or made:
                run.fail('C10: a doer performed commands %r for a peer that does not hold the key (%s)' % (cmds, v), replay)
            elif rc is None:
                # (the doer treats a failed link as "boss disconnected" and exits 0; what the property needs is
                # that it acts on nothing and gives the connection up)
                run.fail('C10: a doer talking to a peer without the key (%s) keeps the connection (no exit within 20 s)' % v, replay)


def run_e2e(run, binary, tier):
    rng = run.rng
    base = tempfile.mkdtemp(prefix='c10e2e_', dir=vlib.CACHE)
    try:
        wrong_key_leg(run, binary, base)
        cross_link_leg(run, binary, base, tier)
        forged = fl.unhx(fl.kv(vlib.harness(binary, 'frames', ['S %s 0 0 1 z:5:40:9' % ('5a' * 16)])[0])['wire']).hex()
        placements = [('dest_remote', 0), ('src_remote', 0)] + ([('both_remote', 0), ('both_remote', 1)] if tier == 'thorough' else [])
        for pl, sess in placements:
            b = run_sync(binary, base, 'base_%s%d' % (pl, sess), pl, {'op': 'none', 'session': sess})
            r, log = b['result'], b['log']
            ok = r['exit'] == 0 and not r['timed_out'] and {k: v[:3] for k, v in b['after'].items()} == {k: v[:3] for k, v in b['src'].items()} and log['key']
            run.count('e2e-baseline:%s/%d' % (pl, sess))
            run.case(('e2e-baseline', pl, sess), True, sample={'case': {'leg': 'e2e', 'placement': pl, 'plan': 'none'},
                                                         'impl': 'exit=%s frames=%d/%d' % (r['exit'], len(log['frames'][0]), len(log['frames'][1]))})
            if not ok:
                run.broke('correspondence', 'e2e-baseline', json.dumps({'placement': pl, 'exit': r['exit'], 'timed_out': r['timed_out'], 'stderr': r['stderr'][-1500:], 'key': log['key']}))
                continue
            run.traces_validated += 1
            bad = nonce_oracle(run, binary, log, pl)
            if bad:
                run.fail('C10 nonce reuse: ' + bad, {'leg': 'e2e-nonce', 'placement': pl})
                continue
            n = {0: len(log['frames'][0]), 1: len(log['frames'][1])}
            run.extra.setdefault('e2e_frames_per_direction', {})['%s/session%d' % (pl, sess)] = n
            idxs = list(range(0, 13)) if tier == 'thorough' else [0, 1, 2, 3, 5, 8, 12]
            jobs = []
            for op in OPS:
                for d in (0, 1):
                    for i in idxs:
                        if i < n[d] - 1:
                            jobs.append((op, d, i, plan_for(rng, op, d, i, forged, sess)))
            if tier == 'quick':
                # one index per (op, direction) is rotated in by the seed, the low indices always run
                jobs = [j for j in jobs if j[2] in (0, 1, 2) or (j[2] + run.seed) % 2 == 0]

            def one(job):
                op, d, i, plan = job
                return job, run_sync(binary, base, '%s%d_%s_%d_%d' % (pl, sess, op, d, i), pl, plan)
            with ThreadPoolExecutor(max_workers=min(12, vlib.NPROC)) as ex:
                results = list(ex.map(one, jobs))
            for (op, d, i, plan), out in results:
                judge_run(run, binary, pl, plan, None, n, out, op)
                shutil.rmtree(os.path.dirname(out['src_path']), ignore_errors=True)
    finally:
        shutil.rmtree(base, ignore_errors=True)


def replay_e2e(run, binary, r):
    base = tempfile.mkdtemp(prefix='c10e2e_', dir=vlib.CACHE)
    try:
        if r.get('leg') == 'doer-direct':
            wrong_key_leg(run, binary, base)
        elif r.get('leg') == 'e2e-cross' or (r.get('plan') or {}).get('op') == 'cross':
            cross_link_leg(run, binary, base, run.tier)
        else:
            pl = r.get('placement', 'dest_remote')
            b = run_sync(binary, base, 'base', pl, {'op': 'none'})
            bad = nonce_oracle(run, binary, b['log'], pl)
            if bad:
                run.fail('C10 nonce reuse: ' + bad, {'leg': 'e2e-nonce', 'placement': pl})
            n = {0: len(b['log']['frames'][0]), 1: len(b['log']['frames'][1])}
            if 'plan' in r:
                out = run_sync(binary, base, 'case', pl, r['plan'])
                judge_run(run, binary, pl, r['plan'], None, n, out, r['plan'].get('op', '?'))
    finally:
        shutil.rmtree(base, ignore_errors=True)
