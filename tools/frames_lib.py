"""Helpers of the frame checks (C10, C14 stream half): message encoding of the harness message type,
frame splitting, the manipulation scripts an attacker on the TCP link can apply, the property
oracle written from the C10 text, and the drivers for harness sub-command `frames` / judge `frames`."""
import struct, os, json

BUF = 8 * 1024 * 1024
FINAL_ID = 0xFFFFFFFF


# ------------------------------------------------------------------------------------------------
# messages of a history:  ('m', id, size, fill) normal | ('s', byte) one byte that does not deserialize
def plain_of(msg):
    """The bincode plaintext the real `send` produces for this message (FrMsg{id:u32, payload:Vec<u8>} / u8)."""
    if msg[0] == 's':
        return bytes([msg[1]])
    _, mid, size, fill = msg
    return struct.pack('<IQ', mid, size) + bytes([fill]) * size


def spec_of(msg):
    if msg[0] == 's':
        return 's:%d' % msg[1]
    return 'z:%d:%d:%d' % (msg[1], msg[2], msg[3])


def msg_id(msg):
    return None if msg[0] == 's' else msg[1]


def hx(b):
    return b.hex() if b else '-'


def unhx(s):
    return b'' if s == '-' else bytes.fromhex(s)


def split_frames(wire):
    """Honest wire bytes -> list of frames (header included)."""
    out, p = [], 0
    while p < len(wire):
        n = struct.unpack('<Q', wire[p:p + 8])[0]
        out.append(wire[p:p + 8 + n])
        p += 8 + n
    assert p == len(wire)
    return out


def kv(line):
    return dict(x.split('=', 1) for x in line.split()[1:])


# ------------------------------------------------------------------------------------------------
# manipulations.  A manipulation is a dict {'op': ..., 'i': frame index, ...}; applied to the list of
# honest frames of the attacked direction, with the frames of the other direction (for reflection)
# and frames made with another key (forgery) at hand.  Returns the bytes put on the wire.
OPS = ['none', 'flip_len', 'flip_body', 'flip_tag', 'truncate_close', 'truncate_cont', 'shorten', 'dup', 'replay_later',
       'swap', 'drop', 'reflect', 'reflect_replace', 'forge', 'forge_insert', 'garbage', 'oversize', 'zero_len']


def flip(b, bit):
    b = bytearray(b)
    b[bit // 8] ^= 1 << (bit % 8)
    return bytes(b)


def apply_manip(m, frames, other, forged):
    fr = list(frames)
    op, i = m['op'], m.get('i', 0)
    n = len(fr)
    if op == 'none':
        pass
    elif op == 'flip_len':
        fr[i] = flip(fr[i], m['bit'] % 64)
    elif op == 'flip_body':
        body = len(fr[i]) - 8
        if body > 0:
            fr[i] = flip(fr[i], 64 + m['bit'] % (8 * body))
    elif op == 'flip_tag':
        body = len(fr[i]) - 8
        if body > 0:
            t = min(16, body)
            fr[i] = flip(fr[i], 8 * (len(fr[i]) - t) + m['bit'] % (8 * t))
    elif op == 'truncate_close':
        keep = m['keep'] % len(fr[i])          # 0 .. len-1 bytes of frame i, then the connection closes
        fr = fr[:i] + [fr[i][:keep]]
    elif op == 'truncate_cont':
        cut = 1 + m['cut'] % (len(fr[i]) - 1)
        fr[i] = fr[i][:len(fr[i]) - cut]       # bytes vanish from the stream, the rest follows
    elif op == 'shorten':
        body = fr[i][8:]
        cut = 1 + m['cut'] % len(body)
        nb = body[:len(body) - cut]
        fr[i] = struct.pack('<Q', len(nb)) + nb
    elif op == 'dup':
        fr = fr[:i + 1] + [fr[i]] + fr[i + 1:]
    elif op == 'replay_later':
        at = min(n, i + 2 + m.get('gap', 0))
        fr = fr[:at] + [fr[i]] + fr[at:]
    elif op == 'swap':
        j = m['j'] % n
        fr[i], fr[j] = fr[j], fr[i]
    elif op == 'drop':
        del fr[i]
    elif op == 'reflect':
        fr = fr[:i] + [other[m['o'] % len(other)]] + fr[i:]
    elif op == 'reflect_replace':
        fr[i] = other[m['o'] % len(other)]
    elif op == 'forge':
        fr[i] = forged[i]
    elif op == 'forge_insert':
        fr = fr[:i] + [forged[i]] + fr[i:]
    elif op == 'garbage':
        fr = fr[:i] + [bytes.fromhex(m['bytes'])] + fr[i:]
    elif op == 'oversize':
        fr[i] = struct.pack('<Q', m['len']) + fr[i][8:]
    elif op == 'zero_len':
        fr = fr[:i] + [struct.pack('<Q', 0)] + fr[i:]
    else:
        raise ValueError(op)
    return b''.join(fr)


def segment(wire, cuts):
    """Split wire at the given sorted cut offsets (TCP segmentation)."""
    out, p = [], 0
    for c in cuts:
        if p < c < len(wire):
            out.append(wire[p:c]); p = c
    out.append(wire[p:])
    return [s for s in out if s] or [b'']


# ------------------------------------------------------------------------------------------------
# property oracle, from the C10 text:  a frame is accepted only if it was produced with the session
# key for exactly this position in this direction; after the first frame that is not, the receiver
# fails the connection and nothing further is acted upon.
def leading_honest(frames, wire):
    j, p = 0, 0
    for f in frames:
        if wire[p:p + len(f)] == f:
            j += 1; p += len(f)
        else:
            break
    return j, p


def oracle(history, frames, wire, delivered_ids, end):
    """history: messages of this direction (in order), frames: their honest frames, wire: the bytes the
    receiver was given (then EOF), delivered_ids/end: what the implementation did.  Returns None or a text."""
    sent_ids = [msg_id(m) for m in history]
    j, p = leading_honest(frames, wire)
    k = len(delivered_ids)
    if delivered_ids != sent_ids[:k] or None in sent_ids[:k]:
        return 'delivered %r is not a prefix of what this direction sent %r (frame accepted out of position)' % (delivered_ids[:20], sent_ids[:20])
    if k > j:
        return 'delivered %d messages but only the first %d frames on the wire are the honest frames in order' % (k, j)
    finished = end == 'finished'
    last_final = k > 0 and delivered_ids[-1] == FINAL_ID
    if finished != last_final:
        return 'receiver ended %r although the last delivered message is %sthe final one' % (end, '' if last_final else 'not ')
    if not finished and p < len(wire) and end in ('waiting',):
        return 'receiver keeps going after a deviating frame'
    return None


# ------------------------------------------------------------------------------------------------
class Session:
    """One key, two directions, one history each; honest frames from the real `send` and from the model."""

    def __init__(self, key_hex, hist0, hist1, start=(0, 1)):
        self.key, self.hist, self.start = key_hex, (hist0, hist1), start
        self.real = [None, None]      # honest frames (real)
        self.model = [None, None]     # honest frames (model)
        self.real_end = [None, None]
        self.model_end = [None, None]

    def other_key(self):
        b = bytearray(bytes.fromhex(self.key)); b[0] ^= 0x5a; b[15] ^= 1
        return bytes(b).hex()

    def send_lines(self, d, key=None, bump=1):
        key = key or self.key
        h = self.hist[d]
        real = 'S %s %d %d %d %s' % (key, d, self.start[d], len(h), ' '.join(spec_of(m) for m in h))
        model = 'S %d %s %d %d %d %s' % (bump, key, d, self.start[d], len(h), ' '.join(hx(plain_of(m)) for m in h))
        return real, model

    def recv_lines(self, d, segs_real, segs_model, mode='d', bump=1, start=None):
        st = self.start[d] if start is None else start
        real = 'R %s %s %d %d %d %s' % (mode, self.key, d, st, len(segs_real), ' '.join(hx(s) for s in segs_real))
        p0 = [hx(plain_of(m)) for m in self.hist[0]]
        p1 = [hx(plain_of(m)) for m in self.hist[1]]
        model = 'R %d %s %d %d %d %d %d %s %d %s %d %s' % (bump, self.key, d, st, self.start[0], self.start[1],
                                                         len(p0), ' '.join(p0), len(p1), ' '.join(p1),
                                                         len(segs_model), ' '.join(hx(s) for s in segs_model))
        return real, ' '.join(model.split())
