#!/usr/bin/env python3
"""One-off generator of the F9 witnesses: writes corpus/C19/F9-*.json (replayed first by every run of
./check C19) and coq/theories/Model/ExeWitness.v (the same bytes as Gallina terms, for the
C19_no_panic_refuted theorems).  Deterministic; the outputs are committed."""
import os, sys, json, struct, random
sys.path.insert(0, os.path.dirname(os.path.abspath(__file__)))
import exe_lib as X

VERIF = os.path.dirname(os.path.dirname(os.path.abspath(__file__)))


def small_pe(fa=512, nsec=1, gap=100):
    rng = random.Random(7)
    b, info = X.PeLayout(nsec, fa, gap, soh=64).build(rng)
    return bytearray(b), info


def small_elf():
    rng = random.Random(7)
    b, info = X.ElfLayout([b'.text'], 1, phdr_gap=0, pads=[0, 0], datas=[b'CODE', None]).build(rng)
    return bytearray(b), info


def main():
    W = []   # (id, op, exe, name, payload, expect original debug, expect original release, what)
    pe, i = small_pe(fa=512)
    oh = i['sig'] + 24
    b = bytearray(pe); struct.pack_into('<I', b, oh + 36, 0)
    W.append(('pe_fa0', 'add-pe', bytes(b), X.NAME, b'abc', 'PANIC div', 'PANIC div', 'PE with FileAlignment = 0: division by zero in align'))
    W.append(('pe_trunc', 'add-pe', bytes(pe[:i['hend']]), X.NAME, b'abc', 'PANIC index', 'PANIC index', 'PE truncated right after the section headers: slice index out of range'))
    b = bytearray(pe); struct.pack_into('<H', b, i['sig'] + 6, 0)
    W.append(('pe_nosec', 'add-pe', bytes(b), X.NAME, b'abc', 'PANIC sub', 'OK', 'PE with zero sections: orig_num_sections - 1 underflows (debug build)'))
    W.append(('pe_empty', 'add-pe', bytes(pe), X.NAME, b'', 'PANIC sub', 'OK', 'empty payload: align(0, file_alignment) computes 0 - 1 (debug build)'))
    b = bytearray(pe); struct.pack_into('<H', b, i['sig'] + 6, 0xFFFF)
    W.append(('pe_ffff', 'add-pe', bytes(b), X.NAME, b'abc', 'PANIC add', None, 'PE with 0xFFFF sections: orig_num_sections + 1 overflows u16 (debug build)'))
    b = bytearray(pe); struct.pack_into('<I', b, i['sig'] + 24 + 64 + 20, len(pe) + 1)
    W.append(('pe_split', 'extract-pe', bytes(b), b'.s0', b'', 'PANIC split', 'PANIC split', 'PE section whose PointerToRawData lies beyond the file: split_off panics'))
    elf, j = small_elf()
    ni = j['names_idx']
    b = bytearray(elf); struct.pack_into('<Q', b, j['shoff'] + ni * 0x40 + 0x20, len(elf))
    W.append(('elf_names_out', 'add-elf', bytes(b), X.NAME, b'abc', 'PANIC index', 'PANIC index', 'ELF whose names section ends outside the file: splice range panic'))
    b = bytearray(elf); struct.pack_into('<Q', b, j['shoff'] + 1 * 0x40 + 0x18, len(elf) + 1)
    W.append(('elf_split', 'extract-elf', bytes(b), b'.text', b'', 'PANIC split', 'PANIC split', 'ELF section whose sh_offset lies beyond the file: split_off panics'))
    b = bytearray(elf); struct.pack_into('<Q', b, 0x28, 0xFFFFFFFFFFFFFFFF)
    W.append(('elf_shoff_max', 'extract-elf', bytes(b), b'.text', b'', 'PANIC add', 'ERR other', 'ELF with e_shoff = 2^64-1: offset addition overflows (debug build)'))
    b = bytearray(elf[:0x40]); struct.pack_into('<Q', b, 0x28, 0xFFFFFFFFFFFFFFFF); struct.pack_into('<HHH', b, 0x3A, 0x41, 1, 0)
    W.append(('elf_shoff_wrap', 'add-elf', bytes(b), X.NAME, b'abc', 'PANIC add', 'PANIC split', 'ELF with e_shoff = 2^64-1 and e_shentsize = len+1: the size check wraps in release builds and split_off panics'))

    # two valid files for the non-vacuity Examples of Props/C19.v (not part of the corpus)
    pe16, _ = small_pe(fa=16, nsec=1, gap=0)
    V = [('elf_ok', bytes(elf), 'a valid small ELF64 (null, .text, .shstrtab)'),
         ('pe_ok', bytes(pe), 'a valid small PE (1 section, FileAlignment 512, room for a header after the section headers)'),
         ('pe16_ok', bytes(pe16), 'a valid small PE (1 section, FileAlignment 16, no room after the section headers)')]
    for (wid, op, exe, name, payload, dbg, rel, what) in W:
        with open(os.path.join(VERIF, 'corpus', 'C19', 'F9-%s.json' % wid), 'w') as f:
            json.dump({'id': 'F9-' + wid, 'op': op, 'exe': exe.hex(), 'name': name.hex(), 'payload': payload.hex(),
                       'original_debug': dbg, 'original_release': rel, 'what': what}, f, indent=1)
    v = ['(* GENERATED ONCE by tools/gen_c19_witness.py (committed): the F9 witnesses as byte lists. *)',
         'From RJ Require Import Base.Prelude Model.LE.', 'Local Open Scope N_scope.', '',
         'Definition bytes_of (l : list N) : list byte := map n2b l.', '']
    for (wid, op, exe, name, payload, dbg, rel, what) in W:
        v.append('(* %s *)' % what)
        v.append('Definition w_%s : list byte := bytes_of [%s].' % (wid, '; '.join(str(x) for x in exe)))
        v.append('')
    for (wid, exe, what) in V:
        v.append('(* %s *)' % what)
        v.append('Definition w_%s : list byte := bytes_of [%s].' % (wid, '; '.join(str(x) for x in exe)))
        v.append('')
    v.append('Definition w_name : list byte := bytes_of [%s].   (* ".rjembed" *)' % '; '.join(str(x) for x in X.NAME))
    v.append('Definition w_name_s0 : list byte := bytes_of [%s].   (* ".s0" *)' % '; '.join(str(x) for x in b'.s0'))
    v.append('Definition w_name_text : list byte := bytes_of [%s].   (* ".text" *)' % '; '.join(str(x) for x in b'.text'))
    v.append('Definition w_abc : list byte := bytes_of [97; 98; 99].')
    with open(os.path.join(VERIF, 'coq', 'theories', 'Model', 'ExeWitness.v'), 'w') as f:
        f.write('\n'.join(v) + '\n')
    print('wrote %d witnesses' % len(W))


if __name__ == '__main__':
    main()
