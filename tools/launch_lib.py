"""Helpers of the C15 check: a scriptable fake `ssh` and `scp` (python scripts written into a
temporary directory that is put first on PATH), the simulated remote hosts, and parsing of what
they logged.

Simulated remote host H = directory  <root>/hosts/H ; its /var/tmp is <root>/hosts/H/var/tmp, so
the deployed doer lives at <root>/hosts/H/var/tmp/rjrssync/rjrssync.  That file *is* the remote
state:  absent | a copy of the binary under test (same version) | a script announcing another
version | a broken program.  A deployment through the fake scp really replaces it.

Plan file (JSON, path in $FAKE_PLAN):
  {"gap_ms": 25,
   "hosts": {"H": {"launches": [<launch plan>, ...],      # consumed one per launch, then "auto"
                   "ostest": "ok"|"fail"|"windows"|"unknown",
                   "scp": "copy"|"drop"|"fail", "chmod": "ok"|"fail"}}}
  launch plan:
    {"mode": "auto"}                          run the remote file directly (plain pass-through)
    {"mode": "wrap", "order": [tok, ...]}     run the remote file behind pipes and forward its four
         handshake lines in the given order with injected noise:  tok = "So" "Se" "Co" "Ce"
         | ["n", "o"|"e", text].  The key line is read from the boss and forwarded to the doer
         right before the first Completed token (a doer prints them only after it has the key).
    {"mode": "script", "steps": [step, ...]}  no doer at all, play the steps:
         ["o", text] ["e", text]   write text + newline      ["O", hex] ["E", hex]  raw bytes
         ["k"]  wait (<= key_wait_ms) for one line on stdin   ["co"] ["ce"]  close the stream
         ["x", code] exit now        ["sleep", ms]
Log file ($FAKE_LOG): one JSON object per line, see the `log(...)` calls.
"""
import os, sys, json, stat, shutil, hashlib

FAKE_SSH = r'''#!/usr/bin/env python3
import os, sys, json, time, subprocess, threading, select, re, fcntl

ROOT = os.environ['FAKE_ROOT']; LOG = os.environ['FAKE_LOG']
PLAN = json.load(open(os.environ['FAKE_PLAN'])) if os.environ.get('FAKE_PLAN') else {}
GAP = PLAN.get('gap_ms', 25) / 1000.0
KEYWAIT = PLAN.get('key_wait_ms', 400) / 1000.0
STARTED = os.environ.get('FAKE_STARTED_PREFIX', 'rjrssync doer v')
COMPLETED = os.environ.get('FAKE_COMPLETED_PREFIX', 'Waiting for incoming network connection on port ')

def log(**kw):
    kw['t'] = time.time(); kw['pid'] = os.getpid()
    with open(LOG, 'a') as f:
        fcntl.flock(f, fcntl.LOCK_EX)
        f.write(json.dumps(kw) + '\n')

target, command = sys.argv[1], sys.argv[2]
host = target.split('@')[-1]
hroot = os.path.join(ROOT, 'hosts', host)
hplan = PLAN.get('hosts', {}).get(host, {})

def launch_number():
    n = 0
    try:
        for l in open(LOG):
            d = json.loads(l)
            if d.get('tool') == 'ssh' and d.get('kind') == 'launch' and d.get('host') == host and d.get('ev') == 'begin':
                n += 1
    except OSError:
        pass
    return n

def out_write(fd, data):
    try:
        os.write(fd, data)
    except OSError:
        pass

def read_line_fd(fd, timeout):
    """One line (bytes, without newline) from fd, None on EOF before any byte, 'timeout' on timeout."""
    buf = b''
    end = None if timeout is None else time.time() + timeout
    while True:
        if end is not None:
            left = end - time.time()
            if left <= 0:
                return 'timeout'
            r, _, _ = select.select([fd], [], [], left)
            if not r:
                return 'timeout'
        c = os.read(fd, 1)
        if c == b'':
            return buf if buf else None
        if c == b'\n':
            return buf
        buf += c

if '--doer' in command:
    n = launch_number()
    plans = hplan.get('launches', [])
    plan = plans[n] if n < len(plans) else {'mode': 'auto'}
    line = [l for l in command.split('\n') if '--doer' in l and not l.startswith('echo')]
    argv = (line[0] if line else command.split('\n')[-1]).split()
    exe = hroot + argv[0] if argv[0].startswith('/') else argv[0]
    log(tool='ssh', kind='launch', ev='begin', host=host, target=target, n=n, mode=plan['mode'], exe_exists=os.path.exists(exe))
    if plan['mode'] == 'script':
        keys = []
        for st in plan['steps']:
            op = st[0]
            if op in ('o', 'e'):
                out_write(1 if op == 'o' else 2, st[1].encode('utf-8', 'surrogateescape') + b'\n'); time.sleep(GAP)
            elif op in ('O', 'E'):
                out_write(1 if op == 'O' else 2, bytes.fromhex(st[1])); time.sleep(GAP)
            elif op == 'k':
                l = read_line_fd(0, KEYWAIT)
                if l == 'timeout': log(tool='ssh', kind='launch', ev='nokey', host=host, n=n, why='timeout')
                elif l is None: log(tool='ssh', kind='launch', ev='nokey', host=host, n=n, why='eof')
                else:
                    keys.append(l.decode('latin1')); log(tool='ssh', kind='launch', ev='key', host=host, n=n, line=l.decode('latin1'))
                time.sleep(GAP)
            elif op == 'co':
                os.close(1); time.sleep(GAP)
            elif op == 'ce':
                os.close(2); time.sleep(GAP)
            elif op == 'sleep':
                time.sleep(st[1] / 1000.0)
            elif op == 'x':
                log(tool='ssh', kind='launch', ev='end', host=host, n=n, keys=keys)
                os._exit(st[1])
        # closing our streams lets the boss finish; whatever else it wrote is a key line too
        for fd in (1, 2):
            try: os.close(fd)
            except OSError: pass
        while True:
            l = read_line_fd(0, 2.0)
            if l is None or l == 'timeout': break
            keys.append(l.decode('latin1')); log(tool='ssh', kind='launch', ev='key', host=host, n=n, line=l.decode('latin1'), late=True)
        log(tool='ssh', kind='launch', ev='end', host=host, n=n, keys=keys)
        os._exit(0)
    if not os.path.exists(exe):
        out_write(2, ('bash: line 2: %s: No such file or directory\n' % argv[0]).encode())
        log(tool='ssh', kind='launch', ev='end', host=host, n=n, keys=[], absent=True)
        os._exit(127)
    if not os.access(exe, os.X_OK):
        out_write(2, ('bash: line 2: %s: Permission denied\n' % argv[0]).encode())
        log(tool='ssh', kind='launch', ev='end', host=host, n=n, keys=[], noexec=True)
        os._exit(126)
    if plan['mode'] == 'auto':
        os.execv(exe, [exe] + argv[1:])
    # ---- wrap: the remote program behind pipes
    child = subprocess.Popen([exe] + argv[1:], stdin=subprocess.PIPE, stdout=subprocess.PIPE, stderr=subprocess.PIPE)
    cin, cout, cerr = child.stdin.fileno(), child.stdout.fileno(), child.stderr.fileno()
    emitted, keys, announced = [], [], None

    def child_line(fd, prefix):
        """Next line of the child on fd that starts with prefix; other lines are passed on at once as noise."""
        while True:
            l = read_line_fd(fd, 10.0)
            if l is None or l == 'timeout':
                return None
            if l.decode('latin1').startswith(prefix):
                return l
            out_write(1 if fd == cout else 2, l + b'\n'); emitted.append('x' + ('o' if fd == cout else 'e')); time.sleep(GAP)

    held = {}
    held['So'] = child_line(cout, STARTED); held['Se'] = child_line(cerr, STARTED)
    if held['So'] is not None:
        announced = held['So'].decode('latin1')[len(STARTED):]
    key_forwarded = False
    early_key = False
    pending = b''
    for tok in plan['order']:
        if isinstance(tok, list):
            out_write(1 if tok[1] == 'o' else 2, tok[2].encode() + b'\n'); emitted.append('n' + tok[1]); time.sleep(GAP)
            continue
        if tok in ('Co', 'Ce') and not key_forwarded:
            l = read_line_fd(0, 10.0)
            if l is None or l == 'timeout':
                log(tool='ssh', kind='launch', ev='nokey', host=host, n=n, why='eof' if l is None else 'timeout', after=list(emitted))
                break
            l = pending + l; pending = b''
            keys.append(l.decode('latin1'))
            log(tool='ssh', kind='launch', ev='key', host=host, n=n, line=l.decode('latin1'), after=list(emitted))
            out_write(cin, l + b'\n'); key_forwarded = True
            held['Co'] = child_line(cout, COMPLETED); held['Ce'] = child_line(cerr, COMPLETED)
        if tok == 'So' and not key_forwarded and select.select([0], [], [], 0)[0]:
            b0 = os.read(0, 1)    # readable: data (a key written too early) or just EOF (the boss gave up already)
            if b0:
                early_key = True; pending = b0
        l = held.get(tok)
        if l is None:
            break
        out_write(1 if tok[1] == 'o' else 2, l + b'\n'); emitted.append(tok); time.sleep(GAP)
    log(tool='ssh', kind='launch', ev='handshake-done', host=host, n=n, emitted=emitted, keys=keys, announced=announced, early_key=early_key)
    # ---- then a transparent bridge until the doer exits
    def pump(src, dst, close_dst=False, count=None):
        while True:
            try:
                b = os.read(src, 65536)
            except OSError:
                break
            if not b:
                break
            if count is not None: count.append(b)
            out_write(dst, b)
        if close_dst:
            try: os.close(dst)
            except OSError: pass
    extra = []
    t1 = threading.Thread(target=pump, args=(cout, 1), daemon=True); t2 = threading.Thread(target=pump, args=(cerr, 2), daemon=True)
    t3 = threading.Thread(target=pump, args=(0, cin, True, extra), daemon=True)
    t1.start(); t2.start(); t3.start()
    rc = child.wait()
    t1.join(2); t2.join(2)
    log(tool='ssh', kind='launch', ev='end', host=host, n=n, keys=keys, rc=rc, extra_stdin=sum(len(x) for x in extra))
    os._exit(rc if rc >= 0 else 1)
elif 'Remote system is' in command:
    mode = hplan.get('ostest', 'ok')
    log(tool='ssh', kind='ostest', host=host, target=target, mode=mode)
    if mode == 'fail':
        out_write(2, b'ssh: connect to host: Connection refused\n'); os._exit(255)
    if mode == 'windows':
        out_write(1, b'Remote system is Windows AMD64\n'); os._exit(0)
    if mode == 'unknown':
        out_write(1, b'Remote system is Plan9 mips\n'); os._exit(0)
    os.execv('/bin/sh', ['sh', '-c', command])
else:
    m = re.search(r'cd (\S+) && chmod \+x (\S+)', command)
    if m:
        mode = hplan.get('chmod', 'ok')
        log(tool='ssh', kind='chmod', host=host, target=target, mode=mode, dir=m.group(1))
        if mode == 'fail':
            out_write(2, b'chmod: Operation not permitted\n'); os._exit(1)
        p = os.path.join(hroot + m.group(1), m.group(2))
        try:
            os.chmod(p, 0o755)
        except OSError as e:
            out_write(2, ('chmod: %s\n' % e).encode()); os._exit(1)
        os._exit(0)
    log(tool='ssh', kind='other', host=host, target=target, command=command[:200])
    os.execv('/bin/sh', ['sh', '-c', command])
'''

FAKE_SCP = r'''#!/usr/bin/env python3
import os, sys, json, time, shutil, hashlib, fcntl
ROOT = os.environ['FAKE_ROOT']; LOG = os.environ['FAKE_LOG']
PLAN = json.load(open(os.environ['FAKE_PLAN'])) if os.environ.get('FAKE_PLAN') else {}
args = [a for a in sys.argv[1:] if not a.startswith('-')]
src, dst = args[0], args[1]
target, rpath = dst.split(':', 1)
host = target.split('@')[-1]
mode = PLAN.get('hosts', {}).get(host, {}).get('scp', 'copy')
files = {}
for r, _, fs in os.walk(src):
    for f in fs:
        p = os.path.join(r, f)
        files[os.path.relpath(p, os.path.dirname(src))] = hashlib.sha256(open(p, 'rb').read()).hexdigest()
with open(LOG, 'a') as f:
    fcntl.flock(f, fcntl.LOCK_EX)
    f.write(json.dumps({'tool': 'scp', 'host': host, 'target': target, 'rpath': rpath, 'mode': mode, 'files': files, 't': time.time()}) + '\n')
if mode == 'fail':
    sys.stderr.write('scp: Connection closed\n'); sys.exit(1)
if mode == 'copy':
    d = os.path.join(ROOT, 'hosts', host) + rpath
    os.makedirs(d, exist_ok=True)
    dest = os.path.join(d, os.path.basename(src))
    # a running program cannot be overwritten in place (ETXTBSY): replace the files
    for r, _, fs in os.walk(src):
        rel = os.path.relpath(r, src)
        os.makedirs(os.path.join(dest, rel), exist_ok=True)
        for f in fs:
            t = os.path.join(dest, rel, f)
            tmp = t + '.scp-tmp'
            shutil.copyfile(os.path.join(r, f), tmp)       # like scp: content only, default mode
            os.chmod(tmp, 0o644)
            os.replace(tmp, t)
sys.exit(0)
'''

OTHER_VERSION_DOER = r'''#!/bin/sh
# a doer of another version: announces itself on both streams, then records whatever it is sent
echo "%(prefix)s%(version)s"
echo "%(prefix)s%(version)s" >&2
while IFS= read -r l; do printf '%%s\n' "$l" >> "$FAKE_LEAKS"; done
exit 0
'''

BROKEN = {
    'silent': '#!/bin/sh\nexit 0\n',
    'segv': '#!/bin/sh\necho "Segmentation fault (core dumped)" >&2\nexit 139\n',
    'garbage': '#!/bin/sh\necho "ELF garbage \\001\\002"\necho "cannot execute binary file: Exec format error" >&2\nexit 126\n',
}


def install_tools(base):
    """Writes fake ssh and scp into <base>/fakebin and returns that directory."""
    d = os.path.join(base, 'fakebin')
    os.makedirs(d, exist_ok=True)
    for name, text in (('ssh', FAKE_SSH), ('scp', FAKE_SCP)):
        p = os.path.join(d, name)
        with open(p, 'w') as f:
            f.write(text)
        os.chmod(p, 0o755)
    return d


def remote_bin_path(root, host):
    return os.path.join(root, 'hosts', host, 'var', 'tmp', 'rjrssync', 'rjrssync')


def set_remote_state(root, host, state, binary, started_prefix='rjrssync doer v'):
    """state: 'absent' | 'same' | 'other:<version>' | 'broken:<kind>' | 'noexec'"""
    p = remote_bin_path(root, host)
    os.makedirs(os.path.dirname(p), exist_ok=True)
    if os.path.lexists(p):
        os.unlink(p)
    if state == 'absent':
        return
    if state == 'same':
        try:
            os.link(binary, p)
        except OSError:
            shutil.copyfile(binary, p)
        os.chmod(p, 0o755)
        return
    if state == 'noexec':
        shutil.copyfile(binary, p); os.chmod(p, 0o644)
        return
    if state.startswith('other:'):
        text = OTHER_VERSION_DOER % {'prefix': started_prefix, 'version': state[6:]}
    elif state.startswith('broken:'):
        text = BROKEN[state[7:]]
    else:
        raise ValueError(state)
    with open(p, 'w') as f:
        f.write(text)
    os.chmod(p, 0o755)


def sha_file(p):
    try:
        return hashlib.sha256(open(p, 'rb').read()).hexdigest()
    except OSError:
        return None


def read_log(path):
    out = []
    try:
        for l in open(path):
            try:
                out.append(json.loads(l))
            except ValueError:
                pass
    except OSError:
        pass
    return out


def wait_launch_ends(path, timeout=5.0):
    """Waits until every logged launch 'begin' has its 'end' (the fake ssh may outlive the boss briefly)."""
    import time
    t0 = time.time()
    while True:
        log = read_log(path)
        begun = {(d['host'], d['n']) for d in log if d.get('kind') == 'launch' and d.get('ev') == 'begin' and d.get('mode') != 'auto'}
        ended = {(d['host'], d['n']) for d in log if d.get('kind') == 'launch' and d.get('ev') == 'end'}
        if begun <= ended or time.time() - t0 > timeout:
            return log
        time.sleep(0.02)


def fake_env(base, fakebin, plan, tag='x', started_prefix=None, completed_prefix=None):
    """Environment additions for a run that uses the fake tools; writes the plan file."""
    planf = os.path.join(base, 'plan_%s.json' % tag)
    with open(planf, 'w') as f:
        json.dump(plan, f)
    logf = os.path.join(base, 'log_%s.jsonl' % tag)
    leaks = os.path.join(base, 'leaks_%s.txt' % tag)
    for p in (logf, leaks):
        if os.path.exists(p):
            os.unlink(p)
    e = {'PATH': fakebin + os.pathsep + os.environ.get('PATH', ''), 'FAKE_ROOT': base, 'FAKE_LOG': logf,
         'FAKE_PLAN': planf, 'FAKE_LEAKS': leaks}
    if started_prefix:
        e['FAKE_STARTED_PREFIX'] = started_prefix
    if completed_prefix:
        e['FAKE_COMPLETED_PREFIX'] = completed_prefix
    return e, logf, leaks


# the causally possible arrival orders of the four handshake lines: So < Co, So < Ce, Se < Ce
HANDSHAKE_ORDERS = [['So', 'Se', 'Co', 'Ce'], ['So', 'Se', 'Ce', 'Co'], ['Se', 'So', 'Co', 'Ce'],
                    ['Se', 'So', 'Ce', 'Co'], ['So', 'Co', 'Se', 'Ce']]


def all_linear_extensions():
    """Recomputes HANDSHAKE_ORDERS from the constraints (sanity for the table above)."""
    import itertools
    res = []
    for p in itertools.permutations(['So', 'Se', 'Co', 'Ce']):
        ix = {x: i for i, x in enumerate(p)}
        if ix['So'] < ix['Co'] and ix['So'] < ix['Ce'] and ix['Se'] < ix['Ce']:
            res.append(list(p))
    return res
