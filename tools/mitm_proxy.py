#!/usr/bin/env python3
"""A fake `ssh` that is also a man in the middle on rjrssync's boss-doer TCP link.

Invoked by the boss as `ssh <host> <command>` (through a two-line wrapper put first on PATH).  It runs
the command locally with the deployed binary path replaced by $FAKE_SSH_BINARY, relays stdin / stdout /
stderr, records the session key the boss writes to the doer's stdin, and rewrites the port in the doer's
"Waiting for incoming network connection on port N" line to a port of its own.  The boss therefore
connects to this process, which connects on to the doer and relays the stream frame by frame
(8-byte little-endian length + body), applying one manipulation:

  $MITM_PLAN = json {"dir": 0|1, "index": i, "op": ..., ...}     (dir 0: boss -> doer)
     none | dup | drop | flip (bit) | swap | replay_later (gap) | reflect | inject (hex) | truncate (keep)
     cross (wait): only with two ssh sessions in one run ($MITM_SESSION_DIR: source and destination both
            remote).  Every session publishes the frames it relays in the session directory; session
            plan["session"] delivers frame `index` of direction `dir` of the OTHER session's link in place of
            its own frame `index` (the same position in the same direction of another link of the same run).
            If the other link does not get that far within `wait` seconds the own frame goes through untouched
            ("not_applied").
  $MITM_DOER_CMD_LOG = file the doer's RJRSSYNC_VERIF_CMD_LOG is pointed at (the boss process gets none)
  $MITM_LOG  = file; one json object per line: {"key": hex} | {"dir", "index", "hex"} (frames as seen
               from the sender) | {"applied": ...} | {"closed": reason}
"""
import os, sys, json, socket, struct, subprocess, threading, time, select

MARK = b'Waiting for incoming network connection on port '
log_lock = threading.Lock()


def log(obj):
    p = os.environ.get('MITM_LOG')
    if not p:
        return
    with log_lock:
        with open(p, 'a') as f:
            f.write(json.dumps(obj) + '\n')


def read_exact(sock, n):
    buf = b''
    while len(buf) < n:
        try:
            c = sock.recv(min(1 << 20, n - len(buf)))
        except OSError:
            return None
        if not c:
            return None
        buf += c
    return buf


class Proxy:
    def __init__(self, doer_port, plan, session=None, sdir=None):
        self.doer_port, self.plan = doer_port, plan or {'op': 'none'}
        self.session, self.sdir = session, sdir
        self.lsock = socket.socket(socket.AF_INET, socket.SOCK_STREAM)
        self.lsock.setsockopt(socket.SOL_SOCKET, socket.SO_REUSEADDR, 1)
        self.lsock.bind(('0.0.0.0', 0))
        self.lsock.listen(1)
        self.port = self.lsock.getsockname()[1]
        self.last = {0: None, 1: None}       # last frame seen per direction (for reflection)
        self.applied = threading.Event()
        self.socks = []
        self.wlock = {0: threading.Lock(), 1: threading.Lock()}
        threading.Thread(target=self.serve, daemon=True).start()

    def close_all(self, why):
        log({'closed': why})
        for s in self.socks:
            try:
                s.shutdown(socket.SHUT_RDWR)
            except OSError:
                pass
            try:
                s.close()
            except OSError:
                pass

    def serve(self):
        boss, _ = self.lsock.accept()
        doer = socket.create_connection(('127.0.0.1', self.doer_port))
        for s in (boss, doer):
            s.setsockopt(socket.IPPROTO_TCP, socket.TCP_NODELAY, 1)
        self.socks = [boss, doer]
        self.dst = {0: doer, 1: boss}
        t0 = threading.Thread(target=self.relay, args=(0, boss, doer), daemon=True)
        t1 = threading.Thread(target=self.relay, args=(1, doer, boss), daemon=True)
        t0.start(); t1.start()
        # once the manipulation is on the wire the session must die by itself; if the two ends only
        # wait for each other (a dropped request), the attacker closes the connection
        self.applied.wait()
        t0.join(float(os.environ.get('MITM_GRACE', '3')))
        t1.join(0.2)
        if t0.is_alive() or t1.is_alive():
            self.close_all('grace period over')

    def put(self, d, data):
        with self.wlock[d]:
            try:
                self.dst[d].sendall(data)
                return True
            except OSError:
                return False

    def frame_file(self, k, d, i):
        return os.path.join(self.sdir, 'frame.%d.%d.%d' % (k, d, i))

    def publish(self, d, i, f):
        """Make frame i of direction d of this link available to the other session of the run."""
        if self.sdir is None or i >= 64:
            return
        try:
            tmp = self.frame_file(self.session, d, i) + '.tmp'
            with open(tmp, 'wb') as o:
                o.write(f)
            os.rename(tmp, self.frame_file(self.session, d, i))
        except OSError:
            pass

    def foreign(self, d, i, wait):
        """Frame i of direction d of the other link of this run (two sessions: 0 and 1), or None."""
        if self.sdir is None:
            return None
        path = self.frame_file(1 - self.session, d, i)
        t = time.time()
        while True:
            try:
                with open(path, 'rb') as o:
                    return o.read()
            except OSError:
                pass
            if time.time() - t > wait:
                return None
            time.sleep(0.01)

    def relay(self, d, src, dst):
        p = self.plan
        mine = p.get('op', 'none') != 'none' and p.get('dir') == d
        i = 0
        held = None
        replay = None
        while True:
            if held is not None or replay is not None:
                # waiting for a later frame to reorder with: if the sender is itself waiting for an answer
                # to the frame we hold, there is nothing to reorder - let it go unmanipulated
                rd, _, _ = select.select([src], [], [], 1.0)
                if not rd:
                    if held is not None:
                        self.put(d, held)
                    held, replay, mine = None, None, False
                    log({'not_applied': p}); self.applied.set()
                    continue
            h = read_exact(src, 8)
            if h is None:
                break
            n = struct.unpack('<Q', h)[0]
            body = read_exact(src, n)
            if body is None:
                break
            f = h + body
            log({'dir': d, 'index': i, 'hex': f.hex()})
            self.publish(d, i, f)
            self.last[d] = f
            out = [f]
            if mine and i == p['index']:
                op = p['op']
                if op == 'dup':
                    out = [f, f]
                elif op == 'drop':
                    out = []
                elif op == 'flip':
                    b = bytearray(f); k = 8 + (p.get('bit', 0) // 8) % max(1, n); b[k] ^= 1 << (p.get('bit', 0) % 8); out = [bytes(b)]
                elif op == 'swap':
                    held, out = f, []
                elif op == 'replay_later':
                    replay = [f, 1 + p.get('gap', 0)]
                elif op == 'reflect':
                    # a frame of the other direction, if none was seen yet wait a little for one
                    t = time.time()
                    while self.last[1 - d] is None and time.time() - t < 1.0:
                        time.sleep(0.01)
                    o = self.last[1 - d]
                    if o is None:
                        log({'not_applied': p}); self.applied.set()
                        op = 'swap'          # (skips the 'applied' record below)
                    else:
                        out = [o, f] if p.get('keep', True) else [o]
                elif op == 'cross':
                    o = self.foreign(d, i, float(p.get('wait', 1.5)))
                    if o is None:
                        log({'not_applied': p}); self.applied.set()
                        mine = False
                        op = 'swap'          # (skips the 'applied' record below)
                    else:
                        out = [o]
                        if o == f:
                            log({'identical': {'dir': d, 'index': i}})
                elif op == 'inject':
                    out = [bytes.fromhex(p['hex']), f] if p.get('keep', True) else [bytes.fromhex(p['hex'])]
                elif op == 'truncate':
                    self.put(d, f[:p.get('keep_bytes', 9) % len(f)])
                    log({'applied': p}); self.applied.set()
                    self.close_all('truncated')
                    return
                if op not in ('swap', 'replay_later'):
                    log({'applied': p}); self.applied.set()
            elif held is not None:
                out, held = [f, held], None
                log({'applied': p}); self.applied.set()
            elif replay is not None:
                replay[1] -= 1
                if replay[1] == 0:
                    out, replay = [f, replay[0]], None
                    log({'applied': p}); self.applied.set()
            ok = True
            for x in out:
                ok = ok and self.put(d, x)
            if not ok:
                break
            i += 1
        # the sender closed (or failed): pass the end of stream on
        if held is not None or replay is not None:
            log({'not_applied': p}); self.applied.set()
        try:
            dst.shutdown(socket.SHUT_WR)
        except OSError:
            pass


def ssh_main(argv):
    cmd = argv[-1].replace('/var/tmp/rjrssync/rjrssync', os.environ['FAKE_SSH_BINARY'])
    plan = json.loads(os.environ.get('MITM_PLAN', '{"op": "none"}'))
    # several ssh sessions of one run (source and destination both remote): number them in launch order;
    # session k logs to $MITM_LOG.k / $MITM_DOER_CMD_LOG.k and only session plan["session"] is manipulated
    sdir = os.environ.get('MITM_SESSION_DIR')
    k = None
    if sdir:
        k = 0
        while True:
            try:
                os.close(os.open(os.path.join(sdir, 'session%d' % k), os.O_CREAT | os.O_EXCL | os.O_WRONLY))
                break
            except FileExistsError:
                k += 1
        for v in ('MITM_LOG', 'MITM_DOER_CMD_LOG'):
            if os.environ.get(v):
                os.environ[v] = os.environ[v] + '.%d' % k
        if plan.get('session', 0) != k:
            plan = {'op': 'none'}
    env = dict(os.environ)
    if os.environ.get('MITM_DOER_CMD_LOG'):
        env['RJRSSYNC_VERIF_CMD_LOG'] = os.environ['MITM_DOER_CMD_LOG']     # the remote doer's own command log
    child = subprocess.Popen(['sh', '-c', cmd], stdin=subprocess.PIPE, stdout=subprocess.PIPE, stderr=subprocess.PIPE, env=env)
    proxy_box = {}
    plock = threading.Lock()

    def pump_in():
        first = True
        while True:
            data = os.read(0, 65536)
            if not data:
                break
            if first:
                first = False
                log({'key': data.split(b'\n')[0].decode('ascii', 'replace')})
            try:
                child.stdin.write(data); child.stdin.flush()
            except OSError:
                break
        try:
            child.stdin.close()
        except OSError:
            pass

    def pump_out(src, dst_fd):
        for line in iter(src.readline, b''):
            if line.startswith(MARK):
                port = int(line[len(MARK):].strip())
                with plock:
                    if 'p' not in proxy_box:
                        proxy_box['p'] = Proxy(port, plan, session=k, sdir=sdir)
                line = MARK + str(proxy_box['p'].port).encode() + b'\n'
            try:
                os.write(dst_fd, line)
            except OSError:
                break

    threading.Thread(target=pump_in, daemon=True).start()
    to = threading.Thread(target=pump_out, args=(child.stdout, 1), daemon=True)
    te = threading.Thread(target=pump_out, args=(child.stderr, 2), daemon=True)
    to.start(); te.start()
    rc = child.wait()
    to.join(2); te.join(2)
    log({'doer_exit': rc})
    os._exit(rc if 0 <= rc < 256 else 255)


if __name__ == '__main__':
    ssh_main(sys.argv[1:])
