#!/usr/bin/env python3
"""mkmanifest.py CNN 'level text' 'level note' 'technique' [design_ref] -> manifest.d/CNN.json"""
import sys, json, os
V = os.path.dirname(os.path.dirname(os.path.abspath(__file__)))
def main():
    pid, text, note, tech = sys.argv[1:5]
    ref = sys.argv[5] if len(sys.argv) > 5 else 'DESIGN.md section 5 (%s), design.d/%s.md' % (pid, pid)
    m = {"property_id": pid, "quick_cmd": "./check %s --tier quick" % pid, "thorough_cmd": "./check %s --tier thorough" % pid,
         "evidence_file": "evidence/%s.json" % pid, "replay_cmd_template": "./check %s --replay {path}" % pid, "engine": "coq-model",
         "level_claimed": {"category": "proof", "text": text, "design_ref": ref}, "level_note": note, "technique": tech}
    json.dump(m, open(os.path.join(V, 'manifest.d', pid + '.json'), 'w'), indent=1)
main()
