"""C01 - A successful sync makes the destination a mirror of the source.

Proof: Props/C01.v (mirror theorem over the whole-sync model, its executable instance, link-text
preservation, trailing-slash table).  Tie: the real CLI on generated tree pairs (all permitted, so
nothing is skipped) in the four placements, path spellings (relative, trailing slashes, symlinked
and missing ancestors), the full trailing-slash table, multi-sync spec files - each compared with the
extracted model and judged by an independent mirror oracle on before/after snapshots."""
import os, sys, json, tempfile, shutil, itertools, hashlib
import vlib, e2e, sync_e2e
from sync_e2e import T0

THEOREMS = ['C01_mirror', 'C01_mirror_executable', 'C01_link_text', 'C01_utf8_text_is_in_domain', 'C01_table', 'C01_mirror_unconditional', 'C01_mirror_walked', 'C01_walked_listing_exists',
            'C01_spec_each_sync_mirrors', 'C01_spec_final_trees', 'C01_spec_stores_well_formed', 'C01_mirror_keeps_times_set', 'C01_spec_chain_mirrors', 'C01_run_keeps_links_utf8', 'C01_file_lands_under_its_own_name']


def components(text):
    comps = [c for c in text.split(b'/') if c]
    if comps and comps[0] == b'.':
        return [comps[0]] + [c for c in comps[1:] if c != b'.']
    return [c for c in comps if c != b'.']


def same_text(a, b):
    if a.startswith(b'/') or b.startswith(b'/'):
        return a == b
    return components(a) == components(b)


def hidden(p, excluded, tree):
    """p does not take part: itself or an ancestor is excluded, or an ancestor is not a folder in `tree`."""
    parts = p.split('/')
    for i in range(1, len(parts) + 1):
        q = '/'.join(parts[:i])
        if q in excluded:
            return True
        if i < len(parts) and (q not in tree or tree[q][0] != 'dir'):
            return True
    return False


def mirror_oracle(src, before, after, excluded):
    """src/before/after: snapshots {rel: tuple}. Returns a violation description or None."""
    excluded = set(excluded)
    sroot = src.get('')
    if sroot is None:
        return None
    for p in sorted(set(src) | set(before) | set(after)):
        if p == '':
            takes_s = takes_d = True
        else:
            takes_s = sroot[0] == 'dir' and p in src and not hidden(p, excluded, src)
            takes_d = before.get('', ('x',))[0] == 'dir' and p in before and not hidden(p, excluded, before)
        s, b, a = src.get(p), before.get(p), after.get(p)
        if takes_s or takes_d:
            if not takes_s or s is None:
                if a is not None:
                    return 'extra destination entry %r survived' % p
                continue
            if a is None or a[0] != s[0]:
                return 'path %r: source %s, destination %s' % (p, s[0], a and a[0])
            if s[0] == 'file':
                if (a[1], a[2], a[3]) != (s[1], s[2], s[3]):
                    if not (b is not None and b[0] == 'file' and b[3] == s[3] and a == b):
                        return 'file %r differs from the source (bytes/mtime) and was not an equal-mtime file left alone' % p
            elif s[0] == 'link' and not same_text(s[1], a[1]):
                return 'link %r text %r, source %r' % (p, a[1], s[1])
        else:
            if p in before or p in after:
                if a != b:
                    return 'path %r does not take part (excluded/hidden) but changed' % p
    return None


# ---- trailing-slash table -------------------------------------------------------------------
def table_cases():
    for src_kind in ('file', 'link', 'dir'):
        for ss in (False, True):
            for dest_kind in (None, 'file', 'link', 'dir'):
                for ds in (False, True):
                    yield src_kind, ss, dest_kind, ds


def table_expect(src_kind, ss, dest_kind, ds, link_to_dir):
    """docs/notes.md table; a symlink spelled with a trailing slash that points to a folder counts as that folder."""
    sk = src_kind
    if sk == 'link' and ss and link_to_dir:
        sk = 'dir'
    dk = dest_kind
    if dk == 'link' and ds and link_to_dir:
        dk = 'dir'
    if sk in ('file', 'link'):
        if ss:
            return 'X'
        if dk is None:
            return 'b/a' if ds else 'b'
        if dk in ('file', 'link'):
            return 'X' if ds else 'b'
        return 'b/a' if ds else 'b'
    if dk in ('file', 'link') and ds:
        return 'X'
    return 'b'


def run_table(run, binary, base):
    fdata = lambda s, dt: {'k': 'file', 'data': s, 'mtime_ns': T0 + dt}
    for (sk, ss, dk, ds) in table_cases():
        for link_to_dir in ((False, True) if 'link' in (sk, dk) else (False,)):
            root = tempfile.mkdtemp(prefix='tbl_', dir=base)
            try:
                os.mkdir(os.path.join(root, 'tdir'))
                open(os.path.join(root, 'tdir', 'inside'), 'w').write('in')
                open(os.path.join(root, 'tfile'), 'w').write('tf')
                tgt = b'../tdir' if link_to_dir else b'../tfile'
                os.mkdir(os.path.join(root, 's'))
                os.mkdir(os.path.join(root, 'd'))
                stree = {'file': {'': fdata(b'SRC', 1)}, 'link': {'': {'k': 'link', 'text': tgt}},
                         'dir': {'': {'k': 'dir'}, 'x': fdata(b'x', 2), 'sub': {'k': 'dir'}, 'sub/y': fdata(b'yy', 3)}}[sk]
                e2e.build_tree(os.path.join(root, 's', 'a'), stree)
                if dk is not None:
                    dtree = {'file': {'': fdata(b'OLD', -9)}, 'link': {'': {'k': 'link', 'text': tgt}},
                             'dir': {'': {'k': 'dir'}, 'old': fdata(b'old', -4)}}[dk]
                    e2e.build_tree(os.path.join(root, 'd', 'b'), dtree)
                sp = os.path.join(root, 's', 'a') + ('/' if ss else '')
                dp = os.path.join(root, 'd', 'b') + ('/' if ds else '')
                before_s = e2e.snapshot(os.path.join(root, 's'))
                before_d = e2e.snapshot(os.path.join(root, 'd'))
                before_t = (e2e.snapshot(os.path.join(root, 'tdir')), e2e.snapshot(os.path.join(root, 'tfile')))
                r = e2e.run_cli(binary, [sp, dp, '--dest-root-needs-deleting', 'delete', '--dest-file-newer', 'overwrite'], timeout=60)
                after_s = e2e.snapshot(os.path.join(root, 's'))
                after_d = e2e.snapshot(os.path.join(root, 'd'))
                want = table_expect(sk, ss, dk, ds, link_to_dir)
                run.count('table:' + want)
                run.case(('table', sk, ss, dk, ds, link_to_dir), True,
                         sample={'table_cell': [sk, ss, dk, ds, link_to_dir], 'expected': want, 'exit': r['exit']})
                bad = None
                # what the source object is, as the walk sees it (a link spelled with '/' to a folder is that folder)
                src_obj = e2e.snapshot(os.path.realpath(os.path.join(root, 's', 'a')) if (sk == 'link' and ss and link_to_dir) else os.path.join(root, 's', 'a'))
                if after_s != before_s:
                    bad = 'source side changed'
                elif want == 'X':
                    if r['exit'] == 0:
                        bad = 'forbidden combination accepted'
                    elif after_d != before_d:
                        bad = 'forbidden combination changed the destination'
                else:
                    if r['exit'] != 0:
                        bad = 'accepted combination failed with exit %s: %s' % (r['exit'], r['stderr'][-200:])
                    else:
                        land = os.path.join(root, 'd', 'b') if want == 'b' else os.path.join(root, 'd', 'b', 'a')
                        if dk == 'link' and ds and link_to_dir:
                            # the destination path resolves through the link to tdir: the object lives there
                            land = os.path.join(root, 'tdir') if want == 'b' else os.path.join(root, 'tdir', 'a')
                        got = e2e.snapshot(land)
                        norm = lambda snap: {k: (v if v[0] != 'link' else ('link', b'/'.join(components(v[1])))) for k, v in snap.items()}
                        if norm(got) != norm(src_obj) and not (dk == 'link' and ds and link_to_dir and want == 'b'):
                            bad = 'object at %s differs from the source object' % land
                        if dk == 'link' and ds and link_to_dir and want == 'b':
                            # replacing "the folder the link points to": contents must mirror the source folder
                            g2 = {k: v for k, v in got.items()}
                            if norm(g2) != norm(src_obj):
                                bad = 'folder behind the destination link does not mirror the source'
                if (e2e.snapshot(os.path.join(root, 'tfile')) != before_t[1]):
                    bad = bad or 'link target file changed'
                if bad:
                    run.fail('C01 table cell src=%s%s dest=%s%s (link->%s): %s' % (sk, '/' if ss else '', dk, '/' if ds else '', 'dir' if link_to_dir else 'file', bad),
                             {'cell': [sk, ss, dk, ds, link_to_dir], 'expected': want, 'exit': r['exit'], 'stderr': r['stderr'][-600:]})
            finally:
                shutil.rmtree(root, ignore_errors=True)


ODD_ROOT_NAMES = [b'a\\b', b'x\\..', b'..\\x', b'x\\.', b'a\\\\b', b'\\..', b'sp ace', b'-dash', b'..a', b'a..', b'.hidden',
                  'n\u00fc'.encode(), b'c\\d\\e']


def run_inside_names(run, binary, base, prop='C01'):
    """A file or symlink source with a trailing-slash destination lands INSIDE that folder under its own file name
    (docs/notes.md table) - also when that name contains characters that are separators on another platform
    (a backslash on a Unix source), dots, or both.  Oracle: the object appears at DEST/<name> and nowhere else, the
    siblings of the destination and what else is in it are untouched, exit 0.  Names ENDING in a backslash are left out: a path
    spelled with a trailing backslash is taken as spelled with a trailing slash on every platform (validate_trailing_slash) and is
    rejected for a file before anything is touched - a limitation, not a violation of a listed property.  (F14: the name was taken after the last
    backslash; 'x\\..' made the destination root DEST/.. and emptied the parent folder.)"""
    ssh = e2e.fake_ssh_dir(base)
    for name in ODD_ROOT_NAMES:
        for sk in ('file', 'link'):
            for dest_exists in (True, False):
                for placement in ('LL', 'RL'):
                    if placement == 'RL' and not (sk == 'file' and dest_exists):
                        continue
                    root = tempfile.mkdtemp(prefix='odd_', dir=base).encode()
                    try:
                        os.mkdir(os.path.join(root, b's'))
                        os.makedirs(os.path.join(root, b'box', b'sibling'))
                        open(os.path.join(root, b'box', b'sibling', b'keep'), 'w').write('keep')
                        open(os.path.join(root, b'boxfile'), 'w').write('bf')
                        if dest_exists:
                            os.mkdir(os.path.join(root, b'box', b'dest'))
                            open(os.path.join(root, b'box', b'dest', b'old'), 'w').write('old')
                        sp = os.path.join(root, b's', name)
                        if sk == 'file':
                            open(sp, 'wb').write(b'DATA-' + name)
                            os.utime(sp, ns=(T0, T0 + 5))
                        else:
                            os.symlink(b'../boxfile', sp)
                        dp = os.path.join(root, b'box', b'dest') + b'/'
                        before = e2e.snapshot(os.path.join(root, b'box').decode('utf-8', 'surrogateescape'))
                        src_before = e2e.snapshot(os.path.join(root, b's').decode('utf-8', 'surrogateescape'))
                        args = [os.fsdecode((b'localhost:' if placement == 'RL' else b'') + sp), os.fsdecode(dp), '--dest-root-needs-deleting', 'delete', '--dest-entry-needs-deleting', 'delete']
                        r = e2e.run_cli(binary, args, timeout=60, fake_ssh=ssh if placement != 'LL' else None)
                        after = e2e.snapshot(os.path.join(root, b'box').decode('utf-8', 'surrogateescape'))
                        run.count('inside-names')
                        run.case(('inside-name', name.hex(), sk, dest_exists, placement), True)
                        want = dict(before)
                        if not dest_exists:
                            want['dest'] = ('dir',)
                        rel = 'dest/' + os.fsdecode(name)
                        want[rel] = e2e.snapshot(os.fsdecode(sp))['']
                        bad = None
                        if e2e.snapshot(os.path.join(root, b's').decode('utf-8', 'surrogateescape')) != src_before:
                            bad = 'the source changed'
                        elif r['exit'] != 0:
                            if after != before and after != dict(before, dest=('dir',)):
                                bad = 'exit %s and the surroundings of the destination changed: %s' % (r['exit'], sorted(set(before) ^ set(after))[:6])
                            else:
                                bad = 'exit %s: %s' % (r['exit'], r['stderr'][-200:])
                        elif {k: v[0] for k, v in after.items()} != {k: v[0] for k, v in want.items()} or after.get(rel) != want[rel]:
                            bad = 'exit 0 but the source did not land at DEST/<its name>: extra %s missing %s' % (
                                sorted(set(after) - set(want))[:5], sorted(set(want) - set(after))[:5])
                        if bad:
                            run.fail('%s: %s source named %r into a trailing-slash destination (%s, %s): %s' % (prop, sk, name, 'existing folder' if dest_exists else 'absent', placement, bad),
                                     {'family': 'inside-names', 'name_hex': name.hex(), 'src_kind': sk, 'dest_exists': dest_exists, 'placement': placement,
                                      'exit': r['exit'], 'stderr': r['stderr'][-400:], 'after': sorted(after)})
                    finally:
                        shutil.rmtree(root, ignore_errors=True)


def run_spellings(run, binary, base, rng, n):
    """Relative paths, symlinked destination ancestors, several syncs in one spec file."""
    for i in range(n):
        root = tempfile.mkdtemp(prefix='sp_', dir=base)
        try:
            sc = sync_e2e.gen_scenario(rng, 'clean')
            sc.excluded, sc.filters = [], []
            if sc.src.get('', {}).get('k') == 'link' or (sc.dest and sc.dest.get('', {}).get('k') == 'link'):
                continue
            e2e.build_tree(os.path.join(root, 'outside'), sc.outside)
            e2e.build_tree(os.path.join(root, 'src'), sc.src)
            os.mkdir(os.path.join(root, 'real'))
            os.symlink('real', os.path.join(root, 'lnk'))
            mode = rng.choice(['relative', 'symlinked-ancestor', 'spec'])
            dest_abs = os.path.join(root, 'real', 'dest') if mode == 'symlinked-ancestor' else os.path.join(root, 'dest')
            if sc.dest:
                e2e.build_tree(dest_abs, sc.dest)
            before = e2e.snapshot(dest_abs)
            srcsnap = e2e.snapshot(os.path.join(root, 'src'))
            if mode == 'relative':
                r = e2e.run_cli(binary, ['./src', 'dest', '--dest-root-needs-deleting', 'delete', '--dest-file-newer', 'overwrite'], cwd=root)
            elif mode == 'symlinked-ancestor':
                r = e2e.run_cli(binary, [os.path.join(root, 'src'), os.path.join(root, 'lnk', 'dest'), '--dest-root-needs-deleting', 'delete', '--dest-file-newer', 'overwrite'])
            else:
                e2e.build_tree(os.path.join(root, 'src2'), {'': {'k': 'dir'}, 'q': {'k': 'file', 'data': b'q', 'mtime_ns': T0}})
                spec = 'syncs:\n  - src: %s\n    dest: %s\n    dest_root_needs_deleting_behaviour: delete\n    dest_file_newer_behaviour: overwrite\n  - src: %s\n    dest: %s\n' % (
                    os.path.join(root, 'src'), dest_abs, os.path.join(root, 'src2'), os.path.join(root, 'dest2'))
                open(os.path.join(root, 'spec.yaml'), 'w').write(spec)
                r = e2e.run_cli(binary, ['--spec', os.path.join(root, 'spec.yaml')])
            run.count('spelling:' + mode)
            run.case(('spelling', mode, sc.key()), True)
            if r['exit'] == 0:
                bad = mirror_oracle(srcsnap, before, e2e.snapshot(dest_abs), [])
                if not bad and mode == 'spec' and e2e.snapshot(os.path.join(root, 'dest2')) != e2e.snapshot(os.path.join(root, 'src2')):
                    bad = 'second sync of the spec file did not mirror'
                if bad:
                    run.fail('C01 (%s): %s' % (mode, bad), {'scenario': sc.to_json(), 'mode': mode})
        finally:
            shutil.rmtree(root, ignore_errors=True)


def run_odd_times(run, binary, base, rng, n):
    """Unusual modification times on either side (before 1970, the epoch itself, 1 ns steps, sub-second
    differences, far future): a run that exits 0 must leave identical times and bytes (or have left an equal-time file
    alone) - the tool may refuse a time it cannot represent, but must not exit 0 with something else there."""
    Y = 365 * 86400 * 10**9
    odd = [-5 * Y, -1, 0, 1, 999_999_999, 10**9, T0 - 1, T0 + 1, T0 + 999_999, T0 + 10**9 - 1, T0 - 10**9 + 1, T0 + 500_000_000,
           (2**31) * 10**9 + 1, 230 * Y + 123_456_789]
    for i in range(n):
        root = tempfile.mkdtemp(prefix='odd_', dir=base)
        try:
            src = {'': {'k': 'dir'}}
            dest = {'': {'k': 'dir'}}
            for k in range(rng.randrange(1, 6)):
                nm = 'f%d' % k
                ts = rng.choice(odd)
                src[nm] = {'k': 'file', 'data': b's' * rng.choice([0, 1, 7, 5000]), 'mtime_ns': ts}
                r = rng.random()
                if r < 0.7:
                    td = rng.choice([ts, ts + 1, ts - 1, ts + 400_000_000, ts - 999_999_999, rng.choice(odd)])
                    dest[nm] = {'k': 'file', 'data': b'd' * rng.choice([0, 3, 7, 9000]), 'mtime_ns': td}
            e2e.build_tree(os.path.join(root, 'src'), src)
            e2e.build_tree(os.path.join(root, 'dest'), dest)
            srcsnap = e2e.snapshot(os.path.join(root, 'src'))
            before = e2e.snapshot(os.path.join(root, 'dest'))
            r = e2e.run_cli(binary, [os.path.join(root, 'src'), os.path.join(root, 'dest'), '--dest-file-newer', 'overwrite', '--dest-file-older', 'overwrite'], timeout=60)
            after = e2e.snapshot(os.path.join(root, 'dest'))
            run.count('oddtimes:exit:%s' % r['exit'])
            run.case(('oddtimes', i), True, sample={'times': sorted(n_['mtime_ns'] for p_, n_ in src.items() if p_), 'exit': r['exit']} if i < 3 else None)
            if e2e.snapshot(os.path.join(root, 'src')) != srcsnap:
                run.fail('C01 (odd times): the source changed', {'src': {k: str(v) for k, v in src.items()}})
            elif r['exit'] == 0:
                bad = mirror_oracle(srcsnap, before, after, [])
                if bad:
                    run.fail('C01 (odd times): exit 0 and ' + bad, {'family': 'oddtimes', 'src': {k: v.get('mtime_ns') for k, v in src.items()},
                                                                    'dest': {k: v.get('mtime_ns') for k, v in dest.items()}, 'text': (r['stdout'] + r['stderr'])[-600:]})
        finally:
            shutil.rmtree(root, ignore_errors=True)


def check(run):
    run.trusted = list(vlib.COMMON_TRUSTED) + [
        'modelled, not verified: POSIX syscall semantics of the doer (validated against the host kernel by every differential run); OS path resolution of the ancestors of the two roots; Windows doer branches',
        'theorem premises established elsewhere: valid listings (C17 walker, C06 filter verdict), no effect through a link (C02/C12)']
    run.assumptions = ['source tree static during the run', 'destination file system stores nanosecond timestamps']
    run.extra['rule'] = ('clean-profile tree pairs (all destructive behaviours permitted) in placements LL/RL/LR/RR with exclusion filters; '
                         'every cell of the trailing-slash table (x link-to-file / link-to-folder); relative / symlinked-ancestor spellings and '
                         'multi-sync spec files; non-trivial = the run changed the destination; distinct by scenario hash')
    binary = vlib.build_impl()
    vlib.regen_facts(binary)
    run.check_proofs('C01', THEOREMS, extra_targets=['theories/Extract/Ex_sync.vo'])
    run.check_translation()      # needs_delete / needs_copy / process_*_entry as regenerated from the source text = the model
    jbin = vlib.build_judge('sync')
    rng = run.rng
    quick = run.tier == 'quick'
    n = 220 if quick else 24000
    base = tempfile.mkdtemp(prefix='c01_', dir=vlib.CACHE)
    fake = e2e.fake_ssh_dir(base)
    try:
        for i in range(n):
            sc = sync_e2e.gen_scenario(rng, 'clean')
            if i % 8 == 5:
                sc.placement = rng.choice(['RL', 'LR', 'RR'])
            o = sync_e2e.run_scenario(sc, binary, jbin, base, fake_ssh=fake)
            run.count('placement:' + sc.placement)
            run.count('exit:%s' % o.impl['exit'])
            changed = o.impl['after']['dest'] != o.impl['before']['dest']
            run.case(sc.key(), changed, sample={'src': sorted(sc.src)[:6], 'dest': sorted(sc.dest)[:6], 'excluded': sc.excluded,
                                                'exit': o.impl['exit'], 'trace': [list(x) for x in o.impl['dest_trace'][:6]]})
            run.traces_validated += 1
            bad = None
            if o.impl['exit'] == 0:
                bad = mirror_oracle(o.impl['before']['src'], o.impl['before']['dest'], o.impl['after']['dest'], sc.excluded)
            if bad:
                run.fail('C01: ' + bad, {'scenario': sc.to_json(), 'text': o.impl['text'][-800:]})
            elif o.mismatch and sc.placement == 'LL':
                run.broke('correspondence', 'e2e', json.dumps({'scenario': sc.to_json(), 'mismatch': o.mismatch})[:2500])
            elif o.mismatch and [m for m in o.mismatch if 'trace' not in m]:
                # remote placements: the command log is written by separate processes; traces are not compared
                run.broke('correspondence', 'e2e-remote', json.dumps({'scenario': sc.to_json(), 'mismatch': o.mismatch})[:2500])
        run_table(run, binary, base)
        run_inside_names(run, binary, base)
        run_spellings(run, binary, base, rng, 30 if quick else 2000)
        run_odd_times(run, binary, base, rng, 40 if quick else 3000)
        # spec files with several syncs over shared roots (A -> B, then B -> C, ...) against Model/SpecRun.v
        import spec_e2e
        spec_e2e.family(run, binary, jbin, base, 40 if quick else 2500, rng, 'C01')
    finally:
        shutil.rmtree(base, ignore_errors=True)
    return run.finish(search=None)


def replay(run, path):
    print(open(path).read()[:4000])
    return check(run)
