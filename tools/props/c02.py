"""C02 - The source is never modified; nothing outside the destination is touched.

Proof: Props/C02.v (source trace read-only for every run; read-only commands change nothing; an effect
leaves the tree only through an existing link; a sync that returns Ok without skips logs no Through
event; dry runs are inert; F6b refutation witness).  Fact from the code: the Command kinds the boss
sends through src_comms (scanned from the source being compiled) are the three read-only kinds.
Tie: the real CLI on tree pairs with populated decoys outside both roots and destination links
pointing at them - successful, failing, cancelled, skipping and dry runs, injected destination failures
at every operation index, remote placements; source and decoys must stay bit-identical, the source
doer's command log read-only.  F6b (a FAILED link deletion followed by queued creations) is a known
finding for exactly that class."""
import os, sys, json, tempfile, shutil
import vlib, e2e, sync_e2e

THEOREMS = ['C02_source_only_read', 'C02_read_only_changes_nothing', 'C02_through_needs_link', 'C02_clean_run_confined',
            'C02_every_run_confined', 'C02_every_run_confined_executable', 'C02_no_run_goes_through_a_link', 'C02_executable_never_through', 'C02_dry_run_confined', 'C02_blocked_refused', 'C02_failed_delete_blocks', 'C02_blocked_stays', 'C02_src_sites_read_only', 'C02_walked_never_through', 'C02_spec_untouched', 'C02_inside_root_adds_one_component', 'C02_F14_refuted_before_fix']

READ_ONLY = {'SetRoot', 'GetEntries', 'GetFileContent', 'Marker', 'Shutdown', 'ProfilingTimeSync'}


def has_dest_link(sc):
    return any(n['k'] == 'link' for n in sc.dest.values())


def f6b_witness(run, binary, jbin, base, known, prop='C02'):
    """The former witness of F6b (repaired: the doer refuses what is queued behind a failed deletion), kept
    as a corpus case that runs first: the deletion of a destination link fails while the file that replaces it
    is already on its way - (a) injected through the fault hook, repeated because the queued creation has
    to overtake the error reply, (b) for real, hook-free: the link's parent folder is immutable (chattr +i),
    so unlink fails with EPERM while open() of the link still reaches its target.  The decoy must stay."""
    from sync_e2e import T0
    for attempt in range(12):
        sc = sync_e2e.Scenario()
        sc.outside = {k: dict(v) for k, v in sync_e2e.OUTSIDE.items()}
        sc.src = {'': {'k': 'dir'}, 'f': {'k': 'file', 'data': b'NEW', 'mtime_ns': T0}}
        sc.dest = {'': {'k': 'dir'}, 'f': {'k': 'link', 'text': b'../outside/target.txt'}}
        sc.cfg = {'newer': 'A', 'older': 'A', 'same': 'S', 'entry': 'A', 'root': 'A'}
        sc.faults = {'fd': [0], 'fsrc': [], 'lag': 0}
        sc.tag = 'F6b-witness'
        o = sync_e2e.run_scenario(sc, binary, jbin, base)
        run.count('F6b-witness-injected')
        run.case(('F6b', attempt), True)
        if o.impl['after']['outside'] != o.impl['before']['outside']:
            run.fail('%s: a failed link deletion was followed by a write THROUGH the link (F6b has returned): outside/target.txt changed' % prop,
                     {'family': 'F6b-witness', 'scenario': sc.to_json(), 'text': o.impl['text'][-600:]})
            return
        if o.impl['exit'] == 0:
            run.fail('%s: the injected failure of the link deletion was not reported (exit 0)' % prop, {'family': 'F6b-witness', 'scenario': sc.to_json()})
            return
    immutable_link_family(run, binary, base, prop)


def immutable_link_family(run, binary, base, prop, n=8):
    """Hook-free: destination links (to decoys outside) that cannot be deleted because their folder is immutable."""
    import subprocess, tempfile as tf
    rng = run.rng
    for i in range(n):
        root = tf.mkdtemp(prefix='imm_', dir=base)
        sub = rng.choice(['sub', 'a/b'])
        kind = rng.choice(['file', 'dir'])
        src = {'': {'k': 'dir'}}
        for part in range(1, len(sub.split('/')) + 1):
            src['/'.join(sub.split('/')[:part])] = {'k': 'dir'}
        dest = {k: dict(v) for k, v in src.items()}
        if kind == 'file':
            src[sub + '/f'] = {'k': 'file', 'data': b'NEWCONTENT' * rng.choice([1, 900]), 'mtime_ns': sync_e2e.T0}
            dest[sub + '/f'] = {'k': 'link', 'text': ('../' * (sub.count('/') + 2) + 'outside/target.txt').encode()}
        else:
            src[sub + '/f'] = {'k': 'dir'}
            src[sub + '/f/inner.txt'] = {'k': 'file', 'data': b'NEW', 'mtime_ns': sync_e2e.T0}
            src[sub + '/f/more'] = {'k': 'dir'}
            src[sub + '/f/lnk'] = {'k': 'link', 'text': b'inner.txt'}            # every kind of creation is queued behind the failed deletion
            src[sub + '/f/more/deep.txt'] = {'k': 'file', 'data': b'deep', 'mtime_ns': sync_e2e.T0}
            src[sub + '/f/more/lnk2'] = {'k': 'link', 'text': b'../inner.txt'}
            dest[sub + '/f'] = {'k': 'link', 'text': ('../' * (sub.count('/') + 2) + 'outside/dir').encode()}
        if i % 2 == 1:                               # a backlog of deletions ahead of the failing one, so that more is queued behind it
            # (deeper entries are listed later by the breadth-first walk and the delete list is reversed: they go first)
            for dname in ('zjunk', 'zjunk/d1', 'zjunk/d1/d2', 'zjunk/d1/d2/d3'):
                dest[dname] = {'k': 'dir'}
            for j in range(1500):
                dest['zjunk/d1/d2/d3/j%04d' % j] = {'k': 'file', 'data': b'', 'mtime_ns': sync_e2e.T0}
        e2e.build_tree(os.path.join(root, 'outside'), sync_e2e.OUTSIDE)
        e2e.build_tree(os.path.join(root, 'src'), src)
        e2e.build_tree(os.path.join(root, 'dest'), dest)
        imm = os.path.join(root, 'dest', sub)
        if subprocess.run(['chattr', '+i', imm], capture_output=True).returncode != 0:
            run.notes.append('chattr +i is not available on this file system: the immutable-folder family was skipped')
            shutil.rmtree(root, ignore_errors=True)
            return
        try:
            before = e2e.snapshot(os.path.join(root, 'outside'))
            r = e2e.run_cli(binary, [os.path.join(root, 'src') + '/', os.path.join(root, 'dest') + '/'], env={}, timeout=60)
            after = e2e.snapshot(os.path.join(root, 'outside'))
        finally:
            subprocess.run(['chattr', '-i', imm], capture_output=True)
        run.count('immutable-link:%s:exit:%s' % (kind, r['exit']))
        run.case(('immutable', sub, kind, i), True, sample={'immutable_folder': sub, 'link_in_the_way_is_a': kind, 'exit': r['exit']} if i < 2 else None)
        if after != before:
            run.fail('%s: the link %s/f could not be deleted (immutable folder, EPERM) and the queued creations went THROUGH it: %s changed' %
                     (prop, sub, [k for k in set(after) | set(before) if after.get(k) != before.get(k)][:3]),
                     {'family': 'immutable-link', 'sub': sub, 'kind': kind, 'text': (r['stdout'] + r['stderr'])[-600:]})
        elif r['exit'] == 0:
            run.fail('%s: the deletion of %s/f failed (EPERM) and the run exited 0' % (prop, sub), {'family': 'immutable-link', 'sub': sub, 'kind': kind})
        shutil.rmtree(root, ignore_errors=True)


FAKE_SSH_HOME = r'''#!/bin/sh
# fake ssh with a login directory: the remote command starts in $FAKE_SSH_HOME, as a real ssh session starts in the user's home
cmd=$(printf '%s' "$2" | sed "s#/var/tmp/rjrssync/rjrssync#${FAKE_SSH_BINARY}#g")
cd "$FAKE_SSH_HOME" || exit 97
exec sh -c "$cmd"
'''


def relative_remote_family(run, binary, base, rng, n):
    """A RELATIVE path on a remote side is relative to the ssh login directory (boss_launch.rs does not cd): `host:backup/data`
    is <login dir>/backup/data.  Decoys of the same relative name sit in the temp directory, in the boss's working directory and in /:
    none of them may change, the named one must be what the sync works on."""
    for i in range(n):
        root = tempfile.mkdtemp(prefix='rel_', dir=base)
        try:
            fb = os.path.join(root, 'fakebin')
            os.makedirs(fb)
            open(os.path.join(fb, 'ssh'), 'w').write(FAKE_SSH_HOME)
            os.chmod(os.path.join(fb, 'ssh'), 0o755)
            home, tmpd, cwd = (os.path.join(root, x) for x in ('home', 'tmp', 'cwd'))
            src = {'': {'k': 'dir'}, 'a.txt': {'k': 'file', 'data': b'A%d' % i, 'mtime_ns': sync_e2e.T0 + i}, 'sub': {'k': 'dir'},
                   'sub/b.txt': {'k': 'file', 'data': b'B', 'mtime_ns': sync_e2e.T0 + 3}}
            decoy = {'': {'k': 'dir'}, 'unrelated.db': {'k': 'file', 'data': b'U', 'mtime_ns': sync_e2e.T0 - 7}, 'a.txt': {'k': 'file', 'data': b'old', 'mtime_ns': sync_e2e.T0 - 9}}
            side = ('dest', 'src', 'both')[i % 3]
            for d in (home, tmpd, cwd):
                os.makedirs(os.path.join(d, 'backup'))
                e2e.build_tree(os.path.join(d, 'backup', 'data'), decoy)
            e2e.build_tree(os.path.join(root, 'abs_src'), src)
            if side in ('src', 'both'):
                shutil.rmtree(os.path.join(home, 'backup', 'data'))
                e2e.build_tree(os.path.join(home, 'backup', 'data'), src)
            if side == 'dest':
                a = [os.path.join(root, 'abs_src') + '/', 'localhost:backup/data/']
            elif side == 'src':
                a = ['localhost:backup/data/', os.path.join(root, 'abs_dest') + '/']
            else:
                os.makedirs(os.path.join(home, 'copy'))
                e2e.build_tree(os.path.join(home, 'copy', 'x'), decoy)
                a = ['localhost:backup/data/', 'localhost:copy/x/']
            dry = (i % 5 == 4)
            snaps = lambda: {k: e2e.snapshot(os.path.join(root, k)) for k in ('home', 'tmp', 'cwd', 'abs_src', 'abs_dest')}
            before = snaps()
            r = e2e.run_cli(binary, a + ['--dest-entry-needs-deleting', 'delete'] + (['--dry-run'] if dry else []), cwd=cwd, fake_ssh=fb,
                            env={'FAKE_SSH_HOME': home, 'TMPDIR': tmpd, 'HOME': home}, timeout=60)
            after = snaps()
            run.count('relative-remote:' + side)
            run.case(('relative-remote', side, i, dry), True)
            bad = None
            for k in ('tmp', 'cwd', 'abs_src'):
                if after[k] != before[k]:
                    bad = 'a tree that is not the destination changed: %s (%s)' % (k, sorted(set(before[k].items()) ^ set(after[k].items()))[:3])
            if not bad and r['exit'] != 0:
                bad = 'exit %s: %s' % (r['exit'], r['stderr'][-300:])
            if not bad and dry and after != before:
                bad = 'the dry run changed something'
            if not bad and not dry:
                want_src = e2e.snapshot(os.path.join(root, 'abs_src'))
                got = {'dest': e2e.snapshot(os.path.join(home, 'backup', 'data')), 'src': e2e.snapshot(os.path.join(root, 'abs_dest')),
                       'both': e2e.snapshot(os.path.join(home, 'copy', 'x'))}[side]
                if got != want_src:
                    bad = 'the destination named on the command line (relative to the login directory) is not a mirror of the source'
            if bad:
                run.fail('C02 relative remote path (%s remote%s): %s' % (side, ', dry run' if dry else '', bad),
                         {'family': 'relative-remote', 'side': side, 'args': a, 'dry': dry, 'exit': r['exit'], 'stderr': r['stderr'][-400:]})
        finally:
            shutil.rmtree(root, ignore_errors=True)


def size_change_scripted(run, binary, jbin, quick):
    """The source file has another length at copy time than at listing time (it grew or shrank in between): whatever the boss does about it
    - stop, report, clean up - it does it on the DESTINATION; the source doer is only ever asked to report its root, list and read.  The REAL
    boss against scripted doers whose listing announces one size and whose content has another."""
    import scripted
    rng = run.rng
    T = sync_e2e.T0
    reqs = []
    for g in range(24 if quick else 600):
        real_len = rng.choice([10, 5000, 9000, 20000])
        listed = rng.choice([0, 1, 4096, real_len - 1, real_len + 1, real_len + 5000, max(0, real_len - 4097)])
        if listed == real_len:
            listed += 1
        src = {'': {'k': 'dir'}, 'a': {'k': 'file', 'data': b'A', 'mtime_ns': T}, 'grow.log': {'k': 'file', 'data': bytes(rng.randrange(256) for _ in range(real_len)), 'mtime_ns': T + 1},
               'z': {'k': 'file', 'data': b'Z', 'mtime_ns': T + 2}}
        dest = {'': {'k': 'dir'}}
        if rng.random() < 0.5:
            dest['grow.log'] = {'k': 'file', 'data': b'old', 'mtime_ns': T - 5}
        sc = sync_e2e.Scenario()
        sc.src, sc.dest = src, dest
        sc.cfg = {'newer': 'A', 'older': 'A', 'same': 'S', 'entry': 'A', 'root': 'A'}
        ls = scripted.model_listing(jbin, sc.src)
        ld = scripted.model_listing(jbin, sc.dest)
        ls = [(p, ('F:%d:%d' % (T + 1, listed)) if p == 'grow.log' else e) for p, e in ls]
        sched = ''.join(rng.sample(['S'] * len(ls) + ['D'] * len(ld), len(ls) + len(ld)))
        reqs.append((sc, ls, ld, sched, listed, real_len))
    impl = scripted.run_batch(binary, [scripted.harness_line(sc, ls, ld, sched) for sc, ls, ld, sched, _, _ in reqs], timeout=600)
    for (sc, ls, ld, sched, listed, real_len), im in zip(reqs, impl):
        run.count('size-change-scripted')
        run.case(('size-change', listed, real_len, sched, 'grow.log' in sc.dest), True)
        run.traces_validated += 1
        other = [c for c in im['src'] if c[0] != 'Get']
        if other:
            run.fail('C02: a source file listed with %d bytes has %d at copy time and the SOURCE doer was sent %s' % (listed, real_len, other[:3]),
                     {'family': 'size-change-scripted', 'listed': listed, 'real': real_len, 'sched': sched, 'src_trace': im['src'], 'dest_trace': im['dest']})
        elif im['ok']:
            run.fail('C02/C11: a source file listed with %d bytes has %d at copy time and sync() returned Ok' % (listed, real_len),
                     {'family': 'size-change-scripted', 'listed': listed, 'real': real_len, 'sched': sched})


def check(run):
    run.trusted = list(vlib.COMMON_TRUSTED) + ['the source-text scan of send_command sites (harness facts-sites) - the one syntactic input']
    run.assumptions = ['source and destination paths are not nested; no destination file is hard-linked from outside']
    run.extra['rule'] = ('mixed-profile tree pairs (behaviours, answers, dry runs) with decoys and links to them; each small scenario additionally with an '
                         'injected failure at every destination operation index; remote placements sampled; non-trivial = the run sent at least one '
                         'mutating command or failed; distinct by scenario hash + fault')
    binary = vlib.build_impl()
    vlib.regen_facts(binary)
    run.check_proofs('C02', THEOREMS, extra_targets=['theories/Extract/Ex_sync.vo'])
    run.check_path_translation()      # is_same_or_inside as regenerated from the source text = component-wise prefix, no panic
    jbin = vlib.build_judge('sync')
    rng = run.rng
    quick = run.tier == 'quick'
    known = {f['id']: f for f in vlib.known_findings('C02')}
    base = tempfile.mkdtemp(prefix='c02_', dir=vlib.CACHE)
    fake = e2e.fake_ssh_dir(base)
    try:
        f6b_witness(run, binary, jbin, base, known)
        from props.c01 import run_inside_names
        run_inside_names(run, binary, base, prop='C02')          # F14: odd names of a file source placed inside a trailing-slash destination
        relative_remote_family(run, binary, base, rng, 9 if quick else 60)
        size_change_scripted(run, binary, jbin, quick)
        from props.c17 import unreadable_subfolder_family
        unreadable_subfolder_family(run, binary)       # a boss that plans without the whole destination listing writes through the links that are there
        from props.c12 import kept_link_scripted
        kept_link_scripted(run, binary, jbin, quick, prop='C02')
        scen = []
        for i in range(170 if quick else 12000):
            sc = sync_e2e.gen_scenario(rng, 'mixed' if i % 3 else 'clean')
            if i % 9 == 4:
                sc.placement = rng.choice(['RL', 'LR', 'RR'])
            scen.append(sc)
        # link-heavy destinations: every destination entry that conflicts is a link to a populated decoy
        for i in range(40 if quick else 3000):
            sc = sync_e2e.gen_scenario(rng, 'mixed')
            for p in list(sc.src):
                if p and rng.random() < 0.5 and not any(q.startswith(p + '/') for q in sc.dest):
                    if '' not in sc.dest:
                        sc.dest[''] = {'k': 'dir'}
                        sc.dest_anc = 'ok'            # the destination now exists: its ancestors do too
                    par = p.rsplit('/', 1)[0] if '/' in p else ''
                    if par in sc.dest and sc.dest[par]['k'] == 'dir':
                        for q in [q for q in sc.dest if q.startswith(p + '/')]:
                            sc.dest.pop(q)
                        up = '../' * (p.count('/') + 1)
                        sc.dest[p] = {'k': 'link', 'text': (up + rng.choice(['outside/target.txt', 'outside/dir'])).encode()}
            sc.tag = 'linky'
            scen.append(sc)
        # fault injection: every operation index of small scenarios
        faulty = []
        for sc in scen[:60 if quick else 2000]:
            if sc.dry or sc.placement != 'LL':
                continue
            for k in range(0, 6):
                s2 = sync_e2e.Scenario.from_json(sc.to_json())
                s2.faults = {'fd': [k], 'fsrc': [], 'lag': 0}
                s2.tag = 'fault'
                faulty.append(s2)
        for sc in scen + faulty:
            o = sync_e2e.run_scenario(sc, binary, jbin, base, fake_ssh=fake)
            im = o.impl
            run.count('tag:' + (sc.tag or 'random'))
            run.count('exit:%s' % im['exit'])
            nontrivial = bool(im['dest_trace']) or im['exit'] != 0
            run.case((sc.key(), tuple(sc.faults['fd'])), nontrivial,
                     sample={'cfg': sc.cfg, 'dry': sc.dry, 'faults': sc.faults, 'placement': sc.placement, 'exit': im['exit'], 'src_cmds': sorted(set(im['src_cmds']))})
            run.traces_validated += 1
            bad = None
            if im['after']['src'] != im['before']['src']:
                bad = 'the source changed'
            elif any(c not in READ_ONLY for c in im['src_cmds']):
                bad = 'the source doer was sent %s' % sorted(set(im['src_cmds']) - READ_ONLY)
            elif im['after']['outside'] != im['before']['outside']:
                bad = 'something outside the destination changed: %s' % [k for k in set(im['after']['outside']) | set(im['before']['outside'])
                                                                        if im['after']['outside'].get(k) != im['before']['outside'].get(k)][:4]
            if bad:
                run.fail('C02: ' + bad, {'scenario': sc.to_json(), 'text': im['text'][-800:]})
            elif o.mismatch and sc.placement == 'LL':
                run.broke('correspondence', 'e2e', json.dumps({'scenario': sc.to_json(), 'mismatch': o.mismatch})[:2500])
        # spec files with several syncs: a root that is only ever a source is never changed
        import spec_e2e
        spec_e2e.family(run, binary, jbin, base, 30 if quick else 1500, rng, 'C02')
    finally:
        shutil.rmtree(base, ignore_errors=True)
    return run.finish(search=None)


def replay(run, path):
    print(open(path).read()[:4000])
    return check(run)
