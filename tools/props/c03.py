"""C03 - Nothing on the destination is deleted or overwritten without configured consent.

Proof: Props/C03.v.  Tie: the real CLI on generated tree pairs x behaviour assignments x prompt-answer
sequences (answers fed through RJRSSYNC_TEST_PROMPT_RESPONSE), compared with the extracted model
(final tree, traces, prompts, exit), plus the behaviour product on a fixed "everything applies" tree.
Oracle on the implementation only: every deleted / replaced / overwritten destination entry needs
the consent of its category; an error behaviour or a cancelled prompt leaves the destination
byte-identical and exits non-zero."""
import os, sys, json, tempfile, shutil, itertools
import vlib, e2e, sync_e2e
from sync_e2e import T0

THEOREMS = ['C03_delete_needs_consent', 'C03_overwrite_needs_consent', 'C03_no_leak', 'C03_no_leak_entry',
            'C03_error_fails', 'C03_unattended_fails', 'C03_cancel_fails', 'C03_skip_removes_all',
            'C03_only_confirmable_removed', 'C03_error_is_clean', 'C03_decide_first_a', 'C03_decide_first_b',
            'C03_skip_keeps_partial', 'C03_end_to_end', 'C03_end_to_end_executable', 'C03_end_to_end_walked']


def consent(cfg, answers, cat):
    v = cfg[cat]
    return v == 'A' or (v == 'P' and any(a in ('o1', 'a1') for a in answers))


def oracle(sc, impl):
    """Returns a description of a consent violation on the implementation's observation, or None."""
    before, after = impl['before']['dest'], impl['after']['dest']
    src = impl['before']['src']
    text = impl['text']
    if sc.dry and before != after:
        return 'dry run changed the destination'
    decision_error = ('Will not delete' in text) or ('Will not overwrite' in text) or ('Errorring as requested' in text)
    if decision_error:
        if impl['exit'] == 0:
            return 'error behaviour / cancelled prompt but exit status 0'
        if before != after:
            return 'error behaviour / cancelled prompt but the destination changed'
    for p, b in before.items():
        a = after.get(p)
        replaced = a is None or a[0] != b[0] or (b[0] == 'link' and a[1] != b[1])
        if replaced:
            if not consent(sc.cfg, sc.answers, 'entry'):
                return 'destination entry %r was deleted/replaced without entry-deletion consent (%s, answers %s)' % (p, sc.cfg['entry'], sc.answers)
            if p == '' and not consent(sc.cfg, sc.answers, 'root'):
                return 'destination root was deleted/replaced without root-deletion consent'
        elif b[0] == 'file' and (a[1], a[2], a[3]) != (b[1], b[2], b[3]):
            s = src.get(p)
            if s is None or s[0] != 'file':
                return 'destination file %r changed although the source has no file there' % p
            case = 'same' if b[3] == s[3] else ('newer' if b[3] > s[3] else 'older')
            if not consent(sc.cfg, sc.answers, case):
                return 'destination file %r (%s) was overwritten without consent (%s, answers %s)' % (p, case, sc.cfg[case], sc.answers)
    return None


def everything_tree(rootconflict=False):
    f = lambda data, dt: {'k': 'file', 'data': data, 'mtime_ns': T0 + dt}
    src = {'': {'k': 'dir'}, 'fnew': f(b'src-new', 0), 'fold': f(b'src-old', 0), 'fsame': f(b'src-same', 0),
           'conf': {'k': 'dir'}, 'conf/x': f(b'x', 0), 'keep': f(b'keep', 5), 'lnk': {'k': 'link', 'text': b'keep'}}
    dest = {'': {'k': 'dir'}, 'fnew': f(b'dest-newer', 10), 'fold': f(b'dest-older', -10), 'fsame': f(b'dest-same', 0),
            'conf': f(b'conflict', 3), 'keep': f(b'keep', 5), 'extra': f(b'extra', 1), 'extradir': {'k': 'dir'},
            'extradir/y': f(b'y', 2), 'lnk': {'k': 'link', 'text': b'other'}}
    if rootconflict:
        dest = {'': f(b'i am a file', 1)}
    return src, dest


def check(run):
    run.trusted = list(vlib.COMMON_TRUSTED) + ['dialoguer / the test prompt hook (RJRSSYNC_TEST_PROMPT_RESPONSE) deliver the scripted answers']
    run.assumptions = ['prompt answers reach the boss in prompt order; an unattended terminal cancels']
    run.extra['rule'] = ('random tree pairs x random behaviours x random answer sequences (mixed profile), plus behaviour assignments over the five '
                         'categories on a fixed tree where every category applies (thorough: all 4^5 + root conflict; quick: a sample); non-trivial = '
                         'at least one destructive action was planned or refused; distinct by scenario hash')
    binary = vlib.build_impl()
    vlib.regen_facts(binary)
    run.check_proofs('C03', THEOREMS, extra_targets=['theories/Extract/Ex_sync.vo'])
    run.check_path_translation()      # is_same_or_inside as regenerated from the source text = component-wise prefix, no panic
    jbin = vlib.build_judge('sync')
    rng = run.rng
    quick = run.tier == 'quick'
    from props.c12 import kept_link_scripted          # 'skip' on a link in the way: nothing for it or below it, in every arrival order
    kept_link_scripted(run, binary, jbin, quick, prop='C03')
    scen = []
    for i in range(160 if quick else 15000):
        sc = sync_e2e.gen_scenario(rng, 'mixed')
        sc.tag = 'random'
        scen.append(sc)
    assigns = list(itertools.product('PESA', repeat=5))
    if quick:
        assigns = rng.sample(assigns, 90)
    for a in assigns:
        for rc in ([False] if quick or rng.random() < 0.8 else [False, True]):
            sc = sync_e2e.Scenario()
            sc.src, sc.dest = everything_tree(rc)
            sc.outside = {'': {'k': 'dir'}}
            sc.cfg = dict(zip(['newer', 'older', 'same', 'entry', 'root'], a))
            sc.answers = [rng.choice(['o1', 'o0', 'a1', 'a0', 'c', 'o1']) for _ in range(rng.randrange(0, 7))]
            sc.tag = 'product'
            if len(scen) % 4 == 1:
                # behind a remote doer the entry details (times to the nanosecond - the tree's files differ by 10 ns) cross the wire
                sc.placement = ['LR', 'RL', 'RR'][(len(scen) // 4) % 3]
                sc.tag = 'product-remote'
            scen.append(sc)
    # assignments that tell the three file cases apart (exactly one of newer / older / same withholds consent), behind remote doers: the
    # files of the tree differ by 10 ns, so a side that loses time precision on the wire puts a file into the wrong case
    for a3 in (('E', 'A', 'A'), ('S', 'A', 'A'), ('A', 'S', 'A'), ('A', 'E', 'A'), ('A', 'A', 'S'), ('A', 'A', 'E')):
        for pl in ('LR', 'RL', 'RR'):
            sc = sync_e2e.Scenario()
            sc.src, sc.dest = everything_tree(False)
            sc.outside = {'': {'k': 'dir'}}
            sc.cfg = {'newer': a3[0], 'older': a3[1], 'same': a3[2], 'entry': 'A', 'root': 'A'}
            sc.placement, sc.tag = pl, 'separating-remote'
            scen.append(sc)
    for rc_assign in itertools.product('PESA', repeat=2):     # root conflict: root x entry behaviours, all answers
        for ans in ([], ['o1'], ['o0'], ['c'], ['o1', 'o1'], ['o1', 'c'], ['o1', 'o0']):
            sc = sync_e2e.Scenario()
            sc.src, sc.dest = everything_tree(True)
            sc.outside = {'': {'k': 'dir'}}
            sc.cfg = {'newer': 'A', 'older': 'A', 'same': 'S', 'entry': rc_assign[1], 'root': rc_assign[0]}
            sc.answers = list(ans)
            sc.tag = 'rootconflict'
            scen.append(sc)
    base = tempfile.mkdtemp(prefix='c03_', dir=vlib.CACHE)
    fake = e2e.fake_ssh_dir(base)
    try:
        for sc in scen:
            o = sync_e2e.run_scenario(sc, binary, jbin, base, fake_ssh=fake if 'R' in sc.placement else None)
            run.count('tag:' + sc.tag)
            run.count('exit:%s' % o.impl['exit'])
            run.count('prompts:%d' % min(o.impl['nprompts'], 5))
            nontrivial = bool(o.impl['dest_trace']) or o.impl['exit'] != 0 or o.impl['nprompts'] > 0
            run.case(sc.key(), nontrivial, sample={'cfg': sc.cfg, 'answers': sc.answers, 'exit': o.impl['exit'],
                                                    'prompts': o.impl['nprompts'], 'dest_trace': [list(x) for x in o.impl['dest_trace'][:6]]})
            run.traces_validated += 1
            bad = oracle(sc, o.impl)
            if bad:
                run.fail('C03: ' + bad, {'scenario': sc.to_json(), 'exit': o.impl['exit'], 'text': o.impl['text'][-1500:],
                                         'before': e2e.snap_json(o.impl['before']['dest']), 'after': e2e.snap_json(o.impl['after']['dest'])})
            elif o.mismatch:
                run.broke('correspondence', 'e2e', json.dumps({'scenario': sc.to_json(), 'mismatch': o.mismatch})[:2500])
    finally:
        shutil.rmtree(base, ignore_errors=True)
    return run.finish(search=None)


def replay(run, path):
    print(open(path).read()[:4000])
    return check(run)
