"""C04 - Repeating a successful sync does nothing.

Proof: Props/C04.v (mirror => empty second plan => no-op second run; link text and file times read
back as written).  Tie: every generated scenario whose first real run succeeds without skips is run a
second time in the same sandbox; oracle on the implementation: "Nothing to do!", no create / update /
delete command, no content fetch, byte- and timestamp-identical destination.  Families: random tree
pairs, nanosecond / epoch / far-future mtimes, every link-text form.  Known finding F7 (non-UTF-8 link
text is re-created on every run) is reported as KNOWN-FINDING for exactly that class."""
import os, sys, json, tempfile, shutil
import vlib, e2e, sync_e2e
from sync_e2e import T0

THEOREMS = ['C04_idempotent', 'C04_idempotent_executable', 'C04_mirror_plans_nothing', 'C04_link_text_reads_back', 'C04_time_reads_back',
            'C04_refuted_for_ill_formed_link_text', 'C04_idempotent_walked', 'C04_spec_twice']

LINK_FORMS = [b'a', b'./a', b'a/', b'a//b', b'../x', b'.', b'..', b'x/./y', b'/abs/x', b'//abs', b'a\\b', b'dir/../a', b' ', b'a b', b'\xc3\xa9',
              b'nonexistent', b'./.', b'a/.', b'.hidden', b'...']
NONUTF8 = [b't\xffx', b'\xfe', b'a/\xc0\xaf']
TIMES = [0, 1, 999_999_999, 10**9, T0 + 123_456_789, 2**31 * 10**9, 2**31 * 10**9 + 1, 4_102_444_800 * 10**9 + 5, 4_500_000_000 * 10**9 + 999_999_999,
         10_413_792_000 * 10**9 + 7]      # ... 2100, 2112, and 2300: beyond what a signed 64-bit nanosecond count holds (2262)


def is_utf8(b):
    try:
        b.decode('utf-8')
        return True
    except UnicodeDecodeError:
        return False


def family_scenarios(rng):
    out = []
    sc = sync_e2e.Scenario()
    sc.src = {'': {'k': 'dir'}}
    for i, t in enumerate(LINK_FORMS):
        sc.src['l%d' % i] = {'k': 'link', 'text': t}
    for i, t in enumerate(TIMES):
        sc.src['f%d' % i] = {'k': 'file', 'data': b'x' * i, 'mtime_ns': t}
    sc.cfg = {'newer': 'A', 'older': 'A', 'same': 'S', 'entry': 'A', 'root': 'A'}
    sc.outside = {'': {'k': 'dir'}}
    sc.tag = 'forms'
    out.append(sc)
    for pl in ('LR', 'RL', 'RR'):          # behind a remote doer every entry detail (times, link texts) crosses the wire in both directions
        s3 = sync_e2e.Scenario.from_json(sc.to_json())
        s3.placement, s3.tag = pl, 'forms-' + pl
        out.append(s3)
    for t in NONUTF8:
        s2 = sync_e2e.Scenario()
        s2.src = {'': {'k': 'dir'}, 'weird': {'k': 'link', 'text': t}, 'ok': {'k': 'file', 'data': b'1', 'mtime_ns': T0}}
        s2.cfg = dict(sc.cfg)
        s2.outside = {'': {'k': 'dir'}}
        s2.tag = 'nonutf8'
        out.append(s2)
    return out


def known_class(sc):
    """F7: some source link text is not valid UTF-8."""
    return any(n['k'] == 'link' and not is_utf8(n['text']) for n in sc.src.values())


def run_unprivileged_twice(run, binary, base, rng, n):
    """The sync runs twice as an unprivileged user over destination files that belong to somebody else (writable, but their
    time cannot be set): whenever the first run exits 0 the second must do nothing."""
    from props.c07 import UNPRIV
    T0 = sync_e2e.T0
    if os.geteuid() != 0 or not shutil.which('setpriv') or e2e.run_cli(binary, ['--version'], prefix=UNPRIV, timeout=30)['exit'] != 0:
        run.count('unpriv:skipped')
        return
    os.chmod(base, 0o755)
    for i in range(n):
        root = tempfile.mkdtemp(prefix='unp_', dir=base)
        try:
            os.chmod(root, 0o777)
            src, dest, owners = {'': {'k': 'dir'}}, {'': {'k': 'dir'}}, {}
            for k in range(rng.randrange(1, 5)):
                nm = 'f%d' % k
                src[nm] = {'k': 'file', 'data': b'new-%d' % k, 'mtime_ns': T0 + 5 * 10**9 + k}
                if rng.random() < 0.8:
                    dest[nm] = {'k': 'file', 'data': b'old', 'mtime_ns': T0 - 10**9 * rng.choice([1, 50])}
                    owners[nm] = rng.choice(['root', 'nobody'])
            e2e.build_tree(os.path.join(root, 'src'), src)
            e2e.build_tree(os.path.join(root, 'dest'), dest)
            os.chmod(os.path.join(root, 'dest'), 0o777)
            os.chown(os.path.join(root, 'dest'), 65534, 65534)
            for nm, who in owners.items():
                pth = os.path.join(root, 'dest', nm)
                os.chmod(pth, 0o666)
                if who == 'nobody':
                    st = os.stat(pth)
                    os.chown(pth, 65534, 65534)
                    os.utime(pth, ns=(st.st_mtime_ns, st.st_mtime_ns))
            args = [os.path.join(root, 'src'), os.path.join(root, 'dest'), '--dest-file-newer', 'overwrite', '--dest-file-older', 'overwrite']
            r1 = e2e.run_cli(binary, args, prefix=UNPRIV, timeout=60)
            run.count('unpriv:first-exit:%s' % r1['exit'])
            run.case(('unpriv-twice', i), True)
            if r1['exit'] != 0:
                continue
            snap1 = e2e.snapshot(os.path.join(root, 'dest'))
            r2 = e2e.run_cli(binary, args, prefix=UNPRIV, timeout=60)
            text2 = r2['stdout'] + r2['stderr']
            if r2['exit'] != 0 or e2e.snapshot(os.path.join(root, 'dest')) != snap1 or 'Nothing to do' not in text2:
                run.fail('C04: unprivileged run over files owned by somebody else: the first run exited 0, the second one %s' %
                         ('exits %s' % r2['exit'] if r2['exit'] != 0 else 'did something'), {'family': 'unprivileged-twice', 'owners': owners,
                          'first_text': (r1['stdout'] + r1['stderr'])[-500:], 'second_text': text2[-500:]})
        finally:
            shutil.rmtree(root, ignore_errors=True)


def run_table_twice(run, binary, base):
    """Every accepted cell of the trailing-slash table (file / link / folder source, with and without trailing slashes,
    destination missing, file, link or folder), run twice with the very same command line: the second run does nothing."""
    from props.c01 import table_cases, table_expect
    T0 = sync_e2e.T0
    fdata = lambda s_, dt: {'k': 'file', 'data': s_, 'mtime_ns': T0 + dt}
    for (sk, ss, dk, ds) in table_cases():
        if table_expect(sk, ss, dk, ds, False) == 'X':
            continue
        root = tempfile.mkdtemp(prefix='tb2_', dir=base)
        try:
            open(os.path.join(root, 'tfile'), 'w').write('tf')
            os.mkdir(os.path.join(root, 's'))
            os.mkdir(os.path.join(root, 'd'))
            stree = {'file': {'': fdata(b'SRC', 1)}, 'link': {'': {'k': 'link', 'text': b'../tfile'}},
                     'dir': {'': {'k': 'dir'}, 'x': fdata(b'x', 2), 'sub': {'k': 'dir'}, 'sub/y': fdata(b'yy', 3)}}[sk]
            e2e.build_tree(os.path.join(root, 's', 'a'), stree)
            if dk is not None:
                dtree = {'file': {'': fdata(b'OLD', -9)}, 'link': {'': {'k': 'link', 'text': b'../tfile'}},
                         'dir': {'': {'k': 'dir'}, 'old': fdata(b'old', -4)}}[dk]
                e2e.build_tree(os.path.join(root, 'd', 'b'), dtree)
            sp = os.path.join(root, 's', 'a') + ('/' if ss else '')
            dp = os.path.join(root, 'd', 'b') + ('/' if ds else '')
            args = [sp, dp, '--dest-root-needs-deleting', 'delete', '--dest-file-newer', 'overwrite']
            r1 = e2e.run_cli(binary, args, timeout=60)
            run.count('table-twice:first-exit:%s' % r1['exit'])
            run.case(('table-twice', sk, ss, dk, ds), True, sample={'cell': [sk, ss, dk, ds], 'first_exit': r1['exit']} if (sk, dk) == ('file', None) else None)
            if r1['exit'] != 0:
                continue
            mid = e2e.snapshot(root)
            r2 = e2e.run_cli(binary, args, timeout=60)
            text2 = r2['stdout'] + r2['stderr']
            if r2['exit'] != 0 or e2e.snapshot(root) != mid or 'Nothing to do' not in text2:
                run.fail('C04 (table cell src=%s%s dest=%s%s): the first run exited 0, the same command again %s' %
                         (sk, '/' if ss else '', dk, '/' if ds else '', 'exits %s' % r2['exit'] if r2['exit'] != 0 else 'did something'),
                         {'family': 'table-twice', 'cell': [sk, ss, dk, ds], 'second_text': text2[-500:]})
        finally:
            shutil.rmtree(root, ignore_errors=True)


def check(run):
    run.trusted = list(vlib.COMMON_TRUSTED)
    run.assumptions = ['the destination file system stores nanosecond timestamps', 'source static between the two runs']
    run.extra['rule'] = ('every scenario (clean profile: all permitted, files-same-time=skip) is run twice in one sandbox; families: random tree pairs, '
                         'all link-text forms, edge mtimes; non-trivial = the first run changed the destination; distinct by scenario hash')
    binary = vlib.build_impl()
    vlib.regen_facts(binary)
    run.check_proofs('C04', THEOREMS, extra_targets=['theories/Extract/Ex_sync.vo'])
    run.check_translation()      # needs_delete / needs_copy / process_*_entry as regenerated from the source text = the model
    jbin = vlib.build_judge('sync')
    rng = run.rng
    n = 200 if run.tier == 'quick' else 16000
    scen = family_scenarios(rng)
    for i in range(n):
        sc = sync_e2e.gen_scenario(rng, 'clean')
        sc.cfg['same'] = 'S'
        sc.tag = 'random'
        scen.append(sc)
    known = {f['id']: f for f in vlib.known_findings('C04')}
    base = tempfile.mkdtemp(prefix='c04_', dir=vlib.CACHE)
    fake = e2e.fake_ssh_dir(base)
    try:
        for sc in scen:
            root, src_abs, dest_abs = sync_e2e.make_sandbox(sc, base)
            try:
                args = sync_e2e.cli_args(sc, src_abs, dest_abs)
                fk = fake if 'R' in sc.placement else None
                r1 = e2e.run_cli(binary, args, fake_ssh=fk)
                run.count('tag:' + sc.tag)
                run.count('first-exit:%s' % r1['exit'])
                if r1['exit'] != 0:
                    run.case(sc.key(), False)
                    continue
                snap1 = e2e.snapshot(dest_abs)
                log = os.path.join(root, 'cmdlog2')
                r2 = e2e.run_cli(binary, args, env={'RJRSSYNC_VERIF_CMD_LOG': log}, fake_ssh=fk)
                snap2 = e2e.snapshot(dest_abs)
                try:
                    lines = open(log).read().splitlines()
                except OSError:
                    lines = []
                dtr, _ = sync_e2e.canon_trace(lines, 'dest')
                strc, _ = sync_e2e.canon_trace(lines, 'src')
                out2 = e2e.parse_output(r2['stdout'] + r2['stderr'])
                run.case(sc.key(), 'Nothing to do' not in (r1['stdout'] + r1['stderr']),
                         sample={'tag': sc.tag, 'second_run': (r2['stderr'] + r2['stdout']).strip()[-120:], 'dest_trace2': [list(x) for x in dtr[:4]]})
                run.traces_validated += 1
                bad = None
                if r2['exit'] != 0:
                    bad = 'second run failed with exit %s' % r2['exit']
                elif snap2 != snap1:
                    bad = 'second run changed the destination'
                elif dtr:
                    bad = 'second run sent %s' % (dtr[:4],)
                elif strc:
                    bad = 'second run fetched content %s' % (strc[:3],)
                elif not out2['nothing']:
                    bad = 'second run did not report "Nothing to do!": %s' % (r2['stderr'] + r2['stdout']).strip()[-200:]
                if bad:
                    if known_class(sc) and 'F7' in known:
                        run.known('F7', known['F7']['what'])
                    else:
                        run.fail('C04: ' + bad, {'scenario': sc.to_json(), 'second_output': (r2['stderr'] + r2['stdout'])[-800:]})
                # correspondence: the model, given what the first run left, predicts the second run's commands
                m2 = sync_e2e.parse_model(vlib.judge(jbin, [sync_e2e.model_line(sc_after(sc, snap1, dest_abs), src_abs, dest_abs,
                                                      (sync_e2e.bfs_order(src_abs), sync_e2e.bfs_order(dest_abs)))])[0])
                if sync_e2e.canon_model_trace(m2['dest']) != dtr or m2['ok'] != (r2['exit'] == 0):
                    run.broke('correspondence', 'second-run', json.dumps({'scenario': sc.to_json(), 'impl_trace': dtr,
                                                                          'model': {k: v for k, v in m2.items() if k != 'fs'}})[:2000])
            finally:
                shutil.rmtree(root, ignore_errors=True)
        # specs with several syncs (chains A -> B, B -> C included) run twice: the second run does nothing (C04_spec_twice)
        import spec_e2e
        spec_e2e.twice_family(run, binary, base, 40 if run.tier == 'quick' else 2500, rng)
        run_unprivileged_twice(run, binary, base, rng, 20 if run.tier == 'quick' else 600)
        run_table_twice(run, binary, base)
    finally:
        shutil.rmtree(base, ignore_errors=True)
    return run.finish(search=None)


def sc_after(sc, snap, dest_abs):
    """The scenario whose destination tree is what the first run left (read back from disk)."""
    s2 = sync_e2e.Scenario.from_json(sc.to_json())
    d = {}
    for rel, v in snap.items():
        p = os.path.join(dest_abs, rel) if rel else dest_abs
        if v[0] == 'dir':
            d[rel] = {'k': 'dir'}
        elif v[0] == 'link':
            d[rel] = {'k': 'link', 'text': v[1]}
        elif v[0] == 'file':
            with open(p, 'rb') as f:
                d[rel] = {'k': 'file', 'data': f.read(), 'mtime_ns': v[3]}
    s2.dest = d
    s2.dest_anc = 'ok'
    return s2


def replay(run, path):
    print(open(path).read()[:4000])
    return check(run)
