"""C05 - --dry-run changes nothing and predicts exactly what a real run does.

Proof: Props/C05.v.  Tie: every scenario is run twice on the real CLI in fresh identical sandboxes -
with --dry-run and without - and on the extracted model.  Oracle on the implementation: the dry run
leaves source, destination, decoys and missing ancestors untouched, sends no mutating command and
fetches no content; its "Would ..." lines and summary counts equal what the real run then does."""
import os, sys, json, tempfile, shutil, re
import vlib, e2e, sync_e2e

THEOREMS = ['C05_inert', 'C05_predicts', 'C05_would_lines_name_the_steps']


def would_set(impl, dest_root_marker):
    """[(action, relpath-hex)] parsed from the Would lines; paths are made root-relative."""
    out = []
    for act, rest in impl['out']['would']:
        m = re.findall(r"'([^']*)'", rest)
        if not m:
            continue
        path = m[-1]
        kind = 'root' if ' root ' in (' ' + rest) and rest.count("'") == 2 and 'root' in rest.split("'")[0] else ''
        i = path.find(dest_root_marker)
        rel = path[i + len(dest_root_marker):].lstrip('/') if i >= 0 else path
        what = {'delete': 'del', 'copy': 'W', 'create': 'Mk' if 'folder' in rest.split("'")[0] else 'Lnk'}[act]
        out.append((what, rel.encode().hex() if rel else '-'))
    return sorted(out)


def real_set(impl):
    out = []
    for c in impl['dest_trace']:
        if c[0] in ('RmF', 'RmD', 'RmL'):
            out.append(('del', c[1]))
        elif c[0] in ('W', 'Mk', 'Lnk'):
            out.append((c[0], c[1]))
    return sorted(out)


def counts(out):
    d = out['deleted'] or {'files': 0, 'folders': 0, 'symlinks': 0}
    c = out['copied'] or {'files': 0, 'folders': 0, 'symlinks': 0}
    return [d['files'], d['folders'], d['symlinks'], c['files'], c['folders'], c['symlinks'], out['nothing']]


def run_dry_table(run, binary, base):
    """Every cell of the trailing-slash table (file / link / folder source, with and without trailing slashes, destination
    missing - with 0 or 2 missing ancestors -, file, link or folder) under --dry-run: NOTHING in the sandbox may change,
    not even missing destination ancestors; and the dry run succeeds exactly when the real run does."""
    T0 = sync_e2e.T0
    fdata = lambda s_, dt: {'k': 'file', 'data': s_, 'mtime_ns': T0 + dt}
    for sk in ('file', 'link', 'dir'):
        for ss in (False, True):
            for dk in (None, 'file', 'link', 'dir'):
                for ds in (False, True):
                    for depth in ((0, 2) if dk is None else (0,)):
                        res = []
                        for dry in (True, False):
                            root = tempfile.mkdtemp(prefix='dtb_', dir=base)
                            try:
                                os.mkdir(os.path.join(root, 'box'))
                                box = os.path.join(root, 'box')
                                open(os.path.join(box, 'tfile'), 'w').write('tf')
                                os.mkdir(os.path.join(box, 's'))
                                os.mkdir(os.path.join(box, 'd'))
                                stree = {'file': {'': fdata(b'SRC', 1)}, 'link': {'': {'k': 'link', 'text': b'../tfile'}},
                                         'dir': {'': {'k': 'dir'}, 'x': fdata(b'x', 2), 'sub': {'k': 'dir'}, 'sub/y': fdata(b'yy', 3)}}[sk]
                                e2e.build_tree(os.path.join(box, 's', 'a'), stree)
                                dparent = os.path.join(box, 'd', *(['m1', 'm2'][:depth]))
                                if dk is not None:
                                    dtree = {'file': {'': fdata(b'OLD', -9)}, 'link': {'': {'k': 'link', 'text': b'../tfile'}},
                                             'dir': {'': {'k': 'dir'}, 'old': fdata(b'old', -4)}}[dk]
                                    e2e.build_tree(os.path.join(dparent, 'b'), dtree)
                                sp = os.path.join(box, 's', 'a') + ('/' if ss else '')
                                dp = os.path.join(dparent, 'b') + ('/' if ds else '')
                                before = e2e.snapshot(box)
                                r = e2e.run_cli(binary, [sp, dp, '--dest-root-needs-deleting', 'delete', '--dest-file-newer', 'overwrite'] + (['--dry-run'] if dry else []), timeout=60)
                                after = e2e.snapshot(box)
                                text = r['stdout'] + r['stderr']
                                named = []
                                for line in text.splitlines():
                                    if 'Would' in line:
                                        q = re.findall(r"'([^']*)'", line)
                                        if q:
                                            named.append(os.path.relpath(q[-1].rstrip('/') or '/', box))
                                changed = sorted(k for k in set(before) | set(after) if before.get(k) != after.get(k))
                                res.append((r['exit'], before == after, changed[:4], text[-400:], named, changed))
                            finally:
                                shutil.rmtree(root, ignore_errors=True)
                        cell = [sk, ss, dk, ds, depth]
                        run.count('drytable:exit:%s' % res[0][0])
                        run.case(('drytable',) + tuple(cell), True, sample={'cell': cell, 'dry_exit': res[0][0], 'real_exit': res[1][0]} if (sk, dk) == ('file', None) and ds else None)
                        if not res[0][1]:
                            run.fail('C05 (table cell src=%s%s dest=%s%s, %d missing ancestors): the dry run changed %s' % (sk, '/' if ss else '', dk, '/' if ds else '', depth, res[0][2]),
                                     {'family': 'drytable', 'cell': cell, 'text': res[0][3]})
                        elif res[0][0] == 0 and res[1][0] == 0 and any(n not in res[1][5] for n in res[0][4]):
                            # every entry a "Would ..." line names is an entry the real run then creates, replaces or deletes
                            bad = [n for n in res[0][4] if n not in res[1][5]]
                            run.fail('C05 (table cell %s): the dry run names %s, the real run changed %s' % (cell, bad[:3], res[1][5][:6]),
                                     {'family': 'drytable', 'cell': cell, 'dry_text': res[0][3], 'real_changed': res[1][5][:10]})
                        elif (res[0][0] == 0) != (res[1][0] == 0):
                            run.fail('C05 (table cell %s): dry run exit %s but real run exit %s' % (cell, res[0][0], res[1][0]), {'family': 'drytable', 'cell': cell, 'dry_text': res[0][3], 'real_text': res[1][3]})


def check(run):
    run.trusted = list(vlib.COMMON_TRUSTED)
    run.assumptions = ['the two runs of a pair start from identical sandboxes (rebuilt from the same scenario)']
    run.extra['rule'] = ('random tree pairs x behaviours x answers (mixed and clean profiles, missing destination ancestors included); each pair = '
                         'dry run + real run; non-trivial = the plan contains at least one action; distinct by scenario hash')
    binary = vlib.build_impl()
    vlib.regen_facts(binary)
    run.check_proofs('C05', THEOREMS, extra_targets=['theories/Extract/Ex_sync.vo'])
    jbin = vlib.build_judge('sync')
    rng = run.rng
    n = 150 if run.tier == 'quick' else 12000
    base = tempfile.mkdtemp(prefix='c05_', dir=vlib.CACHE)
    try:
        for i in range(n):
            sc = sync_e2e.gen_scenario(rng, 'clean' if i % 3 else 'mixed')
            sc.dry = True
            od = sync_e2e.run_scenario(sc, binary, jbin, base)
            sr = sync_e2e.Scenario.from_json(sc.to_json())
            sr.dry = False
            orr = sync_e2e.run_scenario(sr, binary, jbin, base)
            run.count('pairs')
            run.count('real-exit:%s' % orr.impl['exit'])
            nontrivial = len(od.impl['out']['would']) > 0
            run.case(sc.key(), nontrivial, sample={'would': od.impl['out']['would'][:5], 'real_trace': [list(x) for x in orr.impl['dest_trace'][:5]]})
            run.traces_validated += 2
            d = od.impl
            bad = None
            if d['after'] != d['before']:
                bad = 'dry run changed something: ' + ','.join(k for k in d['after'] if d['after'][k] != d['before'][k])
            elif d['anc_created']:
                bad = 'dry run created the missing destination ancestors'
            elif d['dest_trace']:
                bad = 'dry run sent mutating commands %s' % (d['dest_trace'][:3],)
            elif d['src_trace']:
                bad = 'dry run fetched file content %s' % (d['src_trace'][:3],)
            elif orr.impl['exit'] == 0 and d['exit'] == 0:
                ws, rs = would_set(d, '/dest'), real_set(orr.impl)
                if ws != rs:
                    bad = 'Would lines %s differ from what the real run did %s' % (ws[:6], rs[:6])
                elif counts(d['out']) != counts(orr.impl['out']):
                    bad = 'dry-run summary %s differs from the real summary %s' % (counts(d['out']), counts(orr.impl['out']))
            elif (d['exit'] == 0) != (orr.impl['exit'] == 0) and not orr.model['errs']:
                bad = 'dry run exit %s but real run exit %s without any failing operation' % (d['exit'], orr.impl['exit'])
            if bad:
                run.fail('C05: ' + bad, {'scenario': sc.to_json(), 'dry_text': d['text'][-1200:], 'real_text': orr.impl['text'][-1200:]})
            elif od.mismatch or orr.mismatch:
                run.broke('correspondence', 'e2e', json.dumps({'scenario': sc.to_json(), 'dry': od.mismatch, 'real': orr.mismatch})[:2500])
        run_dry_table(run, binary, base)
    finally:
        shutil.rmtree(base, ignore_errors=True)
    return run.finish(search=None)


def replay(run, path):
    print(open(path).read()[:4000])
    return check(run)
