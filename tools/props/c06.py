"""C06 - Filters select by whole-path match, last match wins, same on both sides.

Proof: Props/C06.v (Model/Regex.v, RegexParse.v, Filters.v).  Tie: the real compile_filters +
apply_filters (regex crate, harness sub-command `filters`, including the bincode round trip that ships
the set to a doer) against the extracted model on generated filter lists x all strings up to length 4
over the pattern's alphabet + path-shaped strings.  Property oracle, independent of the model: the
documented rule evaluated with python's re.fullmatch on each pattern's own text, applied to what the
implementation answered.  End-to-end runs of the real CLI (local and through a fake ssh) check which
entries appear / stay byte-identical; the filters are given as --filter arguments or through a --spec file, and a
systematic family repeats a filter after an overlapping filter of the opposite sign ([F, G, F]) over trees that
contain paths matched by both.  A second unit leg starts from the argument vector / spec file: the REAL clap parser
and resolve_spec (harness sub-command `resolve`) give the effective filter list of the sync, which then goes through
the real compile_filters + apply_filters; the verdicts are judged against the list the user GAVE."""
import os, sys, json, glob, tempfile, shutil, hashlib
import vlib, e2e
import filters_lib as FL

THEOREMS = ['C06_wrap_is_code', 'anchor_wrap', 'search_anchored_is_fullmatch', 'C06_matcher_correct',
            'C06_fullmatch_is_whole', 'C06_verdict', 'C06_rule', 'C06_takes_part', 'C06_both_sides',
            'C06_listed_iff', 'C06_walk_is_filter', 'C06_hidden', 'C06_same_on_both_trees', 'C06_search_is_somewhere',
            'C06_old_wrap_escapes', 'C06_old_wrap_refuted']


def hx(s):
    return s.encode().hex() if s else '-'


def unhx(h):
    return '' if h == '-' else bytes.fromhex(h).decode()


class Case:
    """filters: [(sign, Pat)]; paths: [str]; subset: the model is expected to parse every pattern."""
    def __init__(self, filters, paths, kind, subset=True, raw=None):
        self.filters, self.paths, self.kind, self.subset, self.raw = filters, paths, kind, subset, raw

    def texts(self):
        return list(self.raw) if self.raw is not None else [sg + p.rs for sg, p in self.filters]

    def is_ascii(self):
        return all(ord(ch) < 128 for x in self.texts() + self.paths for ch in x)

    def line(self, tag='F'):
        t = self.texts()
        return '%s %d %s %d %s' % (tag, len(t), ' '.join(hx(x) for x in t), len(self.paths), ' '.join(hx(x) for x in self.paths))

    def py_filters(self):
        return [(sg, p.py) for sg, p in self.filters]

    def describe(self):
        return {'driver': 'unit:filters', 'kind': self.kind, 'filters': self.texts(),
                'python_patterns': [p.py for _, p in self.filters], 'paths': self.paths, 'subset': self.subset}


def case_from_json(d):
    if any(f[:1] not in ('+', '-') for f in d['filters']):
        return Case([], d['paths'], d.get('kind', 'corpus'), d.get('subset', True), raw=d['filters'])
    fl = []
    pys = d.get('python_patterns') or [f[1:] for f in d['filters']]
    for f, py in zip(d['filters'], pys):
        fl.append((f[0], FL.Pat(f[1:], py, set(f[1:]) - FL.META)))
    return Case(fl, d['paths'], d.get('kind', 'corpus'), d.get('subset', True))


HAND_OUTSIDE = [   # outside the theorem's subset; python and the regex crate read them the same way
    ('\\bbuild\\b', '\\bbuild\\b'), ('(?s)a.b', '(?s)a.b'), ('(?m)^a$', '(?m)^a$'), ('\\x61b', '\\x61b'),
    ('(?P<n>a|b)c', '(?P<n>a|b)c'), ('[]a]b', '[]a]b'), ('[a-c-e]', '[a-c-e]'), ('café|x', 'café|x'),
    ('.é', '.é'), ('(?x) a b ', '(?x) a b '), ('a{ 2 }', 'a{2}'), ('\\p{Lu}b', '[A-Z]b'), ('[[:alpha:]]b', '[A-Za-z]b'),
    ('[a&b]', '[a&b]'), ('[a~b]', '[a~b]'), ('\\a', '\\a'), ('\\f|\\v', '\\f|\\v'), ('a\\B', 'a\\B')]
HAND_INVALID = ['(', ')', 'a)(b', '*a', 'a|*', '(*)', 'a{2,1}', 'a{,3}', 'a{', '{', '[z-a]', '[a', '[]', '[^]', '(?', '(?i', '(?)', '(?ii)a',
                '(?i-i)a', '(?i)*', 'a(?i)+', '\\', 'a\\', '[a-\\d]', '[\\d-a]', '\\/', '\\Z', '\\q', '\\1', '(?P<n>a', 'a{1001}', '(?z)a',
                '[a\\', '(?-', 'a{2', 'a{2,', '[a-', '(a|b', 'a)|(b']


def gen_cases(run, tier):
    rng = run.rng
    cases = []
    n_pat = 1000 if tier == 'quick' else 10000
    n_pathy = 200 if tier == 'quick' else 1500
    for i in range(n_pat):
        nf = rng.choice([1, 1, 1, 1, 2, 2, 3, 4])
        fl = [(rng.choice('+-'), FL.gen_pattern(rng)) for _ in range(nf)]
        if nf >= 2 and rng.random() < 0.2:
            fl.append(fl[0])
        alpha = FL.alphabet_for([p for _, p in fl], rng, 4 if nf == 1 else 3)
        paths = FL.strings_over(alpha, 5 if (tier == 'thorough' and i % 4 == 0) else 4) + rng.sample(FL.PATHY, 6)
        cases.append(Case(fl, paths, 'subset-%d' % nf))
    # character-level mutations of subset patterns (insert / delete / replace): mostly invalid or corner syntax; the model may
    # answer "not in the subset" where the crate compiles, never the reverse, and where both compile the verdicts must agree
    mut_alpha = list('abAB01/._- ()[]{}|*+?^$\\,:-idwsDWSnz')
    for i in range(300 if tier == 'quick' else 4000):
        t = FL.gen_pattern(rng).rs
        for _ in range(rng.choice([1, 1, 2, 3])):
            k, j = rng.random(), rng.randrange(len(t) + 1)
            if k < 0.4:
                t = t[:j] + rng.choice(mut_alpha) + t[j:]
            elif k < 0.7:
                t = t[:j] + t[j + 1:]
            else:
                t = t[:j] + rng.choice(mut_alpha) + t[j + 1:]
        p = FL.Pat(t, None, set(t) - FL.META)
        cases.append(Case([(rng.choice('+-'), p)], FL.strings_over(FL.alphabet_for([p], rng, 3), 4), 'mutated', subset=False))
    for i in range(n_pathy):
        nf = rng.choice([1, 1, 2, 3])
        fl = [(rng.choice('+-'), FL.gen_pathy_pattern(rng)) for _ in range(nf)]
        extra = ['%s%s%s' % (a, n, b) for n in ['build', 'dist', 'a', 'x', 'keep', 'target'] for a in ['', 're', 'q/'] for b in ['', 'er', '/q', '.tmp']]
        cases.append(Case(fl, FL.PATHY + extra, 'pathy-%d' % nf))
    # hand-written: outside the subset (python oracle only) and invalid texts (both must refuse / model may not know)
    for rs, py in HAND_OUTSIDE:
        p = FL.Pat(rs, py, set(rs) - FL.META)
        alpha = FL.alphabet_for([p], rng, 3)
        for sg in '+-':
            cases.append(Case([(sg, p)], FL.strings_over(alpha + ['é'] if 'é' in rs else alpha, 3) + FL.PATHY[:8] + ['a b', 'aa', 'ab', 'Ab', 'a\nb', 'ac', 'bc', '\x07', '\x0b', '\x0c'],
                              'outside-subset', subset=False))
    for t in HAND_INVALID:
        cases.append(Case([('+', FL.Pat('a', 'a')), ('-', FL.Pat(t, None))], ['a', 'b', 'ab'], 'invalid', subset=False))
    for t in ['a', '', 'x+y', '=a', ' +a', 'é']:        # sign errors (the first character is not + or -)
        cases.append(Case([], ['a'], 'bad-sign', subset=t != 'é', raw=['+a', t, '-('][:rng.choice([2, 3])]))
    cases.append(Case([], ['', 'a', 'a/b'], 'no-filters'))
    return cases


def eval_cases(run, cases, binary, jbin, fails_only=False):
    """Runs the implementation, the model and the oracle. Returns the list of (what, replay)."""
    found = []
    lines = [c.line('F') for c in cases]
    impl = vlib.harness(binary, 'filters', lines)
    model = vlib.judge(jbin, lines) if jbin else [None] * len(cases)
    spec = vlib.judge(jbin, [c.line('S') for c in cases]) if jbin else [None] * len(cases)
    for c, il, ml, sl in zip(cases, impl, model, spec):
        it = il.split()
        run.count('kind:' + c.kind)
        run.count('impl:' + ' '.join(it[:1] if it[0] == 'OK' else it[:2]))
        rep = dict(c.describe(), impl=il[:400], model=(ml or '')[:400])
        # ---- property oracle on the implementation's answer
        judged = 0
        if it[0] == 'OK':
            boss, doer = it[1], it[2]
            if boss != doer:
                found.append(('the set shipped to a doer gives a different verdict than the boss-side set', rep))
            if c.paths:
                pyf = c.py_filters()
                for p, v in zip(c.paths, boss):
                    want = FL.py_rule(pyf, p)
                    if want is None:
                        continue
                    judged += 1
                    if (v == 'I') != want:
                        r2 = dict(rep, paths=[p], failing_path=p, impl_verdict=v, documented_rule='I' if want else 'E')
                        found.append(('filter list %r: path %r is %s, the documented whole-path rule says %s' % (
                            c.texts(), p, {'I': 'included', 'E': 'excluded'}[v], 'included' if want else 'excluded'), r2))
                        break
                # third opinion on the spec side of the theorem: the model's rule on the patterns' own ASTs vs python
                if sl and sl.startswith('OK ') and jbin and c.is_ascii():
                    for p, v in zip(c.paths, sl.split()[1]):
                        want = FL.py_rule(pyf, p)
                        if want is not None and (v == 'I') != want:
                            run.broke('correspondence', 'model-rule-vs-python', json.dumps(dict(rep, path=p, model_rule=v))[:1500])
                            break
        run.count('python-judged-verdicts', judged)
        if fails_only:
            continue
        nontrivial = it[0] == 'OK' and len(c.filters) > 0 and 'I' in it[1] and 'E' in it[1]
        run.case((c.texts(), c.paths), nontrivial, sample={'case': dict(c.describe(), paths=c.paths[:12]), 'impl': il[:200], 'model': (ml or '')[:200]})
        run.traces_validated += 1
        run.count('verdicts', len(c.paths) if it[0] == 'OK' else 0)
        # ---- correspondence with the model
        if ml is None:
            continue
        if not c.is_ascii():
            run.count('model:not-applicable-non-ascii')
        elif ml == il:
            run.count('model:agrees')
        elif ml == 'ERR regex' and it[0] == 'OK' and not c.subset:
            run.count('model:outside-subset')          # the model does not claim to know this syntax
        else:
            run.broke('correspondence', 'filters', json.dumps(rep)[:1500])
    return found


# ------------------------------------------------------------------------------------------------
E2E_FILTERS = [
    ['-build|dist'], ['-build'], ['+.*\\.txt', '-a/.*'], ['+a(/.*)?', '-.*\\.tmp'], ['-(?i).*\\.tmp'],
    ['-a', '+a/keep\\.txt'], ['+(a|b)(/.*)?', '-(a|b)/build'], ['-.*/(build|target)', '-build|target'],
    ['-[^/]*\\.(tmp|TMP)', '-.*/[^/]*\\.(tmp|TMP)'], ['+.*', '-dist/.*'], ['-dist', '+dist'], ['+b|rebuild|rebuild/.*|b/.*'],
    ['-^build|dist$'], ['-^a|b$', '+^x$'], ['-.*\\.tmp', '+a/.*', '-.*\\.tmp'], ['+a(/.*)?', '-a/x\\.tmp', '+a(/.*)?'], ['-^keep\\.txt$'],
]


def tree_to_json(tree):
    if tree is None:
        return None
    return {rel: ({'k': 'file', 'data_hex': n['data'].hex(), 'mtime_ns': n['mtime_ns']} if n['k'] == 'file' else {'k': n['k']}) for rel, n in tree.items()}


def tree_from_json(j):
    if j is None:
        return None
    return {rel: ({'k': 'file', 'data': bytes.fromhex(n['data_hex']), 'mtime_ns': n['mtime_ns']} if n['k'] == 'file' else {'k': n['k']}) for rel, n in j.items()}


def e2e_one(run, binary, jbin, tmp, fake, idx, filters, pyf, place, src, dest, via='args', kind='generated'):
    """One run of the real CLI (filters as --filter arguments, or via='spec': in a spec file).
    Returns [(what, replay)] for violations of the property."""
    found = []
    mode = 'empty' if dest is None else 'derived'
    d = os.path.join(tmp, 'e%d' % idx)
    os.makedirs(d)
    sroot, droot = os.path.join(d, 'src'), os.path.join(d, 'dest')
    e2e.build_tree(sroot, src)
    if dest is not None:
        e2e.build_tree(droot, dest)
    s0, d0 = e2e.snapshot(sroot), e2e.snapshot(droot)
    if via == 'spec':
        specf = os.path.join(d, 'spec.yaml')
        with open(specf, 'w') as f:
            f.write(FL.spec_text(sroot + '/', droot + '/', filters, src_host='localhost' if place[0] == 'R' else None,
                                 dest_host='localhost' if place[1] == 'R' else None))
        args = ['--spec', specf]
    else:
        args = [('localhost:' if place[0] == 'R' else '') + sroot + '/', ('localhost:' if place[1] == 'R' else '') + droot + '/']
        for f in filters:
            args += ['--filter', f]
    r = e2e.run_cli(binary, args, fake_ssh=fake if 'R' in place else None, timeout=120)
    s1, d1 = e2e.snapshot(sroot), e2e.snapshot(droot)
    rep = {'driver': 'e2e', 'filters': filters, 'python_patterns': [x[1] for x in pyf], 'placement': place, 'via': via, 'kind': kind,
           'src_tree': tree_to_json(src), 'dest_tree': tree_to_json(dest), 'exit': r['exit'], 'stderr': r['stderr'][-400:]}
    run.count('e2e:' + place); run.count('e2e-exit:%s' % r['exit']); run.count('e2e-dest:' + mode)
    run.count('e2e-via:' + via); run.count('e2e-kind:' + kind)
    part = {rel: FL.takes_part(pyf, rel) for rel in set(s0) | set(d0) | set(d1) if rel}
    bad = None
    if r['timed_out'] or r['exit'] not in e2e.DOCUMENTED_EXITS:
        bad = 'run did not end with a documented exit status (exit %s)' % r['exit']
    elif s1 != s0:
        bad = 'the source changed'
    else:
        for rel, tp in sorted(part.items()):
            if tp is None:
                continue
            if not tp and d1.get(rel) != d0.get(rel):
                bad = 'entry %r does not take part but the destination changed there: %r -> %r' % (rel, d0.get(rel), d1.get(rel)); break
            if tp and r['exit'] == 0:
                if rel in s0 and (rel not in d1 or d1[rel][:3] != s0[rel][:3]):
                    bad = 'entry %r takes part, exit 0, but the destination has %r instead of %r' % (rel, d1.get(rel), s0[rel]); break
                if rel not in s0 and rel in d1:
                    bad = 'destination-only entry %r takes part, exit 0, but it is still there' % rel; break
    nexcl = sum(1 for v in part.values() if v is False)
    run.case(('e2e', filters, sorted(src), sorted(dest) if dest else None, place, via), nexcl > 0 and nexcl < len(part),
             sample={'case': {k: rep[k] for k in ('driver', 'filters', 'placement', 'via', 'exit')}, 'excluded': nexcl, 'entries': len(part)})
    run.traces_validated += 1
    if bad:
        found.append(('e2e %s %r (%s): %s' % (place, filters, 'spec file' if via == 'spec' else '--filter arguments', bad), rep))
    # the model's walk of the source tree = what the implementation listed (visible when the destination starts empty)
    if jbin and not bad:
        ents = sorted((rel, 'd' if n_['k'] == 'dir' else 'f') for rel, n_ in src.items() if rel)
        wl = 'W %d %s %d %s' % (len(filters), ' '.join(hx(f) for f in filters), len(ents), ' '.join('%s %s' % (hx(a), b) for a, b in ents))
        ans = vlib.judge(jbin, [wl])[0]
        if ans.startswith('LISTED'):
            rest = ans[len('LISTED'):].strip()
            listed = set(unhx(x) for x in rest.split(',')) if rest else set()
            want = {rel for rel in s0 if rel and part.get(rel)}
            small = {k: rep[k] for k in ('driver', 'filters', 'placement', 'exit')}
            if all(part.get(rel) is not None for rel in s0 if rel) and listed != want:
                run.broke('correspondence', 'walk-vs-python', json.dumps(dict(small, model_listed=sorted(listed), python=sorted(want)))[:1500])
            if mode == 'empty' and r['exit'] == 0 and set(k for k in d1 if k) != listed:
                run.broke('correspondence', 'walk-vs-cli', json.dumps(dict(small, model_listed=sorted(listed), created=sorted(d1)))[:1500])
            run.count('e2e-walk-compared')
    shutil.rmtree(d, ignore_errors=True)
    return found


ODD_NAMES = ['a\nb.txt', 'x\n.tmp', 'line\nbreak', 'plain.txt', 'plain.tmp', 'tab\tname.txt', 'cr\rname.tmp', ' lead', 'trail ', 'dollar$', 'ca^ret', 'UPPER.TXT']
ODD_FILTERS = [['+.*\\.txt'], ['-.*\\.tmp'], ['-a.b\\.txt'], ['+.*', '-.*\\.tmp'], ['-.*', '+.*\\.txt'], ['-line.break'], ['-[^x]*'], ['+.+\\.(txt|tmp)'],
               ['-(?i).*\\.txt'], ['-.* '], ['- .*']]


def e2e_odd_names(run, binary, jbin, tmp, tier, fake, first_idx):
    """File names containing a line break, tab, carriage return, leading / trailing blanks, regex metacharacters - under
    filters whose verdict on them depends on what '.', a class or a flag matches - in all four placements: both doers must
    reach the documented verdict (a remote doer receives the filters over the wire and compiles them itself)."""
    rng = run.rng
    found = []
    n = 12 if tier == 'quick' else 160
    for i in range(n):
        filters = ODD_FILTERS[i % len(ODD_FILTERS)] if i < 2 * len(ODD_FILTERS) else rng.choice(ODD_FILTERS)
        pyf = [(f[0], f[1:]) for f in filters]
        place = ['RL', 'LR', 'RR', 'LL'][i % 4]
        src = {'': {'k': 'dir'}}
        for nm in rng.sample(ODD_NAMES, rng.randrange(3, 8)):
            src[nm] = {'k': 'file', 'data': ('%r' % nm).encode(), 'mtime_ns': 1_700_000_000_000_000_000}
        src['sub'] = {'k': 'dir'}
        for nm in rng.sample(ODD_NAMES, 2):
            src['sub/' + nm] = {'k': 'file', 'data': b'in sub', 'mtime_ns': 1_700_000_000_000_000_000}
        dest = None
        if rng.random() < 0.6:
            dest = {'': {'k': 'dir'}}
            for nm in rng.sample(ODD_NAMES, rng.randrange(1, 5)):
                dest[nm] = {'k': 'file', 'data': b'dest-only or stale', 'mtime_ns': 1_600_000_000_000_000_000}
        found += e2e_one(run, binary, None, tmp, fake, first_idx + i, filters, pyf, place, src, dest, kind='odd-names')
    return found


def e2e_root_kinds(run, binary, tmp, tier, fake, first_idx):
    """Roots of different kinds: the source root is a file or a symlink and the destination root an existing FOLDER that has to make way
    (root deletion permitted), or the other way round.  The filters apply to the destination's entries all the same: an excluded entry
    inside the destination folder does not take part - it is never deleted (so the folder cannot be removed and the run fails), whatever
    the kind of the source root.  Both sides must be sent the same filter list."""
    rng = run.rng
    found = []
    n = 10 if tier == 'quick' else 120
    T = 1_700_000_000_000_000_000
    for i in range(n):
        filters = rng.choice([['-.*\\.bak', '-private'], ['-keep.*'], ['+.*\\.txt'], ['-(.*/)?id_key'], ['-(.*/)?\\.DS_Store', '-(.*/)?Thumbs\\.db', '-(.*/)?desktop\\.ini']])
        pyf = [(f[0], f[1:]) for f in filters]
        place = ['LL', 'LL', 'RL', 'LR', 'RR'][i % 5]
        d = os.path.join(tmp, 'r%d' % (first_idx + i))
        os.makedirs(d)
        sroot, droot = os.path.join(d, 'src'), os.path.join(d, 'dest')
        skind = ['file', 'link', 'dir'][i % 3]
        folder = {'': {'k': 'dir'}, 'keep.bak': {'k': 'file', 'data': b'bak', 'mtime_ns': T}, 'a.txt': {'k': 'file', 'data': b'a', 'mtime_ns': T},
                  'private': {'k': 'dir'}, 'private/id_key': {'k': 'file', 'data': b'key', 'mtime_ns': T}, 'plain': {'k': 'file', 'data': b'p', 'mtime_ns': T},
                  'sub': {'k': 'dir'}, 'sub/keep.bak': {'k': 'file', 'data': b'bak2', 'mtime_ns': T}, 'sub/id_key': {'k': 'file', 'data': b'k2', 'mtime_ns': T},
                  'album': {'k': 'dir'}, 'album/.DS_Store': {'k': 'file', 'data': b'ds', 'mtime_ns': T}, 'album/Thumbs.db': {'k': 'file', 'data': b'th', 'mtime_ns': T},
                  'album/desktop.ini': {'k': 'file', 'data': b'ini', 'mtime_ns': T}}
        if skind == 'dir':
            e2e.build_tree(sroot, {'': {'k': 'dir'}, 'new.txt': {'k': 'file', 'data': b'n', 'mtime_ns': T}})
            e2e.build_tree(droot, folder)
        else:
            e2e.build_tree(sroot, {'': {'k': 'file', 'data': b'SRC', 'mtime_ns': T + 5}} if skind == 'file' else {'': {'k': 'link', 'text': b'nowhere'}})
            e2e.build_tree(droot, folder)
        s0, d0 = e2e.snapshot(sroot), e2e.snapshot(droot)
        args = [('localhost:' if place[0] == 'R' else '') + sroot, ('localhost:' if place[1] == 'R' else '') + droot,
                '--dest-root-needs-deleting', 'delete', '--dest-entry-needs-deleting', 'delete']
        for f in filters:
            args += ['--filter', f]
        r = e2e.run_cli(binary, args, fake_ssh=fake if 'R' in place else None, timeout=120)
        s1, d1 = e2e.snapshot(sroot), e2e.snapshot(droot)
        run.count('e2e-rootkinds:%s:%s' % (skind, place)); run.count('e2e-rootkinds-exit:%s' % r['exit'])
        run.case(('e2e-rootkinds', tuple(filters), skind, place), True)
        run.traces_validated += 1
        bad = None
        if r['timed_out'] or r['exit'] not in e2e.DOCUMENTED_EXITS:
            bad = 'run did not end with a documented exit status (exit %s)' % r['exit']
        elif s1 != s0:
            bad = 'the source changed'
        else:
            for rel in sorted(d0):
                if rel and FL.takes_part(pyf, rel) is False and d1.get(rel) != d0.get(rel):
                    bad = 'destination entry %r does not take part (filters %r) but it changed: %r -> %r' % (rel, filters, d0.get(rel), d1.get(rel))
                    break
        if bad:
            found.append(('e2e root kinds (source root a %s, destination root a folder, %s) %r: %s' % (skind, place, filters, bad),
                          {'driver': 'e2e-rootkinds', 'filters': filters, 'src_kind': skind, 'placement': place, 'exit': r['exit'], 'stderr': r['stderr'][-400:]}))
        shutil.rmtree(d, ignore_errors=True)
    return found


def e2e_cases(run, binary, jbin, tmp, tier):
    rng = run.rng
    found = []
    n = 60 if tier == 'quick' else 500
    placements = ['LL'] * 3 + ['RL', 'LR', 'RR']
    fake = e2e.fake_ssh_dir(tmp)
    for i in range(n):
        if i < len(E2E_FILTERS) or rng.random() < 0.5:
            filters = E2E_FILTERS[i % len(E2E_FILTERS)]
            pyf = [(f[0], f[1:]) for f in filters]
        else:
            fl = [(rng.choice('+-'), FL.gen_pathy_pattern(rng)) for _ in range(rng.choice([1, 2, 3]))]
            if len(fl) >= 2 and rng.random() < 0.35:
                fl.append(fl[0])                     # the same filter again later in the list: last match must still win
            filters = [sg + p.rs for sg, p in fl]
            pyf = [(sg, p.py) for sg, p in fl]
        place = placements[i % len(placements)] if i >= 4 else 'LL'
        src = FL.gen_tree(rng, depth=2, width=4, mtime=1_700_000_000_000_000_000, fill=1)
        mode = rng.choice(['empty', 'derived', 'derived'])
        dest = FL.derive_dest(rng, src) if mode == 'derived' else None
        found += e2e_one(run, binary, jbin, tmp, fake, i, filters, pyf, place, src, dest, via='spec' if i % 5 == 4 else 'args')
    found += e2e_repeat_cases(run, binary, jbin, tmp, tier, fake, first_idx=n)
    found += e2e_odd_names(run, binary, jbin, tmp, tier, fake, first_idx=5000)
    found += e2e_root_kinds(run, binary, tmp, tier, fake, first_idx=7000)
    return found


def e2e_repeat_cases(run, binary, jbin, tmp, tier, fake, first_idx=1000, n=None):
    """The same filter again later in the list with an overlapping filter of the opposite sign in between
    ([F, G, F] and longer shapes): the last match must still win, for --filter arguments and for a spec file.
    Every tree contains paths matched by both F and G - on the source, as stale copies on the destination and
    as destination-only entries."""
    rng = run.rng
    found = []
    if n is None:
        n = 2 * len(FL.REPEAT_TABLE) + (12 if tier == 'quick' else 300)
    placements = ['LL', 'LL', 'LL', 'LL', 'RL', 'LL', 'LL', 'LR', 'LL', 'RR']
    i = tries = 0
    while i < n and tries < 20 * n:
        tries += 1
        g = FL.gen_repeat_list(rng, i if i < 2 * len(FL.REPEAT_TABLE) else None)
        if g is None:
            continue
        fl, wit = g
        filters = [sg + p.rs for sg, p in fl]
        pyf = [(sg, p.py) for sg, p in fl]
        src, dest = FL.trees_with_witnesses(rng, wit, empty_dest=(i % 7 == 6))
        run.count('e2e-repeat-witnesses-planted', min(3, len(wit)))
        found += e2e_one(run, binary, jbin, tmp, fake, first_idx + i, filters, pyf, placements[i % len(placements)], src, dest,
                         via='spec' if i % 2 else 'args', kind='repeated-filter')
        i += 1
    return found


# ------------------------------------------------------------------------------------------------
# unit leg through the REAL resolve_spec: argv / spec file -> effective filter list -> compile_filters + apply_filters
def resolve_cases(run, tier):
    """[(Case over the GIVEN filters, via)]: repeated filters (user-style with witnesses, subset grammar over all short
    strings), and lists without repeats as controls."""
    rng = run.rng
    out = []
    n_rep = (120 if tier == 'quick' else 1500)
    i = tries = 0
    while i < n_rep and tries < 20 * n_rep:
        tries += 1
        g = FL.gen_repeat_list(rng, i if i < 2 * len(FL.REPEAT_TABLE) else None)
        if g is None:
            continue
        fl, wit = g
        out.append((Case(fl, wit[:40] + FL.PATHY, 'resolve-repeat-pathy'), 'spec' if i % 2 else 'args'))
        i += 1
    for i in range(200 if tier == 'quick' else 3000):
        F, G = FL.gen_pattern(rng), FL.gen_pattern(rng)
        sf = rng.choice('+-')
        sg = '-' if sf == '+' else '+'
        shape = rng.choice(['FGF', 'FGF', 'FGFG', 'FGGF', 'FFG', 'GFGF', 'FGFF'])
        fl = [{'F': (sf, F), 'G': (sg, G)}[c] for c in shape]
        alpha = FL.alphabet_for([F, G], rng, 3)
        out.append((Case(fl, FL.strings_over(alpha, 4) + rng.sample(FL.PATHY, 6), 'resolve-repeat-subset'), 'spec' if i % 2 else 'args'))
    for i, filters in enumerate(E2E_FILTERS):
        fl = [(f[0], FL.Pat(f[1:], f[1:], set(f[1:]) - FL.META)) for f in filters]
        out.append((Case(fl, FL.PATHY + ['a/keep.txt', 'a/x.tmp', 'b/build', 'x', 'keep.txt', 'rebuild/q'], 'resolve-control'), 'spec' if i % 2 else 'args'))
    out.append((Case([], ['', 'a', 'a/b'], 'resolve-no-filters'), 'args'))
    return out


def effective_filters(resolve_line):
    """The filter list of the first sync in an `OK ...` answer of the resolve harness, or None."""
    if not resolve_line.startswith('OK ') or ' | ' not in resolve_line:
        return None
    sync = dict(x.split('=', 1) for x in resolve_line.split(' | ')[1].split())
    inner = sync['filters'].split('[', 1)[1].rstrip(']')
    return [unhx(x) for x in inner.split(',') if x] if inner else []


def eval_resolve_cases(run, rcases, binary, jbin, tmp):
    """argv / spec file -> real clap + resolve_spec -> effective list -> real compile_filters/apply_filters; the verdicts are
    judged by the documented rule (python) on the list that was GIVEN, and compared with the model on the given list."""
    found = []
    req = []
    for i, (c, via) in enumerate(rcases):
        t = c.texts()
        if via == 'spec':
            specf = os.path.join(tmp, 'rspec%d.yaml' % i)
            with open(specf, 'w') as f:
                f.write(FL.spec_text('s', 'd', t))
            argv = ['--spec', specf]
        else:
            argv = ['s', 'd']
            for f in t:
                argv += ['--filter', f]
        req.append('A %d %s' % (len(argv), ' '.join(hx(a) for a in argv)))
    answers = vlib.harness(binary, 'resolve', req)
    todo = []
    for (c, via), al in zip(rcases, answers):
        run.count('resolve:' + c.kind); run.count('resolve-via:' + via)
        eff = effective_filters(al)
        if eff is None:
            if al.startswith('CLAPERR') and via == 'args':
                run.count('resolve:clap-refused')      # e.g. a filter text that looks like an option: cannot be given this way
            else:
                run.broke('correspondence', 'resolve-filters', json.dumps({'filters': c.texts(), 'via': via, 'answer': al[:300]})[:1500])
            continue
        todo.append((c, via, eff))
    lines_eff = ['F %d %s %d %s' % (len(e), ' '.join(hx(x) for x in e), len(c.paths), ' '.join(hx(x) for x in c.paths)) for c, _, e in todo]
    impl = vlib.harness(binary, 'filters', lines_eff) if todo else []
    model = vlib.judge(jbin, [c.line('F') for c, _, _ in todo]) if (jbin and todo) else [None] * len(todo)
    for (c, via, eff), il, ml in zip(todo, impl, model):
        given = c.texts()
        it = il.split()
        rep = {'driver': 'unit:resolve', 'kind': c.kind, 'via': via, 'filters': given, 'python_patterns': [p.py for _, p in c.filters],
               'effective_filters': eff, 'paths': c.paths[:60], 'impl': il[:300], 'model': (ml or '')[:300]}
        run.case(('resolve', given, via, c.paths), it[0] == 'OK' and 'I' in it[1] and 'E' in it[1],
                 sample={'case': {k: rep[k] for k in ('driver', 'kind', 'via', 'filters', 'effective_filters')}, 'impl': il[:120]})
        run.traces_validated += 1
        failed = False
        if it[0] == 'OK':
            pyf = c.py_filters()
            judged = 0
            for p, v in zip(c.paths, it[1]):
                want = FL.py_rule(pyf, p)
                if want is None:
                    continue
                judged += 1
                if (v == 'I') != want:
                    r2 = dict(rep, paths=[p], failing_path=p, impl_verdict=v, documented_rule='I' if want else 'E')
                    found.append(('filters %r given %s: the sync uses %r, so path %r is %s; the documented rule (last match wins) says %s' % (
                        given, 'in a spec file' if via == 'spec' else 'as --filter arguments', eff, p,
                        {'I': 'included', 'E': 'excluded'}[v], 'included' if want else 'excluded'), r2))
                    failed = True
                    break
            run.count('resolve:python-judged-verdicts', judged)
        if failed:
            continue
        if eff != given:
            run.broke('correspondence', 'resolve-filters', json.dumps(rep)[:1500])     # resolve_spec is the identity on filters in the model
        elif ml is not None and c.is_ascii() and ml != il and not (ml == 'ERR regex' and it[0] == 'OK' and not c.subset):
            run.broke('correspondence', 'resolve-then-filters', json.dumps(rep)[:1500])
        else:
            run.count('resolve:effective-equals-given')
    return found


def resolve_case_from_json(d):
    return (case_from_json(dict(d, kind=d.get('kind', 'replay'))), d.get('via', 'args'))


# ------------------------------------------------------------------------------------------------
def search_family(run, binary):
    """Adversarial family for this mechanism: alternations / flags / groups at the top level of the pattern
    against every string up to length 6 over the pattern's alphabet (implementation under the python oracle)."""
    rng = run.rng
    cases = []
    for t in ['a|b', 'ab|c', 'a|bc', 'a|b|c', '(?i)a|b', 'a*|b', 'a|', '|a', 'build|dist', '(a)|b', 'a|b+', '[ab]|c']:
        p = FL.Pat(t, t, set(t) - FL.META)
        alpha = [c for c in sorted(p.chars) if len(c) == 1][:3] or ['a']
        for sg in '+-':
            cases.append(Case([(sg, p)], FL.strings_over(alpha, 6 if len(alpha) <= 2 else 5) + FL.PATHY, 'search'))
    for _ in range(300):
        fl = [(rng.choice('+-'), FL.gen_pattern(rng))]
        cases.append(Case(fl, FL.strings_over(FL.alphabet_for([fl[0][1]], rng, 3), 5), 'search'))
    found = eval_cases(run, cases, binary, None, fails_only=True)
    return found[0] if found else None


def check(run, only=None, only_e2e=None, only_resolve=None):
    run.trusted = list(vlib.COMMON_TRUSTED) + [
        'modelled, not verified: the regex crate (1.7.1 / regex-syntax 0.6.28) - its parser and matcher are represented by Model/RegexParse.v and Model/Regex.v for the subset and compared on every run; outside the subset and for non-ASCII text only the python oracle speaks',
        'python 3.11 re (re.ASCII) as the independent reading of "the regular expression matches the entire path"',
        'the planner/doer honouring the listing (entries that are not listed are never named in a command) is observed end to end, not proved here']
    run.assumptions = ['patterns and paths are 7-bit text for the theorems; the subset is what Model/RegexParse.v accepts (design.d/C06.md)',
                       'unit verdicts are taken from apply_filters on RootRelativePath values built from arbitrary text']
    run.extra['rule'] = ('filter lists of 1-4 filters generated from the subset grammar (and user-style name/extension/alternation filters) x all strings up to '
                         'length 4 over an alphabet of 3-4 characters drawn from the pattern (plus a case variant and a foreign character) + path-shaped strings; '
                         'a unit case is non-trivial when the filters compile and both verdicts occur among its paths; distinct by (filter texts, paths); '
                         'e2e cases are non-trivial when some but not all entries are excluded; e2e filters are given as --filter arguments or in a spec file; '
                         'repeated-filter family: lists [F, G, F] (and longer shapes) with G of the opposite sign and a path of the tree matched by both, '
                         'from a table and from generated user-style filters, on trees with such paths planted on the source, as stale copies and as '
                         'destination-only entries; resolve leg: the same lists (and subset-grammar ones over all strings up to length 4) as argv / spec file '
                         'through the real clap parser + resolve_spec, the effective list through the real compile_filters/apply_filters, verdicts judged on the given list')
    binary = vlib.build_impl()
    vlib.regen_facts(binary)
    ok = run.check_proofs('C06', THEOREMS, extra_targets=['theories/Extract/Ex_filters.vo'])
    if not ok:
        vlib.build_coq(['theories/Extract/Ex_filters.vo'])       # the model still runs when a proof broke
    jbin = vlib.build_judge('filters')
    tmp = tempfile.mkdtemp(prefix='c06_', dir=vlib.CACHE)
    try:
        cases = []
        for f in sorted(glob.glob(os.path.join(vlib.VERIF, 'corpus', 'C06', '*.json'))):
            d = json.load(open(f))
            if d.get('driver', 'unit:filters') == 'unit:filters':
                cases.append(case_from_json(d))
        if only is not None:
            cases = [only]
        elif only_e2e is not None or only_resolve is not None:
            cases = []
        else:
            cases += gen_cases(run, run.tier)
        found = []
        for k in range(0, len(cases), 500):
            found += eval_cases(run, cases[k:k + 500], binary, jbin)
        if only_resolve is not None:
            found += eval_resolve_cases(run, [only_resolve], binary, jbin, tmp)
        elif only is None and only_e2e is None:
            rc = []
            for f in sorted(glob.glob(os.path.join(vlib.VERIF, 'corpus', 'C06', '*.json'))):
                d = json.load(open(f))
                if d.get('driver') == 'unit:resolve':
                    rc.append(resolve_case_from_json(dict(d, kind='corpus:' + os.path.basename(f)[:-5])))
            found += eval_resolve_cases(run, rc + resolve_cases(run, run.tier), binary, jbin, tmp)
        if only_e2e is not None:
            r = only_e2e
            found += e2e_one(run, binary, jbin, tmp, e2e.fake_ssh_dir(tmp), 0, r['filters'],
                             [(f[0], py) for f, py in zip(r['filters'], r.get('python_patterns') or [f[1:] for f in r['filters']])],
                             r.get('placement', 'LL'), tree_from_json(r['src_tree']), tree_from_json(r.get('dest_tree')),
                             via=r.get('via', 'args'), kind=r.get('kind', 'replay'))
        elif only is None and only_resolve is None:
            found += e2e_cases(run, binary, jbin, tmp, run.tier)
        for what, rep in found[:20]:
            run.fail(what, rep)
    finally:
        shutil.rmtree(tmp, ignore_errors=True)
    return run.finish(search=lambda: search_family(run, binary))


def replay(run, path):
    r = json.load(open(path))
    print(json.dumps(r, indent=1)[:3000])
    if r.get('driver') == 'unit:filters':
        return check(run, only=case_from_json(r))
    if r.get('driver') == 'e2e' and r.get('src_tree'):
        return check(run, only_e2e=r)
    if r.get('driver') == 'unit:resolve':
        return check(run, only_resolve=resolve_case_from_json(r))
    return check(run)
