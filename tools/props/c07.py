"""C07 - Exit status 0 means everything was applied; every failure is reported.

Proof: Props/C07.v - sync() returns Ok only if every step of the confirmed plan was sent, executed and
answered without error (for every fault plan); an executed command's error reply is in the final error
list whatever precedes and follows it, and a non-empty error list or failed source read makes sync() fail;
the summary counters are the census of the executed commands; after any run every destination path is as
it was, as a command of the plan for that path makes it, or a partly written file with the time of its
last write.
Tie:
  A. the real CLI with one failure at EVERY position: each mutating destination command, each write of each
     chunk, each source read - model correspondence, "a reached failure gives a non-zero exit and an error
     message", per-path classification of the destination after the failed run;
  B. real boss against scripted doers: an Error reply to the k-th command delivered j commands later, for
     all k and j (the asynchronous window), and a failing source read at every index: sync() must fail;
  C. natural failures (no hook): a file-size limit at and inside every chunk (EFBIG), folders that cannot be
     removed because a filter hides their content (ENOTEMPTY), entries in the way (ENOTDIR/EEXIST);
  D. successful runs: the printed summary against the snapshot difference (counts, bytes, 'Nothing to do');
  E. spec files with several syncs, one of which fails."""
import os, sys, json, re, tempfile, shutil
import vlib, e2e, sync_e2e, scripted
from props.c08 import gen as gen_c08, KINDS

THEOREMS = ['C07_exit0_all_applied', 'C07_no_error_dropped', 'C07_failure_is_reported', 'C07_summary_is_census', 'C07_only_planned_changes', 'C07_only_planned_changes_unconditional',
            'C07_async_ok_sound', 'C07_async_no_error_lost', 'C07_async_prefix', 'C07_async_ok_agrees_with_sync', 'C07_async_covered_by_sync',
            'C07_spec_exit0_iff_all_ok', 'C07_spec_failure_is_last', 'C07_spec_runs_are_syncs',
            'C07_any_sequence_touches_only_named_paths', 'C07_any_sequence_keeps_the_tree_well_formed', 'C07_any_sequence_error_leaves_tree']


def hidden(sc, p):
    parts = p.split('/')
    return any('/'.join(parts[:k]) in sc.excluded for k in range(1, len(parts) + 1))


def classify(sc, before, after, planned, src):
    """Paths of the destination that are neither as before, nor as the completed run leaves them, nor gone
    on the way to being replaced/deleted, nor a partly written file without the source's time."""
    bad = []
    for p in sorted(set(before) | set(after)):
        a, b, f = after.get(p), before.get(p), planned.get(p)
        if a == b or a == f:
            continue
        if a is None and b != f:
            continue                                # deleted as planned (to be removed or replaced)
        if a is not None and a[0] == 'file' and f is not None and f[0] == 'file' and a[3] != f[3]:
            continue                                # partly written, not stamped
        if a is not None and a[0] == 'dir' and f is not None and f[0] == 'dir':
            continue
        if a is not None and a[0] == 'link' and f is not None and f[0] == 'link':
            continue
        bad.append((p, b and b[0], a and a[:2], f and f[0]))
    return bad


def human(n):
    """boss_sync's HumanBytes rendering is only compared when it is exact (below 1 KiB)."""
    return '%dB' % n if n < 1024 else None


def summary_diff(before, after, out):
    """The printed summary against what changed between the two snapshots (runs with same-time skip)."""
    dele = {'files': 0, 'folders': 0, 'symlinks': 0, 'bytes': 0}
    cop = {'files': 0, 'folders': 0, 'symlinks': 0, 'bytes': 0}
    kind = {'file': 'files', 'dir': 'folders', 'link': 'symlinks'}
    for p, b in before.items():
        a = after.get(p)
        if a is None or a[0] != b[0] or (b[0] == 'link' and a[1] != b[1]):
            dele[kind[b[0]]] += 1
            if b[0] == 'file':
                dele['bytes'] += b[1]
    for p, a in after.items():
        b = before.get(p)
        if b is None or b[0] != a[0] or (a[0] == 'link' and a[1] != b[1]) or (a[0] == 'file' and a != b):
            cop[kind[a[0]]] += 1
            if a[0] == 'file':
                cop['bytes'] += a[1]
    mm = []
    nothing = sum(dele[k] + cop[k] for k in ('files', 'folders', 'symlinks')) == 0
    if out['nothing'] != nothing:
        mm.append("'Nothing to do' printed=%s, changes=%s" % (out['nothing'], not nothing))
    for name, want, got in (('deleted', dele, out['deleted']), ('copied', cop, out['copied'])):
        got = got or {'files': 0, 'folders': 0, 'symlinks': 0, 'bytes_h': '0B'}
        for k in ('files', 'folders', 'symlinks'):
            if got[k] != want[k]:
                mm.append('%s %s: summary %d, actual %d' % (name, k, got[k], want[k]))
        h = human(want['bytes'])
        if h is not None and got.get('bytes_h') is not None and got['bytes_h'].replace(' ', '') != h and (want['files'] or got['files']):
            mm.append('%s bytes: summary %s, actual %s' % (name, got['bytes_h'], h))
    return mm


UNPRIV = ['setpriv', '--reuid', '65534', '--regid', '65534', '--clear-groups']


def run_unprivileged(run, binary, base, rng, n):
    """The sync runs as an unprivileged user on a destination it may write to but whose files belong to somebody else:
    writing the bytes succeeds, setting the modification time is refused (EPERM).  That failure must be reported: exit 0
    only if every file really carries the source's bytes AND time."""
    from props.c01 import mirror_oracle
    T0 = sync_e2e.T0
    if os.geteuid() != 0 or not shutil.which('setpriv'):
        run.count('unpriv:skipped')
        return
    probe = e2e.run_cli(binary, ['--version'], prefix=UNPRIV, timeout=30)
    if probe['exit'] != 0:
        run.count('unpriv:skipped')
        return
    os.chmod(base, 0o755)                     # the unprivileged user must be able to reach the sandboxes
    for i in range(n):
        root = tempfile.mkdtemp(prefix='unp_', dir=base)
        try:
            os.chmod(root, 0o777)
            src = {'': {'k': 'dir'}}
            dest = {'': {'k': 'dir'}}
            owners = {}
            for k in range(rng.randrange(1, 5)):
                nm = 'f%d' % k
                src[nm] = {'k': 'file', 'data': b'new-%d' % k * rng.choice([1, 1, 900]), 'mtime_ns': T0 + 5 * 10**9 + k}
                if rng.random() < 0.8:
                    dest[nm] = {'k': 'file', 'data': b'old', 'mtime_ns': T0 - 10**9 * rng.choice([1, 50])}
                    owners[nm] = rng.choice(['root', 'root', 'nobody'])
            e2e.build_tree(os.path.join(root, 'src'), src)
            e2e.build_tree(os.path.join(root, 'dest'), dest)
            os.chmod(os.path.join(root, 'dest'), 0o777)
            os.chown(os.path.join(root, 'dest'), 65534, 65534)
            for nm, who in owners.items():
                pth = os.path.join(root, 'dest', nm)
                os.chmod(pth, 0o666)
                if who == 'nobody':
                    st = os.stat(pth)
                    os.chown(pth, 65534, 65534)
                    os.utime(pth, ns=(st.st_mtime_ns, st.st_mtime_ns))
            srcsnap = e2e.snapshot(os.path.join(root, 'src'))
            before = e2e.snapshot(os.path.join(root, 'dest'))
            r = e2e.run_cli(binary, [os.path.join(root, 'src'), os.path.join(root, 'dest'), '--dest-file-newer', 'overwrite', '--dest-file-older', 'overwrite'],
                            prefix=UNPRIV, timeout=60)
            after = e2e.snapshot(os.path.join(root, 'dest'))
            out = e2e.parse_output(r['stdout'] + r['stderr'])
            foreign = sorted(nm for nm, who in owners.items() if who == 'root')
            run.count('unpriv:exit:%s:%s' % (r['exit'], 'foreign' if foreign else 'own'))
            run.case(('unpriv', i), True, sample={'foreign_owned': foreign, 'exit': r['exit']} if i < 3 else None)
            rep = {'family': 'unprivileged', 'src': sorted(src), 'owners': owners, 'exit': r['exit'], 'text': (r['stdout'] + r['stderr'])[-700:]}
            if r['exit'] == 0:
                bad = mirror_oracle(srcsnap, before, after, [])
                if bad:
                    run.fail('C07: run as an unprivileged user over files owned by somebody else exited 0 although ' + bad, rep)
            elif not out['errors']:
                run.fail('C07: exit %s without an error message (unprivileged run)' % r['exit'], rep)
        finally:
            shutil.rmtree(root, ignore_errors=True)


def check(run):
    run.trusted = list(vlib.COMMON_TRUSTED) + ['the doer fault hooks (harness/hooks/doer/00_faults.rs) and the scripted doers (harness/subs/scripted.rs) deliver the failures as described',
                                               'crossbeam channel FIFO (an Error reply is delivered before a later Marker echo)']
    run.assumptions = ['the checks run as root: permission failures cannot be provoked, EPERM is represented by the injected failures',
                       'a file whose length changes while it is read is C11\'s case and is tied there']
    run.extra['rule'] = ('A: mixed tree pairs (filters, links, multi-chunk files) x one failure at every mutating command / write / source read index; '
                         'B: small tree pairs x (k, j) for every command index k and delay j in {0,1,2,5,1000}; C: file-size limits {1,5,9,17,25,57} blocks, filters hiding '
                         'content of folders to delete; D: successful runs with same-time skip; E: two-sync spec files; non-trivial = the fault was reached / the run changed something')
    binary = vlib.build_impl()
    vlib.regen_facts(binary)
    run.check_proofs('C07', THEOREMS, extra_targets=['theories/Extract/Ex_sync.vo'])
    jbin = vlib.build_judge('sync')
    rng = run.rng
    quick = run.tier == 'quick'
    known = {f['id']: f for f in vlib.known_findings('C07')}
    base = tempfile.mkdtemp(prefix='c07_', dir=vlib.CACHE)
    try:
        from props.c02 import f6b_witness              # the recorded witness of the known finding, replayed on every run
        f6b_witness(run, binary, jbin, base, known, prop='C07')
        # ---- A: one failure at every position ----
        scen = []
        for i in range(36 if quick else 1200):
            sc = sync_e2e.gen_scenario(rng, 'clean', p_big=0.35)
            sc.cfg['same'] = 'S'
            scen.append(sc)
        for si, sc in enumerate(scen):
            o0 = sync_e2e.run_scenario(sc, binary, jbin, base)
            if o0.mismatch:
                run.broke('correspondence', 'e2e-clean', json.dumps({'scenario': sc.to_json(), 'mismatch': o0.mismatch})[:2500])
            planned = o0.impl['after']['dest']
            if o0.impl['exit'] != 0:
                # the fault-free run fails by itself (e.g. a folder kept non-empty by a filter): what the plan would
                # have produced is then read off the source for the included paths, the destination for the others
                srcs, bef = o0.impl['before']['src'], o0.impl['before']['dest']
                planned = {q: v for q, v in bef.items() if hidden(sc, q)}
                planned.update({q: v for q, v in srcs.items() if not hidden(sc, q)})
            n_w = sum(1 for c in o0.impl['dest_cmds'] if c == 'CreateOrUpdateFile')
            mut = [c for c in o0.impl['dest_cmds'] if c in KINDS]
            n_g = o0.impl['src_cmds'].count('GetFileContent')
            plans = [('fw', k) for k in range(n_w)] + [('fsrc', k) for k in range(n_g)] + \
                    [('fd', k) for k in range(len(mut)) if mut[k] != 'CreateOrUpdateFile']
            if quick and len(plans) > 14:
                plans = rng.sample(plans, 10) + [p for p in plans if p in (('fw', n_w - 1), ('fd', len(mut) - 1), ('fsrc', n_g - 1))]
            if o0.impl['exit'] == 0 and not sc.dry:
                mm = summary_diff(o0.impl['before']['dest'], o0.impl['after']['dest'], o0.impl['out'])
                run.count('D')
                run.case(('D', sc.key()), not o0.impl['out']['nothing'])
                if mm:
                    run.fail('C07 summary: ' + '; '.join(mm[:3]), {'family': 'D', 'scenario': sc.to_json(), 'text': o0.impl['text'][-600:]})
            for kind, k in plans:
                s2 = sync_e2e.Scenario.from_json(sc.to_json())
                s2.faults = {'fd': [], 'fsrc': [], 'lag': 0, 'fw': []}
                s2.faults[kind] = [k]
                s2.tag = 'A'
                o = sync_e2e.run_scenario(s2, binary, jbin, base)
                im = o.impl
                run.count('A:' + kind)
                run.count('A:exit:%s' % im['exit'])
                run.case(('A', sc.key(), kind, k), True, sample={'fault': [kind, k], 'of': {'fw': n_w, 'fsrc': n_g, 'fd': len(mut)}[kind], 'exit': im['exit'], 'lag_found': o.lag} if len(run.samples) < 8 else None)
                run.traces_validated += 1
                replay = {'family': 'A', 'scenario': s2.to_json()}
                if im['exit'] == 0:
                    run.fail('C07: the %s failure #%d (of %d, reached in every run) was not reported: exit 0' % (kind, k, {'fw': n_w, 'fsrc': n_g, 'fd': len(mut)}[kind]), replay)
                    continue
                if not im['out']['errors']:
                    run.fail('C07: exit %s without an error message' % im['exit'], dict(replay, text=im['text'][-400:]))
                    continue
                bad = classify(s2, im['before']['dest'], im['after']['dest'], planned, im['after']['src'])
                if bad:
                    run.fail('C07: after the failed run these paths are neither as before, nor as planned, nor an unstamped partial file: %s' % bad[:3], replay)
                elif o.mismatch:
                    run.broke('correspondence', 'e2e-A', json.dumps({'scenario': s2.to_json(), 'mismatch': o.mismatch})[:2500])
        # ---- B: scripted replies: Error to the k-th command, delivered j commands later ----
        reqs = []
        for g in range(30 if quick else 800):
            sc = sync_e2e.gen_scenario(rng, 'clean')
            sc.filters, sc.excluded = [], []
            if sc.src.get('', {}).get('k') != 'dir':
                continue
            ls = scripted.model_listing(jbin, sc.src)
            ld = scripted.model_listing(jbin, sc.dest) if sc.dest.get('', {}).get('k') == 'dir' else []
            sched = ''.join(rng.sample(['S'] * len(ls) + ['D'] * len(ld), len(ls) + len(ld)))
            # how many commands the real boss sends in this scenario (the scripted source answers every read with one chunk)
            im0 = scripted.run_batch(binary, [scripted.harness_line(sc, ls, ld, sched)], timeout=120)[0]
            if not im0['ok']:
                run.fail('C07: sync() failed against fault-free scripted doers', {'family': 'B', 'scenario': sc.to_json(), 'sched': sched})
                continue
            n_m, n_g = len(im0['dest']), len(im0['src'])
            for k in range(n_m):
                for j in ((0, 1, 2, 5, 1000) if not quick else rng.sample((0, 1, 2, 5, 1000), 2)):
                    reqs.append((sc, ls, ld, sched, ((k, j),), (), 'reply k=%d j=%d of %d' % (k, j, n_m)))
            for k in range(n_g):
                reqs.append((sc, ls, ld, sched, (), (k,), 'srcfail k=%d of %d' % (k, n_g)))
        if reqs:
            impl = scripted.run_batch(binary, [scripted.harness_line(sc, ls, ld, sched, errs=e, srcfail=sf) for sc, ls, ld, sched, e, sf, _ in reqs], timeout=1200)
            for (sc, ls, ld, sched, e, sf, label), im in zip(reqs, impl):
                run.count('B:' + ('reply' if e else 'srcfail'))
                run.case(('B', sc.key(), sched, e, sf), True, sample={'scripted': label} if len(run.samples) < 10 else None)
                run.traces_validated += 1
                if im['ok']:
                    run.fail('C07: sync() returned Ok although the %s was an Error (scripted doers)' % label,
                             {'family': 'B', 'scenario': sc.to_json(), 'ls': ls, 'ld': ld, 'sched': sched, 'errs': e, 'srcfail': sf})
        # ---- B2: an early Error reply followed by thousands of cheap entries.  Folders and symlinks are only polled in the main copy loop
        # (files have their own poll inside copy_file), so an error that is noticed there and then forgotten again shows only when many such
        # entries follow the failing one - with a handful of commands the reply arrives during the final blocking wait, which always sees it.
        reqs2 = []
        for v in range(3 if quick else 24):
            sc = sync_e2e.Scenario()
            sc.cfg = {'newer': 'A', 'older': 'A', 'same': 'S', 'entry': 'A', 'root': 'A'}
            sc.outside = {'': {'k': 'dir'}}
            n = rng.choice([2500, 4000]) if quick else rng.choice([1500, 4000, 9000])
            src = {'': {'k': 'dir'}, 'a0': {'k': 'dir'}, 'a1': {'k': 'link', 'text': b'a0'}, 'a2': {'k': 'file', 'data': b'x', 'mtime_ns': sync_e2e.T0}}
            for i in range(n):
                src['z%05d' % i] = {'k': 'dir'} if i % 3 == 0 else {'k': 'link', 'text': b'a0'}
            sc.src, sc.dest = src, {'': {'k': 'dir'}}
            ls = scripted.model_listing(jbin, sc.src)
            k = v % 3
            reqs2.append((sc, ls, [], 'S' * len(ls), ((k, rng.choice([0, 1, 3])),), 'early reply k=%d of %d commands' % (k, len(ls))))
        impl2 = scripted.run_batch(binary, [scripted.harness_line(sc, ls, ld, sched, errs=e) for sc, ls, ld, sched, e, _ in reqs2], timeout=1200)
        for (sc, ls, ld, sched, e, label), im in zip(reqs2, impl2):
            run.count('B2:early-error-many-entries')
            run.case(('B2', len(ls), e), True)
            run.traces_validated += 1
            if im['ok']:
                run.fail('C07: sync() returned Ok although the %s was an Error (scripted doers, %d cheap entries after it)' % (label, len(ls)),
                         {'family': 'B2', 'n_entries': len(ls), 'errs': e})
            elif len(im['dest']) >= len(ls):
                run.count('B2:boss-sent-everything-before-noticing')
        # ---- U: arbitrary command sequences against the real doer thread, command by command, vs the doer model (every doer-side failure
        #         becomes an Error response; a success has its effect) ----
        import doerops_lib
        doerops_lib.family(run, binary, jbin, n_seq=400 if quick else 20000)
        # ---- C: natural failures ----
        for si, sc in enumerate([gen_c08(rng, big=0.6) for _ in range(20 if quick else 500)]):
            if not any(n['k'] == 'file' and len(n['data']) > 600 for n in sc.src.values()):
                continue
            o0 = sync_e2e.run_scenario(sc, binary, jbin, base)
            for blocks in (1, 5, 9, 17, 25, 57):
                o = sync_e2e.run_scenario(sc, binary, jbin, base, ulimit_f=blocks)
                im = o.impl
                short = [p for p, a in im['after']['dest'].items() if a[0] == 'file' and o0.impl['after']['dest'].get(p, a) != a and im['before']['dest'].get(p) != a]
                run.count('C:efbig:exit:%s' % im['exit'])
                run.case(('C', sc.key(), blocks), bool(short), sample={'ulimit_f_blocks': blocks, 'exit': im['exit'], 'incomplete': short[:2]} if short and len(run.samples) < 12 else None)
                replay = {'family': 'C', 'scenario': sc.to_json(), 'ulimit_f_blocks': blocks}
                if short and im['exit'] == 0:
                    run.fail('C07: file-size limit %d blocks: %s is not what the complete run writes and the run exited 0' % (blocks, short[:3]), replay)
                elif im['exit'] != 0:
                    bad = classify(sc, im['before']['dest'], im['after']['dest'], o0.impl['after']['dest'], im['after']['src'])
                    if bad:
                        run.fail('C07: file-size limit %d blocks: paths neither as before, nor as planned, nor unstamped partial: %s' % (blocks, bad[:3]), replay)
        for i in range(16 if quick else 400):           # a folder the sync must delete holds an entry the filter hides
            T = sync_e2e.T0
            sc = sync_e2e.Scenario()
            sc.outside = {k: dict(v) for k, v in sync_e2e.OUTSIDE.items()}
            nm = rng.choice(['keep.tmp', 'x', 'b'])
            sc.src = {'': {'k': 'dir'}, 'a': {'k': 'file', 'data': b'A', 'mtime_ns': T}}
            sc.dest = {'': {'k': 'dir'}, 'old': {'k': 'dir'}, 'old/' + nm: {'k': 'file', 'data': b'hidden', 'mtime_ns': T}}
            if rng.random() < 0.5:
                sc.src['old'] = {'k': 'file', 'data': b'now a file', 'mtime_ns': T}      # kind conflict: delete folder, create file
            for extra in rng.sample(['m', 'n', 'o'], rng.randrange(0, 3)):
                sc.src[extra] = {'k': 'file', 'data': b'e' * rng.choice([1, 5000]), 'mtime_ns': T + 2}
            sc.cfg = {'newer': 'A', 'older': 'A', 'same': 'S', 'entry': 'A', 'root': 'A'}
            sc.filters = ['-(.*/)?' + re.escape(nm)]
            sc.excluded = sorted(p for p in set(sc.src) | set(sc.dest) if p and p.split('/')[-1] == nm)
            o = sync_e2e.run_scenario(sc, binary, jbin, base)
            im = o.impl
            run.count('C:notempty:exit:%s' % im['exit'])
            run.case(('C-ne', sc.key()), True)
            run.traces_validated += 1
            if im['exit'] == 0:
                run.fail('C07: the folder \'old\' could not be removed (it holds an excluded entry) and the run exited 0', {'family': 'C-notempty', 'scenario': sc.to_json(), 'text': im['text'][-500:]})
            elif not im['out']['errors']:
                run.fail('C07: exit %s without an error message' % im['exit'], {'family': 'C-notempty', 'scenario': sc.to_json()})
            elif o.mismatch:
                run.broke('correspondence', 'e2e-C', json.dumps({'scenario': sc.to_json(), 'mismatch': o.mismatch})[:2500])
        # ---- E: a spec file with two syncs, one of which fails ----
        for i in range(10 if quick else 150):
            root = tempfile.mkdtemp(prefix='spec_', dir=base)
            T = sync_e2e.T0
            good_s = {'': {'k': 'dir'}, 'f': {'k': 'file', 'data': b'ok', 'mtime_ns': T}}
            bad_s = {'': {'k': 'dir'}, 'g': {'k': 'file', 'data': bytes(9000), 'mtime_ns': T}}
            order = rng.choice([('good', 'bad'), ('bad', 'good')])
            for nm, tree in (('good', good_s), ('bad', bad_s)):
                e2e.build_tree(os.path.join(root, nm + '_src'), tree)
                e2e.build_tree(os.path.join(root, nm + '_dest'), {'': {'k': 'dir'}})
            spec = 'syncs:\n' + ''.join('  - src: %s/\n    dest: %s/\n' % (os.path.join(root, nm + '_src'), os.path.join(root, nm + '_dest')) for nm in order)
            open(os.path.join(root, 'spec.yaml'), 'w').write(spec)
            which = rng.choice(['write', 'get'])
            # the failing index is counted over the whole process: the bad sync's file transfer
            idx = {('good', 'bad'): 1, ('bad', 'good'): 0}[order]
            env = {'RJRSSYNC_VERIF_FAULTS': ('write:%d:fail' % (idx if order[0] == 'bad' else 1)) if which == 'write' else ('get:%d:error' % idx)}
            r = e2e.run_cli(binary, ['--spec', os.path.join(root, 'spec.yaml')], env=env, timeout=60)
            out = e2e.parse_output(r['stdout'] + r['stderr'])
            run.count('E:exit:%s' % r['exit'])
            run.case(('E', order, which), True, sample={'spec_order': order, 'fault': env['RJRSSYNC_VERIF_FAULTS'], 'exit': r['exit']} if len(run.samples) < 14 else None)
            bad_dest = e2e.snapshot(os.path.join(root, 'bad_dest'))
            complete = bad_dest.get('g') == e2e.snapshot(os.path.join(root, 'bad_src')).get('g')
            if r['exit'] == 0 and not complete:
                run.fail('C07: a sync of a multi-sync spec failed (%s) and the run exited 0' % env['RJRSSYNC_VERIF_FAULTS'],
                         {'family': 'E', 'spec': spec, 'env': env, 'text': (r['stdout'] + r['stderr'])[-600:]})
            elif r['exit'] != 0 and not out['errors']:
                run.fail('C07: exit %s without an error message (spec run)' % r['exit'], {'family': 'E', 'spec': spec, 'env': env})
            shutil.rmtree(root, ignore_errors=True)
        # ---- F: generated specs with 1-4 syncs over shared roots against Model/SpecRun.v (exit status, which syncs ran) ----
        import spec_e2e
        spec_e2e.family(run, binary, jbin, base, 40 if quick else 2500, rng, 'C07')
        # ---- G: unprivileged run over a destination whose files belong to somebody else (the time cannot be set) ----
        run_unprivileged(run, binary, base, rng, 25 if quick else 800)
    finally:
        shutil.rmtree(base, ignore_errors=True)
    return run.finish(search=None)


def replay(run, path):
    print(open(path).read()[:4000])
    return check(run)
