"""C08 - An interrupted or failed sync can always be repaired by running it again.

Proof: Props/C08.v - the invariant Good ("a file with a SET time is the original one or holds the
source's complete bytes") holds in every state a kill can leave behind (command boundaries and, inside
a file command, after create/truncate, after any part of a write, before and after the time stamp), for
every plan and every fault plan (failing commands, failing writes with the doer's refusal of the rest of
the file, failing source reads, any notice lag, a doer dying after any number of commands); hence a
damaged file never passes for an up-to-date one and a re-run that returns Ok mirrors the source.
Tie: the real CLI
  A. with a write failure injected at every chunk of every file (later chunks queued) and command failures
     at every index: model correspondence (exit, tree, traces), damage oracle, recovery run + mirror oracle;
  B. killed (abort) at every crash point of the doer (command boundaries, after create, after write, after
     the time stamp), local and remote doer: damage oracle, model state at boundary points (ft_stop),
     recovery run + mirror oracle;
  C. under a file-size limit (EFBIG: real partial writes inside a chunk): damage oracle + recovery."""
import os, sys, json, tempfile, shutil
import vlib, e2e, sync_e2e

THEOREMS = ['C08_kill_states_safe', 'C08_kill_states_are_of_this_run', 'C08_chunk_step', 'C08_no_damaged_file_passes',
            'C08_rerun_repairs', 'C08_executable', 'C08_states_well_formed', 'C08_rerun_executable', 'C08_executable_unconditional', 'C08_chunk_ladder_matches_code', 'C08_walked_crash_states', 'C08_walked_rerun_repairs']
KINDS = ('CreateRootAncestors', 'CreateOrUpdateFile', 'CreateSymlink', 'CreateFolder', 'DeleteFile', 'DeleteFolder', 'DeleteSymlink')
RECOVER = {'newer': 'A', 'older': 'A', 'same': 'S', 'entry': 'A', 'root': 'A'}


def gen(rng, big=0.5):
    sc = sync_e2e.gen_scenario(rng, 'clean', p_big=big)
    sc.filters, sc.excluded = [], []
    sc.cfg = dict(RECOVER)
    for t in (sc.src, sc.dest):                      # links stay inside the sandbox's trees (F6b is C02's finding)
        for p, n in t.items():
            if n['k'] == 'link' and b'outside' in n['text']:
                n['text'] = rng.choice([b'a', b'./a', b'nonexistent', b'b/../a'])
    return sc


def damage(src, before, after):
    """Paths whose file carries the source's modification time but other bytes - unless it was already so."""
    bad = []
    for p, a in after.items():
        s = src.get(p)
        if a[0] == 'file' and s and s[0] == 'file' and a[3] == s[3] and (a[1], a[2]) != (s[1], s[2]) and before.get(p) != a:
            bad.append(p)
    return bad


def mirror_diff(src, orig_dest, dest, jbin):
    """The destination after the repair run against the source (C01's mirror, its same-time exemption
    taken with respect to the destination before the FIRST run)."""
    mm = []
    for p in sorted(set(src) | set(dest)):
        s, d = src.get(p), dest.get(p)
        if s is None or d is None or s[0] != d[0]:
            mm.append('%r: source %s destination %s' % (p, s and s[0], d and d[0]))
        elif s[0] == 'file' and s != d:
            o = orig_dest.get(p)
            if not (o == d and o[0] == 'file' and o[3] == s[3]):
                mm.append('file %r differs from the source (len %s vs %s, mtime %s vs %s)' % (p, d[1], s[1], d[3], s[3]))
        elif s[0] == 'link' and s[1] != d[1]:
            if vlib.judge(jbin, ['SAMETEXT %s %s' % (s[1].hex() or '-', d[1].hex() or '-')])[0].strip() != '1':
                mm.append('link %r text %r vs %r' % (p, d[1], s[1]))
    return mm


def recover(run, sc, o, binary, jbin, fake, label, orig_dest, replay):
    """Runs the same sync again on the sandbox of outcome o (kept) and checks that it mirrors."""
    sc2 = sync_e2e.Scenario.from_json(sc.to_json())
    sc2.cfg, sc2.faults, sc2.answers = dict(RECOVER), {'fd': [], 'fsrc': [], 'lag': 0}, []
    r = e2e.run_cli(binary, sync_e2e.cli_args(sc2, o.src_abs, o.dest_abs), env={}, timeout=60,
                    fake_ssh=fake if 'R' in sc.placement else None)
    src_snap, dest_snap = e2e.snapshot(o.src_abs), e2e.snapshot(o.dest_abs)
    if r['exit'] != 0:
        run.fail('C08 %s: the repair run failed (exit %s)' % (label, r['exit']), dict(replay, repair_text=(r['stdout'] + r['stderr'])[-800:]))
        return False
    mm = mirror_diff(src_snap, orig_dest, dest_snap, jbin)
    if mm:
        run.fail('C08 %s: after the repair run the destination is no mirror: %s' % (label, mm[:3]), replay)
        return False
    return True


def points_of(sc, binary, jbin, base, fake):
    """The crash points a run of this scenario passes: list of names in order."""
    log = os.path.join(base, 'points.log')
    if os.path.exists(log):
        os.unlink(log)
    o = sync_e2e.run_scenario(sc, binary, jbin, base, fake_ssh=fake, extra_env={'RJRSSYNC_VERIF_POINT_LOG': log})
    try:
        names = [l.split()[1] for l in open(log).read().splitlines() if l.strip()]
    except OSError:
        names = []
    return o, names


def build_shim():
    """Compiles harness/shim/failcreate.c into .cache/bin/failcreate.so (None when there is no C compiler)."""
    import subprocess
    src = os.path.join(vlib.VERIF, 'harness', 'shim', 'failcreate.c')
    out = os.path.join(vlib.BIN, 'failcreate.so')
    cc = shutil.which('gcc') or shutil.which('cc') or shutil.which('clang')
    if cc is None:
        return None
    os.makedirs(vlib.BIN, exist_ok=True)
    if not os.path.exists(out) or os.path.getmtime(out) < os.path.getmtime(src):
        p = subprocess.run([cc, '-shared', '-fPIC', '-O1', '-o', out, src, '-ldl'], stdout=subprocess.PIPE, stderr=subprocess.STDOUT, text=True)
        if p.returncode != 0:
            vlib.log('shim build failed: ' + p.stdout[-300:])
            return None
    return out


def check(run):
    run.trusted = list(vlib.COMMON_TRUSTED) + ['the doer fault / crash-point hooks (harness/hooks/doer/00_faults.rs): a failing write is reported after the bytes were written; a kill is an abort() of the process at a named point',
                                               'the sandbox snapshot (tools/e2e.py) as the observation of the destination']
    run.assumptions = ['the interruption is a process death or a failed operation; the file system itself keeps what was written (no power loss / torn metadata)',
                       'no effect leaves the destination through a symlink during the interrupted run (F6b, recorded under C02)']
    run.extra['rule'] = ('tree pairs with multi-chunk files (4 KiB ... 28 KiB + 1, chunk sizes 4096, 8192, 16384), no filters, links inside the trees; '
                         'A: one failing write per chunk index / one failing command per index; B: one kill per crash point; C: file-size limits inside and '
                         'between chunks; every interrupted run is followed by the repair run; distinct by scenario hash + fault; non-trivial = the interrupted run changed or failed')
    binary = vlib.build_impl()
    vlib.regen_facts(binary)
    run.check_proofs('C08', THEOREMS, extra_targets=['theories/Extract/Ex_sync.vo'])
    jbin = vlib.build_judge('sync')
    rng = run.rng
    quick = run.tier == 'quick'
    base = tempfile.mkdtemp(prefix='c08_', dir=vlib.CACHE)
    fake = e2e.fake_ssh_dir(base)

    def done(o):
        shutil.rmtree(o.root, ignore_errors=True)

    try:
        # the F4 witness first (corpus): 3 chunks, first write fails
        corpus = sync_e2e.Scenario()
        corpus.outside = {k: dict(v) for k, v in sync_e2e.OUTSIDE.items()}
        corpus.src = {'': {'k': 'dir'}, 'f': {'k': 'file', 'data': bytes(97 + i % 26 for i in range(12289)), 'mtime_ns': sync_e2e.T0}}
        corpus.dest = {'': {'k': 'dir'}}
        corpus.cfg = dict(RECOVER)
        corpus.tag = 'F4-corpus'
        scen = [corpus] + [gen(rng) for _ in range(30 if quick else 900)]
        # ---- A: failing writes / failing commands at every index ----
        for si, sc in enumerate(scen):
            o0 = sync_e2e.run_scenario(sc, binary, jbin, base)
            n_w = sum(1 for c in o0.impl['dest_cmds'] if c == 'CreateOrUpdateFile')
            n_m = sum(1 for c in o0.impl['dest_cmds'] if c in KINDS)
            plans = [{'fw': [k]} for k in range(n_w)]
            if si % 3 == 0:
                plans += [{'fd': [k]} for k in range(n_m)]
            if si % 4 == 1 and n_w >= 2:
                plans += [{'fw': [0, n_w - 1]}]
            if not quick and o0.impl['src_cmds'].count('GetFileContent') > 0:
                plans += [{'fsrc': [k]} for k in range(min(3, o0.impl['src_cmds'].count('GetFileContent')))]
            for pl in plans:
                s2 = sync_e2e.Scenario.from_json(sc.to_json())
                s2.faults = {'fd': pl.get('fd', []), 'fsrc': pl.get('fsrc', []), 'lag': 0, 'fw': pl.get('fw', [])}
                s2.tag = 'A'
                o = sync_e2e.run_scenario(s2, binary, jbin, base, keep=True)
                try:
                    im = o.impl
                    run.count('A:' + ','.join(sorted(k for k in pl)))
                    run.count('A:exit:%s' % im['exit'])
                    run.case(('A', sc.key(), json.dumps(pl, sort_keys=True)), im['exit'] != 0 or bool(im['dest_trace']),
                             sample={'faults': s2.faults, 'exit': im['exit'], 'model_errs': o.model['errs'], 'lag_found': o.lag})
                    run.traces_validated += 1
                    replay = {'family': 'A', 'scenario': s2.to_json()}
                    bad = damage(im['after']['src'], im['before']['dest'], im['after']['dest'])
                    if bad:
                        run.fail('C08 A: after the failed run %s carries the source\'s time but not its bytes' % bad[:3], replay)
                    elif im['exit'] == 0 and (pl.get('fw') or pl.get('fsrc')) and o.model['errs']:
                        run.fail('C08 A: a failed write went unreported (exit 0)', replay)
                    else:
                        if o.mismatch:
                            run.broke('correspondence', 'e2e-A', json.dumps({'scenario': s2.to_json(), 'mismatch': o.mismatch})[:2500])
                        recover(run, s2, o, binary, jbin, fake, 'A', im['before']['dest'], replay)
                finally:
                    done(o)
        # ---- B: a kill at every crash point ----
        for si, sc in enumerate(scen[:(13 if quick else 250)]):
            placement = 'LR' if si % 3 == 2 else 'LL'
            scp = sync_e2e.Scenario.from_json(sc.to_json())
            scp.placement = placement
            o0, names = points_of(scp, binary, jbin, base, fake)
            run.count('B:points', len(names))
            for n, name in enumerate(names):
                s2 = sync_e2e.Scenario.from_json(scp.to_json())
                s2.tag = 'B'
                o = sync_e2e.run_scenario(s2, binary, jbin, base, fake_ssh=fake, keep=True, extra_env={'RJRSSYNC_VERIF_CRASH_AT': str(n)})
                try:
                    im = o.impl
                    run.count('B:point:' + (name if name in ('created', 'written', 'stamped') else 'boundary'))
                    run.count('B:%s:exit:%s' % (placement, im['exit']))
                    run.case(('B', sc.key(), placement, n), True, sample={'point': name, 'n': n, 'placement': placement, 'exit': im['exit']})
                    replay = {'family': 'B', 'scenario': s2.to_json(), 'crash_at': n, 'point': name}
                    if im['exit'] == 0:
                        run.fail('C08 B: the doer was killed at point %d (%s) and the run still exited 0' % (n, name), replay)
                        continue
                    bad = damage(im['after']['src'], im['before']['dest'], im['after']['dest'])
                    if bad:
                        run.fail('C08 B: killed at point %d (%s): %s carries the source\'s time but not its bytes' % (n, name, bad[:3]), replay)
                        continue
                    # the model's state when the doer dies at a command boundary
                    if name in KINDS or name == 'stamped':
                        k = sum(1 for x in names[:n + 1] if x in KINDS) - (1 if name in KINDS else 0)
                        s3 = sync_e2e.Scenario.from_json(s2.to_json())
                        s3.faults = {'fd': [], 'fsrc': [], 'lag': 0, 'fw': [], 'stop': k}
                        m = sync_e2e.parse_model(vlib.judge(jbin, [sync_e2e.model_line(s3, o.src_abs, o.dest_abs, o.orders)])[0])
                        mm = sync_e2e.diff_dest(m['fs'], im['after']['dest'])
                        run.traces_validated += 1
                        if mm:
                            run.broke('correspondence', 'e2e-B', json.dumps({'scenario': s2.to_json(), 'crash_at': n, 'stop': k, 'mismatch': mm[:4]})[:2500])
                    recover(run, s2, o, binary, jbin, fake, 'B(point %d %s)' % (n, name), im['before']['dest'], replay)
                finally:
                    done(o)
        # ---- C: EFBIG (ulimit -f, 512-byte blocks): partial writes inside a chunk ----
        for si, sc in enumerate(scen[:(14 if quick else 400)]):
            if not any(n['k'] == 'file' and len(n['data']) > 600 for n in sc.src.values()):
                continue
            for blocks in (1, 5, 9, 17, 25):
                s2 = sync_e2e.Scenario.from_json(sc.to_json())
                s2.tag = 'C'
                o = sync_e2e.run_scenario(s2, binary, jbin, base, keep=True, ulimit_f=blocks)
                try:
                    im = o.impl
                    run.count('C:exit:%s' % im['exit'])
                    run.case(('C', sc.key(), blocks), im['exit'] != 0, sample={'ulimit_f_blocks': blocks, 'exit': im['exit']})
                    replay = {'family': 'C', 'scenario': s2.to_json(), 'ulimit_f_blocks': blocks}
                    bad = damage(im['after']['src'], im['before']['dest'], im['after']['dest'])
                    short = [p for p, a in im['after']['dest'].items() if a[0] == 'file' and im['after']['src'].get(p, a)[0] == 'file'
                             and a[1] < im['after']['src'].get(p, a)[1] and im['before']['dest'].get(p) != a]
                    if bad:
                        run.fail('C08 C: file-size limit %d blocks: %s carries the source\'s time but not its bytes' % (blocks, bad[:3]), replay)
                    elif short and im['exit'] == 0:
                        run.fail('C08 C: file-size limit %d blocks: %s is shorter than its source and the run exited 0' % (blocks, short[:3]), replay)
                    else:
                        recover(run, s2, o, binary, jbin, fake, 'C(limit %d)' % blocks, im['before']['dest'], replay)
                finally:
                    done(o)
        # ---- D: sources saved a moment ago (the "build && sync" pattern): the interrupted file carries the time of its last
        #         write, a few milliseconds after the source's - the repair run must still see that it differs ----
        import time
        for i in range(12 if quick else 300):
            root = tempfile.mkdtemp(prefix='fresh_', dir=base)
            try:
                src = {'': {'k': 'dir'}}
                for k in range(rng.randrange(1, 4)):
                    src['g%d.bin' % k] = {'k': 'file', 'len': rng.choice([9000, 30000, 70000]), 'fill': k + 3 * i, 'mtime_ns': 0}
                e2e.build_tree(os.path.join(root, 'src'), src)
                # ... and sources dated at the edges of the time axis: exactly the epoch (what a 'reset' time stamp would be), 1 ns after it, year 2200
                now = [time.time_ns(), 0, 1, 7258118400 * 10 ** 9][i % 4]
                run.count('D:source-time:' + ['now', 'epoch', 'epoch+1ns', 'year-2200'][i % 4])
                for nm in src:
                    if nm:
                        os.utime(os.path.join(root, 'src', nm), ns=(now, now))
                args = [os.path.join(root, 'src'), os.path.join(root, 'dest'), '--dest-file-newer', 'overwrite', '--dest-file-older', 'overwrite']
                blocks = rng.choice([5, 9, 17, 33])
                r1 = e2e.run_cli(binary, args, env={}, timeout=60, ulimit_f=blocks)
                mid = e2e.snapshot(os.path.join(root, 'dest'))
                r2 = e2e.run_cli(binary, args, env={}, timeout=60)
                srcs, dests = e2e.snapshot(os.path.join(root, 'src')), e2e.snapshot(os.path.join(root, 'dest'))
                run.count('D:first-exit:%s' % r1['exit'])
                run.case(('D', i, blocks), r1['exit'] != 0, sample={'ulimit_f_blocks': blocks, 'first_exit': r1['exit'], 'second_exit': r2['exit']} if i < 3 else None)
                replay = {'family': 'D', 'files': {k: v.get('len') for k, v in src.items()}, 'ulimit_f_blocks': blocks, 'second_text': (r2['stdout'] + r2['stderr'])[-500:]}
                if r2['exit'] != 0:
                    run.fail('C08 D: the repair run after an interrupted sync of just-saved files failed (exit %s)' % r2['exit'], replay)
                else:
                    mm = mirror_diff(srcs, {}, dests, jbin)
                    if mm:
                        run.fail('C08 D: just-saved source files, sync interrupted by a file-size limit, repair run exits 0 but the destination is no mirror: %s' % mm[:3], replay)
            finally:
                shutil.rmtree(root, ignore_errors=True)
        # ---- E: a transient failure of the CREATION of a destination file (EMFILE once, through an LD_PRELOAD shim built
        #         from harness/shim/failcreate.c) while the following chunks are already queued ----
        shim = build_shim()
        if shim is None:
            run.count('E:skipped(no C compiler)')
        else:
            for i in range(10 if quick else 240):
                root = tempfile.mkdtemp(prefix='crt_', dir=base)
                try:
                    src = {'': {'k': 'dir'}}
                    dest = {'': {'k': 'dir'}}
                    for k in range(rng.randrange(1, 4)):
                        nm = 'h%d.bin' % k
                        src[nm] = {'k': 'file', 'len': rng.choice([9000, 30000, 100000]), 'fill': k + 5 * i, 'mtime_ns': sync_e2e.T0 + k}
                        if rng.random() < 0.4:
                            dest[nm] = {'k': 'file', 'data': b'old version', 'mtime_ns': sync_e2e.T0 - 10**9}
                    e2e.build_tree(os.path.join(root, 'src'), src)
                    e2e.build_tree(os.path.join(root, 'dest'), dest)
                    before = e2e.snapshot(os.path.join(root, 'dest'))
                    args = [os.path.join(root, 'src'), os.path.join(root, 'dest'), '--dest-file-newer', 'overwrite', '--dest-file-older', 'overwrite']
                    nth = rng.randrange(0, len(src) - 1)
                    env = {'LD_PRELOAD': shim, 'VERIF_SHIM_PREFIX': os.path.join(root, 'dest'), 'VERIF_SHIM_FAIL_NTH': str(nth), 'VERIF_SHIM_STALL_US': '300000'}
                    r1 = e2e.run_cli(binary, args, env=env, timeout=60)
                    srcs, mid = e2e.snapshot(os.path.join(root, 'src')), e2e.snapshot(os.path.join(root, 'dest'))
                    run.count('E:first-exit:%s' % r1['exit'])
                    run.case(('E', i, nth), r1['exit'] != 0, sample={'fail_nth_create': nth, 'first_exit': r1['exit']} if i < 3 else None)
                    replay = {'family': 'E', 'files': {k: v.get('len') for k, v in src.items()}, 'dest_had': sorted(dest), 'fail_nth_create': nth,
                              'first_text': (r1['stdout'] + r1['stderr'])[-500:]}
                    bad = damage(srcs, before, mid)
                    if bad:
                        run.fail('C08 E: the creation of a destination file failed once (EMFILE) and %s now carries the source\'s time but not its bytes' % bad[:3], replay)
                        continue
                    if r1['exit'] == 0 and mirror_diff(srcs, before, mid, jbin):
                        run.fail('C08 E: a file creation failed (EMFILE), the run exited 0 and the destination is no mirror', replay)
                        continue
                    r2 = e2e.run_cli(binary, args, env={}, timeout=60)
                    if r2['exit'] != 0:
                        run.fail('C08 E: the repair run failed (exit %s)' % r2['exit'], dict(replay, second_text=(r2['stdout'] + r2['stderr'])[-500:]))
                    else:
                        mm = mirror_diff(srcs, before, e2e.snapshot(os.path.join(root, 'dest')), jbin)
                        if mm:
                            run.fail('C08 E: after the repair run the destination is no mirror: %s' % mm[:3], replay)
                finally:
                    shutil.rmtree(root, ignore_errors=True)
    finally:
        shutil.rmtree(base, ignore_errors=True)
    return run.finish(search=None)


def replay(run, path):
    print(open(path).read()[:4000])
    return check(run)
