"""C09 - Every run terminates, also when something breaks mid-transfer.

Proof: Props/C09.v over Model/Shutdown.v (boss, source doer, destination doer, four byte-accounted
channels, local placement; `fixed` parameter = the F5 repair).
Tie: the real CLI under a watchdog (a timeout = a hang = violation) over fault families x queue occupancy
(capacity override hook) x placement (fake ssh, kill / TCP cut through tools/cut_proxy.py); the extracted
model is run on the same scenario under boss-eager / doer-eager / random schedules and must admit what
the implementation did (exit class, and STUCK iff the implementation hung).
Property oracle (from the property text, independent of the model): no timeout; fault => exit != 0."""
import os, sys, json, tempfile, shutil, glob, time, concurrent.futures as cf
import vlib, e2e
import shutdown_lib as L
import remote_session_lib as RS

THEOREMS = ['C09_no_stuck', 'C09_impl_repaired', 'C09_no_stuck_impl', 'C09_step_decreases', 'C09_terminates',
            'C09_exit_nonzero', 'C09_clean_exit_zero', 'C09_refuted_unfixed', 'C09_holds_below_capacity', 'C09_run_sound',
            'C09_sync_layer_step_decreases', 'C09_sync_layer_terminates',
            # remote placement (Model/RemoteSession.v)
            'C09_remote_no_stuck_partial', 'C09_remote_no_stuck_link_down', 'C09_remote_no_stuck_after_cut', 'C09_remote_no_stuck_after_stdin_closed', 'C09_remote_receiver_never_waits', 'C09_remote_stuck_shape', 'C09_remote_no_stuck_faultfree_partial', 'C09_remote_step_decreases', 'C09_remote_terminates', 'C09_remote_run_sound', 'C09_remote_plan_run_sound',
            'C09_remote_needs_resp_ok', 'C09_remote_needs_covered', 'C09_remote_exit_refuted']
REMOTE_C14 = ['C14_remote_delivery', 'C14_remote_pipeline']     # stated in Props/C14.v over the same model

WATCHDOG = 30.0          # seconds; a run normally takes 0.01 s (local) to 0.4 s (both remote)
WATCHDOG_SLOW = 90.0     # runs that really move tens of MiB through the debug-build AES link (2 - 15 s)
WATCHDOG_BIG = 240.0     # sparse 400 MiB runs (debug build: 1 - 60 s)
WORKERS = 6
MAX_FAIL = 3             # stop generating work after this many property failures (each hang costs a watchdog)

FILES = [150000, 5000]   # 150000 B = chunks 4096..65536 + rest: 6 FileContent messages; 5000 B = 2
CAPS = [None, 70000, 20000, 4096]   # below (real 100 MiB) / about one big chunk / above / far above


def canon(sc):
    return json.dumps(sc, sort_keys=True)


def clean_counts(binary, tmp, placement, files, cache={}):
    """Mutating commands / writes / frames per direction of a fault-free run (deterministic)."""
    key = (placement, tuple(files))
    if key in cache:
        return cache[key]
    out = {}
    base = tempfile.mkdtemp(prefix='clean_', dir=tmp)
    shutil.rmtree(base)
    os.makedirs(base)
    o = L.run(binary, {'placement': placement, 'files': files, 'capacity': None, 'fault': {'kind': 'none'}}, base, WATCHDOG)
    out['mut'], out['writes'], out['points'], out['exit'] = o['mutating_cmds'], o['writes'], o['points'], o['exit']
    shutil.rmtree(base, ignore_errors=True)
    for side in ('src', 'dest'):
        if placement[0 if side == 'src' else 1] != 'R':
            continue
        base = tempfile.mkdtemp(prefix='clean_', dir=tmp)
        shutil.rmtree(base)
        os.makedirs(base)
        o = L.run(binary, {'placement': placement, 'files': files, 'capacity': None,
                           'fault': {'kind': 'cut', 'side': side, 'dir': 'b2d', 'frames': 10 ** 9, 'bytes': 0}}, base, WATCHDOG)
        out['frames_' + side] = (o.get('cut_stats') or {}).get('frames')
        shutil.rmtree(base, ignore_errors=True)
    cache[key] = out
    return out


def gen(run, binary, tmp):
    """Yields scenarios. Quick: every index of every family on one two-file tree; thorough: more trees,
    more capacities, all placements for every family, the hook-free sparse runs."""
    rng = run.rng
    thorough = run.tier == 'thorough'
    trees = [FILES] + ([[40000], [0, 150000, 1], [5000, 150000, 70000]] if thorough else [])
    caps = CAPS + ([150000 + 13 * 6, 150000 + 13 * 6 - 1, 1000000] if thorough else [])
    for files in trees:
        cc = clean_counts(binary, tmp, 'LL', files)
        # no fault, every placement and capacity
        for pl in ('LL', 'RL', 'LR', 'RR'):
            for cap in caps:
                yield {'placement': pl, 'files': files, 'capacity': cap, 'fault': {'kind': 'none'}}
        # (1) error reply at every mutating command index (one past the end = no fault), write failures, source errors
        placements = ('LL', 'RL', 'LR', 'RR') if thorough else ('LL',)
        for pl in placements:
            for cap in caps:
                for k in range(cc['mut'] + 1):
                    yield {'placement': pl, 'files': files, 'capacity': cap, 'fault': {'kind': 'cmd_error', 'k': k}}
                for k in range(cc['writes'] + 1):
                    yield {'placement': pl, 'files': files, 'capacity': cap, 'fault': {'kind': 'write_fail', 'k': k}}
                for k in range(len(files) + 1):
                    yield {'placement': pl, 'files': files, 'capacity': cap, 'fault': {'kind': 'get_error', 'k': k}}
        if not thorough:
            for pl in ('RL', 'LR', 'RR'):
                for cap in (None, 20000):
                    for k in sorted(set([0, 1, 2, cc['mut'] // 2, cc['mut'] - 1])):
                        yield {'placement': pl, 'files': files, 'capacity': cap, 'fault': {'kind': 'cmd_error', 'k': k}}
                    yield {'placement': pl, 'files': files, 'capacity': cap, 'fault': {'kind': 'write_fail', 'k': 2}}
                    yield {'placement': pl, 'files': files, 'capacity': cap, 'fault': {'kind': 'get_error', 'k': 0}}
        # (2) EFBIG through ulimit: the limit falls inside the first file
        for pl in ('LL', 'RL', 'LR', 'RR'):
            for cap in (caps if thorough else (None, 20000)):
                for blocks in ((8, 32, 100) if thorough else (32,)):
                    yield {'placement': pl, 'files': files, 'capacity': cap, 'fault': {'kind': 'efbig', 'blocks': blocks}}
    # (3) source file growing / shrinking while it is copied (a race: only termination is demanded)
    nrace = 24 if thorough else 8
    for i in range(nrace):
        pl = ('LL', 'RL', 'LR')[i % 3]
        big = (30 if pl == 'LL' else 8) * 1024 * 1024
        kind = 'grow' if i % 2 == 0 else 'shrink'
        yield {'placement': pl, 'files': [big, 4096], 'sparse': True, 'capacity': (None, 200000)[(i // 2) % 2], 'slow': True,
               'fault': {'kind': kind, 'file': 0, 'delay_ms': rng.choice([5, 15, 30, 60]),
                         'to': big * 2 if kind == 'grow' else rng.choice([0, 4096, big // 2])}}
    # (4) remote doers dying / links cut
    files = FILES
    for pl, side in (('RL', 'src'), ('LR', 'dest'), ('RR', 'src'), ('RR', 'dest')):
        if not thorough and pl == 'RR':
            continue
        cc = clean_counts(binary, tmp, pl, files)
        fr = cc.get('frames_' + side) or {'b2d': 6, 'd2b': 6}
        ncmds = fr['b2d']          # one frame per command
        for cap in ((None, 20000, 4096) if thorough else (None, 20000)):
            for k in range(1, ncmds + 1):
                yield {'placement': pl, 'files': files, 'capacity': cap, 'fault': {'kind': 'kill', 'side': side, 'lines': k}}
            if side == 'dest':
                for n in range(cc['points'] + 1):
                    yield {'placement': pl, 'files': files, 'capacity': cap, 'fault': {'kind': 'crash', 'n': n}}
            for d in ('b2d', 'd2b'):
                for i in range(fr[d] + 1):
                    for b in ((0, 3, 13) if (thorough or cap is None) else (0,)):
                        yield {'placement': pl, 'files': files, 'capacity': cap,
                               'fault': {'kind': 'cut', 'side': side, 'dir': d, 'frames': i, 'bytes': b, 'of': fr[d]}}
    # (5) hook-free: sparse 400 MiB source against the real 100 MiB capacity
    if thorough:
        for pl in ('LL', 'RL', 'LR'):
            yield {'placement': pl, 'files': [400 * 1024 * 1024], 'sparse': True, 'capacity': None, 'big': True,
                   'fault': {'kind': 'efbig', 'blocks': 2048}}
        yield {'placement': 'LL', 'files': [400 * 1024 * 1024], 'sparse': True, 'capacity': None, 'big': True,
               'fault': {'kind': 'write_fail', 'k': 1}}


def fault_happened(sc, obs):
    """True / False / None (= cannot be decided from outside: only termination is demanded)."""
    fl = sc['fault']
    k = fl['kind']
    r = L.fault_surely_happened(sc, obs)
    if k == 'crash':
        return obs['points'] > fl['n']
    if k == 'cut':
        st = obs.get('cut_stats')
        if not st or not st.get('did_cut'):
            return False if st else None
        # the last two frames of a direction are Done-marker/Shutdown (commands) or the final reply:
        # a cut at or after them may leave a complete, correctly reported sync
        return True if fl['frames'] <= fl.get('of', 0) - 2 else None
    return r


def oracle(sc, obs):
    """The property, judged on what the implementation did."""
    if obs['timed_out']:
        return 'the run did not hand control back within the watchdog (%.0f s): hang' % obs['watchdog']
    fh = fault_happened(sc, obs)
    if fh is True and obs['exit'] == 0:
        return 'a fault happened (%s) but the exit status is 0' % sc['fault']['kind']
    return None


def run_one(binary, tmp, sc):
    base = tempfile.mkdtemp(prefix='c_', dir=tmp)
    shutil.rmtree(base)
    os.makedirs(base)
    wd = WATCHDOG_BIG if sc.get('big') else (WATCHDOG_SLOW if sc.get('slow') else WATCHDOG)
    try:
        obs = L.run(binary, sc, base, wd)
    finally:
        shutil.rmtree(base, ignore_errors=True)
    obs['watchdog'] = wd
    return obs


def record(run, sc, obs, model=None):
    fl = sc['fault']
    run.count('fault:' + fl['kind'])
    run.count('placement:' + sc['placement'])
    run.count('capacity:' + ('real' if sc.get('capacity') is None else str(sc['capacity'])))
    run.count('exit:' + ('timeout' if obs['timed_out'] else str(obs['exit'])))
    run.case(canon(sc), fl['kind'] != 'none', sample={'scenario': sc, 'exit': obs['exit'], 'timed_out': obs['timed_out'],
                                                       'wall_s': obs['wall_s'], 'model': model})
    run.traces_validated += 1
    run.extra.setdefault('wall_max_s', 0.0)
    if not obs['timed_out']:
        run.extra['wall_max_s'] = max(run.extra['wall_max_s'], obs['wall_s'])
    if obs['wall_s'] > 3.0 and not obs['timed_out']:
        vlib.log('slow run %.1fs: %s' % (obs['wall_s'], canon(sc)))
        run.extra.setdefault('slow_runs', []).append({'scenario': sc, 'wall_s': obs['wall_s']})
    bad = oracle(sc, obs)
    if bad:
        run.fail('C09 oracle: ' + bad, {'scenario': sc, 'observation': obs, 'model': model})
    return bad


def model_verdicts(jbin, scs, fixed):
    """Asks the extracted model. One answer per scenario: dict(exits=set of exit codes over the schedules
    tried, stuck=bool) or None when the scenario is outside the modelled placement/fault kinds."""
    lines, idx = [], []
    for i, sc in enumerate(scs):
        l = model_line(sc, fixed)
        if l is not None:
            lines.append(l)
            idx.append(i)
    out = [None] * len(scs)
    if not lines:
        return out
    ans = vlib.judge(jbin, lines)
    for i, a in zip(idx, ans):
        t = a.split()
        if not t or t[0] != 'M':
            raise vlib.BrokenTie('judge answered %r' % a)
        exits = set(int(x) for x in t[1].split('=')[1].split(',') if x != '')
        out[i] = {'exits': sorted(exits), 'stuck': t[2] == 'stuck=1', 'steps': int(t[3].split('=')[1])}
    return out


RESP_OVH = 13    # Response::FileContent: 4 (variant) + 8 (len) + 1 (bool)
CMD_OVH = 50     # Command::CreateOrUpdateFile: variant, path, data length, time option, bool (about)


def model_line(sc, fixed):
    """Scenario -> request line of drv_shutdown, or None when the model does not cover it."""
    fl = sc['fault']
    if sc['placement'] != 'LL' or fl['kind'] not in ('none', 'cmd_error', 'write_fail', 'get_error'):
        return None
    cap = sc['capacity'] if sc.get('capacity') is not None else 100 * 1024 * 1024
    files = ';'.join('%d:%s' % (n, ','.join(str(c) for c in L.chunk_ladder(n))) for n in sc['files'])
    # destination plan: 2 leading mutating commands (root ancestors, root folder), then one per chunk
    nchunks = sum(len(L.chunk_ladder(n)) for n in sc['files'])
    pre = 2
    dplan = ['0'] * (pre + nchunks)
    gplan = ['0'] * len(sc['files'])
    if fl['kind'] == 'cmd_error' and fl['k'] < pre:
        dplan[fl['k']] = '1'
    if fl['kind'] == 'write_fail' and fl['k'] < nchunks:
        dplan[pre + fl['k']] = '1'
    if fl['kind'] == 'get_error' and fl['k'] < len(gplan):
        gplan[fl['k']] = '1'
    return 'S fixed=%d cap=%d rovh=%d covh=%d pre=%d files=%s dplan=%s gplan=%s' % (
        1 if fixed else 0, cap, RESP_OVH, CMD_OVH, pre, files, ''.join(dplan), ''.join(gplan))


def listing_fault_family(run, binary, tmp):
    """A directory that cannot be listed (here: its path is longer than PATH_MAX, which also stops root) on the source or on the
    destination side, local or behind a remote doer: the listing fails in the middle of the walk.  The run must hand control back with a
    non-zero status - the walker's other threads, the doer's listing loop and the boss's wait for both listings must all come to an end."""
    fake = e2e.fake_ssh_dir(tmp)
    for side in ('src', 'dest'):
        for place in ('LL', 'RL', 'LR'):
            root = tempfile.mkdtemp(prefix='lf_', dir=tmp)
            try:
                for d in ('s', 'd'):
                    os.makedirs(os.path.join(root, d, 'ok'))
                    for i in range(30):
                        open(os.path.join(root, d, 'ok', 'f%d' % i), 'w').write('x')
                bad_root = os.path.join(root, 's' if side == 'src' else 'd')
                cur = os.open(bad_root, os.O_RDONLY)
                try:
                    for i in range(24):
                        os.mkdir('d' * 200, dir_fd=cur)
                        nxt = os.open('d' * 200, os.O_RDONLY, dir_fd=cur)
                        os.close(cur)
                        cur = nxt
                finally:
                    os.close(cur)
                args = [('localhost:' if place[0] == 'R' else '') + os.path.join(root, 's') + '/', ('localhost:' if place[1] == 'R' else '') + os.path.join(root, 'd') + '/']
                r = e2e.run_cli(binary, args, fake_ssh=fake if 'R' in place else None, timeout=40)
                run.count('listing-fault:%s:%s:exit:%s' % (side, place, 'hang' if r['timed_out'] else r['exit']))
                run.case(('listing-fault', side, place), True, sample={'unlistable_dir_on': side, 'placement': place, 'exit': r['exit']})
                run.traces_validated += 1
                if r['timed_out']:
                    run.fail('C09 oracle: a directory on the %s side (%s) could not be listed and the run did not hand control back within the watchdog (40 s): hang' % (side, place),
                             {'family': 'listing-fault', 'side': side, 'placement': place})
                elif r['exit'] == 0:
                    run.fail('C09 oracle: a directory on the %s side (%s) could not be listed and the run exited 0' % (side, place),
                             {'family': 'listing-fault', 'side': side, 'placement': place, 'text': (r['stdout'] + r['stderr'])[-300:]})
            finally:
                shutil.rmtree(root, ignore_errors=True)


def big_listing_family(run, binary, tmp):
    """Listings that are many times larger than the channel capacity (capacity override: a few kilobytes; the real 100 MiB needs about
    a million entries): every entry message must be released from the channel's account when the boss takes it, whichever way it takes it
    (blocking receive, poll, or the select over both listings) - otherwise the listing doer waits for capacity for ever."""
    fake = e2e.fake_ssh_dir(tmp)
    T = 1_600_000_000_000_000_000
    for place in ('LL', 'RL', 'LR'):
        for shape in ('both', 'src-only', 'dest-only'):
            root = tempfile.mkdtemp(prefix='bl_', dir=tmp)
            try:
                tree = {'': {'k': 'dir'}}
                for i in range(6):
                    tree['dir%d' % i] = {'k': 'dir'}
                    for j in range(60):
                        tree['dir%d/file_with_a_rather_long_name_%03d.txt' % (i, j)] = {'k': 'file', 'data': b'x', 'mtime_ns': T + j}
                e2e.build_tree(os.path.join(root, 's'), tree if shape != 'dest-only' else {'': {'k': 'dir'}})
                e2e.build_tree(os.path.join(root, 'd'), tree if shape != 'src-only' else {'': {'k': 'dir'}})
                args = [('localhost:' if place[0] == 'R' else '') + os.path.join(root, 's') + '/', ('localhost:' if place[1] == 'R' else '') + os.path.join(root, 'd') + '/']
                r = e2e.run_cli(binary, args, fake_ssh=fake if 'R' in place else None, timeout=60, env={'RJRSSYNC_VERIF_CAPACITY': '3000'})
                run.count('big-listing:%s:%s:exit:%s' % (place, shape, 'hang' if r['timed_out'] else r['exit']))
                run.case(('big-listing', place, shape), True, sample={'placement': place, 'shape': shape, 'entries_per_side': len(tree) - 1, 'capacity': 3000, 'exit': r['exit']})
                run.traces_validated += 1
                if r['timed_out']:
                    run.fail('C09 oracle: listings of %d entries against a channel capacity of 3000 bytes (%s, %s): the run did not hand control back within the watchdog (60 s): hang' % (len(tree) - 1, place, shape),
                             {'family': 'big-listing', 'placement': place, 'shape': shape})
                elif r['exit'] != 0:
                    run.fail('C09/C14: a fault-free sync with listings larger than the channel capacity failed (exit %s): %s' % (r['exit'], r['stderr'][-300:]),
                             {'family': 'big-listing', 'placement': place, 'shape': shape, 'exit': r['exit']})
            finally:
                shutil.rmtree(root, ignore_errors=True)


def huge_remote_source_family(run, binary, tmp):
    """The destination fails early in a file whose REMOTE source is enormous (a sparse file of 300 GiB): after the failure the boss must
    stop the source doer - it must not wait for (or read through) the rest of the file, whose transfer would take hours.  The time to
    hand control back is bounded by the fault, not by how much data the source still has."""
    fake = e2e.fake_ssh_dir(tmp)
    root = tempfile.mkdtemp(prefix='hr_', dir=tmp)
    try:
        os.makedirs(os.path.join(root, 's'))
        with open(os.path.join(root, 's', 'huge.bin'), 'wb') as f:
            f.truncate(300 * 1024 ** 3)
        t0 = time.time()
        r = e2e.run_cli(binary, ['localhost:' + os.path.join(root, 's') + '/', os.path.join(root, 'd') + '/'], fake_ssh=fake, timeout=60, ulimit_f=8192)
        run.count('huge-remote-source:exit:%s' % ('hang' if r['timed_out'] else r['exit']))
        run.case(('huge-remote-source',), True, sample={'source_bytes': 300 * 1024 ** 3, 'dest_limit_bytes': 8192 * 512, 'exit': r['exit'], 'wall_s': round(time.time() - t0, 1)})
        run.traces_validated += 1
        if r['timed_out']:
            run.fail('C09 oracle: the destination failed 4 MiB into a 300 GiB file read from a remote source and the run did not hand control back within the watchdog (60 s)',
                     {'family': 'huge-remote-source'})
        elif r['exit'] == 0:
            run.fail('C09 oracle: a destination write failure and the run exited 0', {'family': 'huge-remote-source', 'text': (r['stdout'] + r['stderr'])[-300:]})
    finally:
        shutil.rmtree(root, ignore_errors=True)


def check(run, only=None):
    run.trusted = list(vlib.COMMON_TRUSTED) + [
        'modelled, not verified: crossbeam channel (FIFO, disconnect on drop), std::thread join/panic semantics, TCP and the kernel socket buffers, ssh',
        'tools/cut_proxy.py (fake ssh with kill / TCP cut), tools/shutdown_lib.py (sandbox, watchdog), the fault hooks of harness/hooks/doer/00_faults.rs']
    run.assumptions = [
        'the Coq model covers the local placement; remote placements (comms threads, socket, ssh) are checked differentially only',
        'control traffic on the destination response channel (error texts, marker echoes) stays below the channel capacity (premise ctl_ok of the theorems; capacities used with the override hook are >= 4096 bytes)',
        'a watchdog timeout (%.0f s for runs that take < 0.5 s) is taken as a hang' % WATCHDOG]
    run.extra['rule'] = ('fault families: error reply at every mutating-command index / write index / GetFileContent index, EFBIG via ulimit, '
                         'racing grow/shrink of the source file, SIGKILL of a remote doer at every command index, abort at every crash point, '
                         'TCP cut at every frame index x 3 byte offsets per direction; x capacity {real, ~1 chunk, above, far above} x placement; '
                         'non-trivial = a fault is planned; distinct by scenario')
    binary = vlib.build_impl()
    vlib.regen_facts(binary)
    run.check_proofs('C09', THEOREMS, extra_targets=['theories/Extract/Ex_shutdown.vo', 'theories/Extract/Ex_remote.vo',
                                                     'theories/Props/C14.vo'])
    try:
        ass = vlib.print_assumptions('C14', REMOTE_C14)
        bad = {t: a for t, a in ass.items() if a}
        missing = [t for t in REMOTE_C14 if t not in ass]
        if bad or missing:
            run.broke('proof', 'C14-remote', 'axioms: %r missing: %r' % (bad, missing))
        run.theorems.update({t: 'closed' for t in REMOTE_C14 if t in ass and not ass[t]})
    except vlib.BrokenTie as e:
        run.broke('proof', 'C14-remote', str(e))
    jbin = vlib.build_judge('shutdown')
    jremote = vlib.build_judge('remote')
    fixed = impl_is_fixed(binary)
    run.extra['impl_has_repair'] = fixed
    tmp = tempfile.mkdtemp(prefix='c09_', dir=vlib.CACHE)
    t0 = time.time()
    try:
        scs = []
        for path in sorted(glob.glob(os.path.join(vlib.VERIF, 'corpus', 'C09', '*.json'))):
            scs.append(json.load(open(path))['scenario'])
        if only is not None and only.get('side'):
            # a scenario of the remote-session family (Model/RemoteSession.v, tools/remote_session_lib.py)
            RS.family(run, binary, jremote, tmp, only=only)
            return run.finish(search=None)
        if only is not None:
            scs = [only]
        else:
            seen = set(canon(s) for s in scs)
            for sc in gen(run, binary, tmp):
                if canon(sc) not in seen:
                    seen.add(canon(sc))
                    scs.append(sc)
        models = model_verdicts(jbin, scs, fixed)
        big = [i for i, s in enumerate(scs) if s.get('big')]
        small = [i for i, s in enumerate(scs) if not s.get('big')]
        nfail = 0
        with cf.ThreadPoolExecutor(max_workers=WORKERS) as ex:
            futs = {}
            for i in small:
                futs[ex.submit(run_one, binary, tmp, scs[i])] = i
            for f in cf.as_completed(futs):
                i = futs[f]
                if f.cancelled():
                    continue
                obs = f.result()
                if record(run, scs[i], obs, models[i]):
                    nfail += 1
                    if nfail >= MAX_FAIL:
                        for g in futs:
                            g.cancel()
                correspond(run, scs[i], obs, models[i])
        for i in big:      # one at a time: they move hundreds of MiB
            if nfail >= MAX_FAIL:
                break
            obs = run_one(binary, tmp, scs[i])
            if record(run, scs[i], obs, models[i]):
                nfail += 1
        # (6) one boss <-> one remote doer session against the extracted Model/RemoteSession.v: kill / stdin closed /
        #     cut at every position, error replies, doer dying during launch; the fake ssh logs the doer's exit status
        if only is None and nfail < MAX_FAIL:
            RS.family(run, binary, jremote, tmp)
            listing_fault_family(run, binary, tmp)        # (7) a directory that cannot be listed, on either side, local or remote
            big_listing_family(run, binary, tmp)          # (8) listings many times larger than the channel capacity
            huge_remote_source_family(run, binary, tmp)   # (9) an early destination failure in an enormous file from a remote source
    finally:
        shutil.rmtree(tmp, ignore_errors=True)
    run.extra['e2e_wall_s'] = round(time.time() - t0, 1)
    return run.finish(search=None)     # every case ran the property oracle on the implementation


def correspond(run, sc, obs, m):
    """Model vs implementation on the modelled part (local placement, reply faults)."""
    if m is None:
        return
    if obs['timed_out']:
        if not m['stuck']:
            run.broke('correspondence', 'shutdown', json.dumps({'scenario': sc, 'impl': 'hang', 'model': m})[:1500])
        return
    # the implementation terminated: its exit class must be one the model can produce
    cls = lambda e: 0 if e == 0 else 1
    if cls(obs['exit']) not in set(cls(e) for e in m['exits']):
        run.broke('correspondence', 'shutdown', json.dumps({'scenario': sc, 'impl_exit': obs['exit'], 'model': m})[:1500])


def impl_is_fixed(binary):
    """Does a sender waiting for capacity notice that its receiver is gone? Asked of the running code."""
    try:
        out = vlib.harness(binary, 'facts-shutdown', timeout=60)
    except vlib.BrokenTie:
        return False
    d = dict(l.split(None, 1) for l in out if ' ' in l)
    return d.get('b_sender_wakes_on_receiver_drop') == '1' and d.get('b_local_shutdown_drops_receiver') == '1'


def replay(run, path):
    r = json.load(open(path))
    sc = r.get('scenario')
    if sc is None:
        print(json.dumps(r, indent=1)[:3000])
        return check(run)
    print('replaying', canon(sc), file=sys.stderr)
    return check(run, only=sc)
