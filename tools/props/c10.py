"""C10 - The boss-doer link rejects forged, altered, replayed or reordered frames.

Proof: Props/C10.v (Model/Frame.v, Proofs/FrameProofs.v).  Tie:
 (a) `unit frames`: the real `send` / `receive` (and the real receiving thread of AsyncEncryptedComms) over
     a localhost TcpStream pair with a real Aes128Gcm, against the extracted receiver automaton on the
     same manipulation script, for every (manipulation, frame index <= 12, direction);
 (b) end to end: the real binaries through a fake ssh that is also a man in the middle on the TCP link;
     the doer's command log and the exit status are observed; with both doers remote frames are moved
     between the two links of the run (and the two links' keys compared); a doer started directly is
     attacked by a peer that does not hold the key;
 (c) the nonce actually used by every captured real frame is recovered by trial decryption.
The property oracle (frames_lib.oracle, e2e oracles below) is written from the property text and is
evaluated on what the implementation did."""
import os, sys, json, tempfile, shutil, struct, time
import vlib
import frames_lib as fl

THEOREMS = ['C10_prefix', 'C10_fails_at_first_deviation', 'C10_deviating_frame_rejected', 'C10_foreign_session_frame_rejected', 'C10_oversize_length_panics', 'C10_nonces_distinct',
            'C10_no_nonce_reuse', 'C10_no_key_no_command', 'C10_reflection_only_no_command', 'C10_segmentation',
            'C14_stream', 'C10_refuted_without_bump', 'C10_code_advances_counter', 'C10_buffer_matches_code',
            'C10_premises_satisfiable',
            # one whole boss <-> remote doer session (Model/RemoteSession.v + RemoteSessionLog.v): every frame ever written, the doer's final message included
            'C10_remote_nonces_distinct', 'C10_remote_expected_nonce', 'C10_remote_log_is_conservative']

SIZES = [0, 1, 5, 16, 17, 100, 255, 256, 300, 1000, 31, 64, 4096, 2, 700, 33]
N_MSGS = 14


def history(rng, n=N_MSGS, final=False, base=0, sizes=None):
    h = []
    for i in range(n):
        size = (sizes or SIZES)[(i + base) % len(sizes or SIZES)] if rng.random() < 0.7 else rng.randrange(0, 600)
        h.append(('m', 1000 * (base + 1) + i, size, rng.randrange(256)))
    if final:
        h[-1] = ('m', fl.FINAL_ID, 3, 7)
    return h


def manip_params(rng, op, i, n, frames):
    m = {'op': op, 'i': i}
    if op in ('flip_len', 'flip_body', 'flip_tag'):
        m['bit'] = rng.randrange(0, 1 << 20)
        if op == 'flip_len' and i < 8:
            m['bit'] = 8 * i + rng.randrange(0, 8)   # every byte of the 8-byte length field is hit at least once per direction
        elif op == 'flip_len' and rng.random() < 0.5:
            m['bit'] = rng.randrange(0, 12)      # small changes of the length: the frame boundaries shift
    if op == 'truncate_close':
        m['keep'] = rng.choice([0, 1, 7, 8, 9, rng.randrange(0, 1 << 16)])
    if op in ('truncate_cont', 'shorten'):
        m['cut'] = rng.choice([0, 0, 15, 16, rng.randrange(0, 1 << 16)])
    if op == 'replay_later':
        m['gap'] = rng.randrange(0, 4)
    if op == 'swap':
        m['j'] = (i + 1 + rng.randrange(0, 3)) % n
        if m['j'] == i:
            m['j'] = (i + 1) % n
    if op in ('reflect', 'reflect_replace'):
        m['o'] = rng.choice([i, i, rng.randrange(0, n)])
    if op == 'garbage':
        k = rng.choice([1, 8, 9, 40, 200])
        b = bytes(rng.randrange(256) for _ in range(k))
        if rng.random() < 0.5 and k >= 8:       # a plausible length field in front
            b = struct.pack('<Q', rng.choice([0, 1, 16, k - 8, 28])) + b[8:]
        m['bytes'] = b.hex()
    if op == 'oversize':
        m['len'] = rng.choice([fl.BUF + 1, fl.BUF + 1, 1 << 32, 1 << 63, (1 << 64) - 1, fl.BUF + rng.randrange(1, 1 << 20)])
    return m


def cuts_for(rng, wire_len, style):
    if style == 'whole' or wire_len < 2:
        return []
    if style == 'bytes':
        return list(range(1, wire_len))
    k = rng.randrange(1, 6)
    return sorted(rng.randrange(1, wire_len) for _ in range(k))


class UnitCase:
    def __init__(self, sess_idx, d, manip, seg_style, mode='d', start=None, note=''):
        self.s, self.d, self.m, self.seg, self.mode, self.start, self.note = sess_idx, d, manip, seg_style, mode, start, note

    def describe(self, sess):
        return {'leg': 'unit', 'key': sess.key, 'hist0': sess.hist[0], 'hist1': sess.hist[1], 'start': list(sess.start),
                'dir': self.d, 'manip': self.m, 'segmentation': self.seg, 'mode': self.mode, 'recv_start': self.start}


def run_unit(run, binary, jbin, sessions, cases, bump):
    """sessions: [fl.Session]; cases: [UnitCase].  Two rounds: honest frames, then the manipulated streams."""
    rl, ml = [], []
    for s in sessions:
        for d in (0, 1):
            for key in (s.key, s.other_key()):
                a, b = s.send_lines(d, key, bump)
                rl.append(a); ml.append(b)
    rout = vlib.harness(binary, 'frames', rl)
    mout = vlib.judge(jbin, ml)
    k = 0
    forged = {}
    for si, s in enumerate(sessions):
        for d in (0, 1):
            for which in ('own', 'forged'):
                r, m = fl.kv(rout[k]), fl.kv(mout[k]); k += 1
                rf = fl.split_frames(fl.unhx(r['wire'])); mf = fl.split_frames(fl.unhx(m['wire']))
                run.count('send:' + r['end'])
                ok = r['end'] == m['end'] and (r['end'] != 'ok' or (r['ctr'] == m['ctr'] and [len(x) for x in rf] == [len(x) for x in mf]))
                run.traces_validated += 1
                if not ok:
                    run.broke('correspondence', 'frames-send', json.dumps({'session': si, 'dir': d, 'real': {x: r[x] for x in ('end', 'ctr')},
                              'real_lens': [len(x) for x in rf], 'model': {x: m[x] for x in ('end', 'ctr', 'lens')}})[:1500])
                if which == 'own':
                    s.real[d], s.model[d], s.real_end[d] = rf, mf, r['end']
                else:
                    forged[(si, d)] = (rf, mf)
    # property: no two honest frames of a session are byte-identical ciphertexts is not required; but a
    # sender whose counter does not advance is visible right here (C10 sentence 2) - decided in nonce_leg.
    rl, ml, meta = [], [], []
    for c in cases:
        s = sessions[c.s]
        d = c.d
        if not s.real[d] or not s.model[d] or len(s.real[d]) != len(s.model[d]):
            continue
        fr, fm = forged[(c.s, d)]
        if c.m['op'] in ('forge', 'forge_insert') and (len(fr) <= c.m['i'] or len(fm) <= c.m['i']):
            continue
        if c.m.get('i', 0) >= len(s.real[d]) or not s.real[1 - d]:
            continue
        wr = fl.apply_manip(c.m, s.real[d], s.real[1 - d], fr)
        wm = fl.apply_manip(c.m, s.model[d], s.model[1 - d], fm)
        if len(wr) != len(wm):
            run.broke('correspondence', 'frames-length', json.dumps(c.describe(s))[:1500]); continue
        cuts = cuts_for(run.rng, len(wr), c.seg)
        a, b = s.recv_lines(d, fl.segment(wr, cuts), fl.segment(wm, cuts), c.mode, bump, c.start)
        rl.append(a); ml.append(b); meta.append((c, wr))
    rout = vlib.harness(binary, 'frames', rl, timeout=1500)
    mout = vlib.judge(jbin, ml, timeout=1500)
    for (c, wr), rline, mline in zip(meta, rout, mout):
        s = sessions[c.s]
        r, m = fl.kv(rline), fl.kv(mline)
        ids = [] if r['ids'] == '-' else [int(x) for x in r['ids'].split(',')]
        run.count('op:' + c.m['op']); run.count('end:' + r['end']); run.count('dir:%d' % c.d); run.count('mode:' + c.mode)
        run.count('seg:' + c.seg)
        j, _ = fl.leading_honest(s.real[c.d], wr)
        nontrivial = c.m['op'] != 'none'
        run.case(('unit', s.key, repr(s.hist), c.d, repr(sorted(c.m.items())), c.seg, c.mode, c.start), nontrivial,
                 sample={'case': {'dir': c.d, 'manip': c.m, 'segmentation': c.seg, 'mode': c.mode}, 'impl': rline[:200], 'model': mline[:200]})
        run.traces_validated += 1
        bad = fl.oracle(s.hist[c.d], s.real[c.d], wr, ids, r['end']) if c.start is None else None
        same = r['n'] == m['n'] and r['ids'] == m['ids'] and r['end'] == m['end'] and (c.mode == 't' or r['ctr'] == m['ctr'])
        if bad:
            run.fail('C10 oracle: ' + bad, dict(c.describe(s), impl=rline, model=mline, leading_honest_frames=j))
        elif not same:
            run.broke('correspondence', 'frames-recv', json.dumps(dict(c.describe(s), impl=rline, model=mline))[:2500])


def unit_cases(run, tier):
    rng = run.rng
    sessions, cases = [], []
    n_hist = 1 if tier == 'quick' else 5
    for hno in range(n_hist):
        key = bytes(rng.randrange(256) for _ in range(16)).hex()
        sizes = None if hno == 0 else [rng.choice(SIZES + [rng.randrange(0, 3000)]) for _ in range(16)]
        s = fl.Session(key, history(rng, base=0, sizes=sizes, final=(hno % 2 == 1)), history(rng, base=1, sizes=sizes, final=(hno % 2 == 1)))
        sessions.append(s)
        si = len(sessions) - 1
        for d in (0, 1):
            for op in fl.OPS:
                for i in range(0, 13):
                    if op == 'none' and i > 0:
                        continue
                    m = manip_params(rng, op, i, N_MSGS, None)
                    seg = rng.choice(['whole', 'whole', 'random', 'random', 'bytes' if rng.random() < 0.15 else 'random'])
                    cases.append(UnitCase(si, d, m, seg, 'd'))
                    if tier == 'thorough' or (i % 3 == 0):
                        cases.append(UnitCase(si, d, m, rng.choice(['whole', 'random']), 't'))
    # a history with a message that does not deserialize, one with the final message in the middle
    key = bytes(rng.randrange(256) for _ in range(16)).hex()
    h0 = history(rng, 8); h0[3] = ('s', 9)
    h1 = history(rng, 8, base=1); h1[4] = ('m', fl.FINAL_ID, 0, 0)
    sessions.append(fl.Session(key, h0, h1))
    si = len(sessions) - 1
    for d in (0, 1):
        for op in ('none', 'dup', 'drop', 'garbage', 'swap'):
            for i in (0, 2, 3, 4, 5, 6):
                cases.append(UnitCase(si, d, manip_params(rng, op, i, 8, None), 'random', rng.choice(['d', 't'])))
    # counters next to the end of the u64 range (the code panics rather than wrap)
    for d in (0, 1):
        key = bytes(rng.randrange(256) for _ in range(16)).hex()
        st = [0, 1]
        st[d] = (1 << 64) - 6 + d
        sessions.append(fl.Session(key, history(rng, 2), history(rng, 2, base=1), start=tuple(st)))
        si = len(sessions) - 1
        for op in ('none', 'dup', 'drop', 'swap'):
            for i in (0, 1):
                cases.append(UnitCase(si, d, manip_params(rng, op, i, 2, None), 'whole', 'd', start=st[d], note='overflow'))
        # the sender itself: the third message cannot be sealed without wrapping the counter
        sessions.append(fl.Session(key, history(rng, 3), history(rng, 3, base=1), start=tuple(st)))
    return sessions, cases


def nonce_leg(run, binary, sessions, bump):
    """(c) on the frames the real `send` produced: recover the counter each frame was sealed with."""
    lines, meta = [], []
    for si, s in enumerate(sessions):
        if s.start != (0, 1):
            continue
        for d in (0, 1):
            for i, f in enumerate(s.real[d] or []):
                lines.append('N %s %d %s' % (s.key, 2 * len(s.real[d]) + 4, fl.hx(f[8:])))
                meta.append((si, d, i))
    out = vlib.harness(binary, 'frames', lines)
    seen = {}
    for (si, d, i), l in zip(meta, out):
        run.count('nonce-recovered')
        run.case(('nonce', sessions[si].key, d, i), True)
        got = l.split()[1]
        want = str(d + 2 * i)
        if got != want:
            other = seen.get((si, got))
            what = 'frame %d of direction %d was sealed with counter %s, the property needs %s' % (i, d, got, want)
            if other is not None:
                what += ' - the same (key, nonce) as frame %d of direction %d' % (other[1], other[0])
            s = sessions[si]
            run.fail('C10 nonce reuse: ' + what, {'leg': 'nonce', 'key': s.key, 'hist0': s.hist[0], 'hist1': s.hist[1], 'dir': d, 'index': i,
                                                  'recovered_counter': got})
            return
        seen[(si, got)] = (d, i)



def final_message_leg(run, binary):
    """The doer's last message goes through shutdown_with_final_message_sent_after_threads_joined with the
    counter the sending thread returns: it must carry the next nonce of its direction."""
    rng = run.rng
    for d in (0, 1):
        key = bytes(rng.randrange(256) for _ in range(16)).hex()
        n = rng.randrange(1, 6)
        specs = ['z:%d:%d:1' % (10 + i, rng.randrange(0, 200)) for i in range(n)] + ['z:99:7:2']
        out = vlib.harness(binary, 'frames', ['F %s %d %d %s' % (key, d, n, ' '.join(specs))])
        frames = fl.split_frames(fl.unhx(fl.kv(out[0])['wire']))
        got = [l.split()[1] for l in vlib.harness(binary, 'frames', ['N %s %d %s' % (key, 2 * n + 8, fl.hx(f[8:])) for f in frames])]
        want = [str(d + 2 * i) for i in range(n + 1)]
        run.count('final-message-session')
        run.case(('final', key, d, n), True, sample={'case': {'leg': 'final-message', 'dir': d, 'messages': n + 1}, 'impl': 'counters=' + ','.join(got)})
        run.traces_validated += 1
        if len(frames) != n + 1:
            run.broke('correspondence', 'final-message', 'expected %d frames, captured %d' % (n + 1, len(frames)))
        elif got != want:
            run.fail('C10 nonce reuse: the frames of a sending thread followed by the final message sent after the threads were joined '
                     'carry counters %r, the property needs %r' % (got, want), {'leg': 'final-message', 'key': key, 'dir': d, 'specs': specs, 'counters': got})


def big_leg(run, binary):
    """thorough: histories with the largest messages (4 MiB chunk messages, the largest the buffer takes); real code + oracle only."""
    rng = run.rng
    b = fl.BUF
    # the edges of the sender's buffer, as Model/Frame.v send_step states them (plaintext p, ciphertext p + 16):
    #   p <= b - 24 ok; b - 24 < p <= b - 8: the tag does not fit -> panic; p > b - 8: serialization error
    edges = [(b - 24, 'ok'), (b - 23, 'panic-oversize'), (b - 8, 'panic-oversize'), (b - 7, 'serialize')]
    key = bytes(rng.randrange(256) for _ in range(16)).hex()
    out = vlib.harness(binary, 'frames', ['S %s 0 0 1 z:1:%d:3' % (key, p - 12) for p, _ in edges], timeout=900)
    for (p, want), l in zip(edges, out):
        got = fl.kv(l)['end']
        run.count('send-edge:' + got); run.traces_validated += 1
        run.case(('send-edge', p), True)
        if got != want:
            run.broke('correspondence', 'send-edges', 'plaintext of %d bytes: real send ends %s, the model says %s' % (p, got, want))
    hist = [('m', 1, 4 * 1024 * 1024 + 17, 1), ('m', 2, b - 24 - 12, 2), ('m', 3, 1 << 20, 3), ('m', 4, 0, 0)]
    real = 'S %s 0 0 %d %s' % (key, len(hist), ' '.join(fl.spec_of(m) for m in hist))
    r = fl.kv(vlib.harness(binary, 'frames', [real], timeout=900)[0])
    frames = fl.split_frames(fl.unhx(r['wire']))
    other = [struct.pack('<Q', 16) + bytes(16)]
    cases = []
    for op in ('none', 'dup', 'drop', 'swap', 'flip_body', 'flip_tag', 'shorten', 'truncate_close', 'replay_later', 'oversize'):
        for i in range(0, 3):
            cases.append(manip_params(rng, op, i, len(hist), None))
    lines, wires = [], []
    for m in cases:
        w = fl.apply_manip(m, frames, other, frames)
        segs = fl.segment(w, cuts_for(rng, len(w), 'random'))
        lines.append('R d %s 0 0 %d %s' % (key, len(segs), ' '.join(fl.hx(x) for x in segs)))
        wires.append(w)
    out = vlib.harness(binary, 'frames', lines, timeout=1500)
    for m, w, l in zip(cases, wires, out):
        r = fl.kv(l)
        ids = [] if r['ids'] == '-' else [int(x) for x in r['ids'].split(',')]
        run.count('big:' + m['op']); run.traces_validated += 1
        run.case(('big', repr(sorted(m.items()))), m['op'] != 'none')
        bad = fl.oracle(hist, frames, w, ids, r['end'])
        j, _ = fl.leading_honest(frames, w)
        if bad:
            run.fail('C10 oracle (large messages): ' + bad, {'leg': 'big', 'manip': m, 'impl': l[:300]})
        elif len(ids) != j:
            run.broke('correspondence', 'big-delivery', 'delivered %d, %d leading honest frames (%r)' % (len(ids), j, m))


def read_bump(facts_lines):
    for l in facts_lines:
        if l.startswith('b_frames_counter_advances'):
            return int(l.split()[1])
    raise vlib.BrokenTie('facts-frames did not report b_frames_counter_advances')


def setup(run):
    run.trusted = list(vlib.COMMON_TRUSTED) + [
        'modelled, not verified: AES-128-GCM (aes-gcm 0.10) as an ideal AEAD (premises H1/H2 of the theorems), OsRng key generation, '
        'secrecy of the key on its way through ssh stdin, TCP in-order delivery, bincode (payloads are abstract byte strings here; C14 owns the codec)',
        'tools/mitm_proxy.py, the fake ssh and the python manipulation scripts (a bug there can hide a disagreement, not make a false theorem check)']
    run.assumptions = ['H1: what an honest end sealed under the session key opens to the same plaintext under the same nonce',
                       'H2 (ideal authenticity): a ciphertext that opens under the session key and nonce n was sealed by an honest end with nonce n',
                       'the session key is known to the boss and its doer only and used for this one link only (generated per doer launch, sent over ssh stdin); '
                       'the tie checks the second half on both-remote runs (cross-link leg, key comparison)']
    run.extra['rule'] = ('unit: every (manipulation in %d kinds, frame index 0..12, direction) on a 14-message history per direction (x5 histories in thorough), '
                         'random TCP segmentation incl. byte-by-byte, through the real receive loop and through the real receiving thread; '
                         'a case is non-trivial when the stream was manipulated; e2e: one manipulation of one frame of a real remote sync per run; '
                         'cross-link: both doers remote, frame i of direction d of one link delivered in place of frame i of direction d of the other link '
                         '(either session, both directions, i = 0..3, thorough 0..7), keys of the two links compared and cross trial decryption; '
                         'distinct by (key, history, direction, manipulation, segmentation, mode)' % (len(fl.OPS) - 1))
    binary = vlib.build_impl()
    vlib.regen_facts(binary)
    try:
        bump = read_bump(vlib.harness(binary, 'facts-frames'))
    except vlib.BrokenTie as e:
        # the probes of the frame layer no longer behave as the model's constants say: a broken tie - and the legs below still run, so that a
        # frame the property forbids is reported with the concrete manipulation that got through
        run.broke('correspondence', 'facts-frames', str(e))
        bump = 1
    run.extra['code_advances_counter'] = bool(bump)
    ok = run.check_proofs('C10', THEOREMS, extra_targets=['theories/Extract/Ex_frames.vo'])
    if not ok:
        vlib.build_coq(['theories/Extract/Ex_frames.vo'])      # the model still runs when a proof broke
    jbin = vlib.build_judge('frames')
    return binary, jbin, bump


def check(run):
    binary, jbin, bump = setup(run)
    sessions, cases = unit_cases(run, run.tier)
    # corpus first
    cdir = os.path.join(vlib.VERIF, 'corpus', 'C10')
    for f in sorted(os.listdir(cdir)) if os.path.isdir(cdir) else []:
        c = json.load(open(os.path.join(cdir, f)))
        if c.get('leg') == 'unit':
            sessions.append(fl.Session(c['key'], [tuple(x) for x in c['hist0']], [tuple(x) for x in c['hist1']], tuple(c.get('start', (0, 1)))))
            cases.insert(0, UnitCase(len(sessions) - 1, c['dir'], c['manip'], c.get('segmentation', 'whole'), c.get('mode', 'd'), c.get('recv_start')))
            run.count('corpus')
    run_unit(run, binary, jbin, sessions, cases, bump)
    nonce_leg(run, binary, sessions, bump)
    final_message_leg(run, binary)
    if run.tier == 'thorough':
        big_leg(run, binary)
    import frames_e2e
    frames_e2e.run_e2e(run, binary, run.tier)
    return run.finish(search=None)     # every case evaluates the property oracle on the implementation


def replay(run, path):
    r = json.load(open(path))
    print(json.dumps(r, indent=1)[:3000])
    binary, jbin, bump = setup(run)
    if r.get('leg') == 'unit':
        s = fl.Session(r['key'], [tuple(x) for x in r['hist0']], [tuple(x) for x in r['hist1']], tuple(r.get('start', (0, 1))))
        run_unit(run, binary, jbin, [s], [UnitCase(0, r['dir'], r['manip'], r.get('segmentation', 'whole'), r.get('mode', 'd'), r.get('recv_start'))], bump)
    elif r.get('leg') == 'final-message':
        final_message_leg(run, binary)
    elif r.get('leg') == 'big':
        big_leg(run, binary)
    elif r.get('leg') == 'nonce':
        s = fl.Session(r['key'], [tuple(x) for x in r['hist0']], [tuple(x) for x in r['hist1']])
        run_unit(run, binary, jbin, [s], [], bump)
        nonce_leg(run, binary, [s], bump)
    else:
        import frames_e2e
        frames_e2e.replay_e2e(run, binary, r)
    return run.finish(search=None)
