"""C11 - File contents are transferred exactly, whatever the length.

Proof: Props/C11.v over Model/Chunk.v (chunk reader for every content and every short-read schedule,
chunk writer for every previous destination, relay for every listed size and chunk sequence, frame
buffer fit against Gen/Facts_chunks.v).
Tie:  (a) unit chunks  - the REAL handle_get_file_contents on real files of the boundary lengths against the
          extracted reader (full-read schedule), chunk by chunk (size, flag, crc32);
      (b) scripted relay - the REAL sync() between a scripted source doer (listed size + any chunk sequence:
          the deterministic concurrent writer) and the REAL destination doer, against relay + writer of the model;
      (c) e2e - the real CLI (local and both-remote through the fake ssh, i.e. through the real encrypted
          frames) over previous destinations that are absent / shorter / longer / same length.
Contents: seeded random bytes AND the zero-byte families of chunks_lib.zero_layouts (all-zero, random prefix +
zero tail, zero prefix + random tail, zero run in the middle, cut at / one off the chunk boundaries; sparse
multi-MiB files) in every leg - "all byte contents" of the property includes whole chunks of zeros.
The property oracle is evaluated in python on what the implementation did (chunks_lib.chunks_oracle,
relay_oracle, byte comparison of the trees)."""
import os, sys, json, glob, tempfile, shutil, hashlib
import vlib, e2e
import chunks_lib as cl

THEOREMS = ['C11_chunks', 'C11_one_chunk', 'C11_write', 'C11_write_prefix_unstamped', 'C11_relay_ok', 'C11_relay_detects',
            'C11_relay_ok_only_if', 'C11_end_to_end', 'C11_size_change_detected', 'C11_relay_unfixed_refuted',
            'C11_constants_match_code', 'C11_ladder_matches_code', 'C11_fits']

CORPUS = os.path.join(vlib.VERIF, 'corpus', 'C11')


# ------------------------------------------------------------------------------------------------
# (a) unit chunks
def run_chunk_cases(run, binary, jbin, tmp, items, label):
    """items: [(length, bytes)] - writes the files, asks the implementation and the model, compares, runs the oracle."""
    paths = []
    for i, (n, data) in enumerate(items):
        p = os.path.join(tmp, '%s_%d_%d' % (label, i, n))
        with open(p, 'wb') as f:
            f.write(data)
        paths.append(p)
    lines = ['G ' + cl.hexs(p) for p in paths]
    impl = vlib.harness(binary, 'chunks', lines, timeout=1500)
    model = cl.run_judge_parallel(jbin, lines, weights=[n for n, _ in items])
    for (n, data), il, ml, p in zip(items, impl, model, paths):
        run.count('chunks:' + label)
        run.count('chunks:nchunks=%d' % (len(il.split()) - 2))
        h = hashlib.sha1(data).hexdigest()[:12]
        run.case(('chunks', n, h), True, sample={'driver': 'unit-chunks', 'length': n, 'impl': il[:200], 'model': ml[:200]})
        run.traces_validated += 1
        bad = cl.chunks_oracle(data, il)
        rep = {'driver': 'unit-chunks', 'length': n, 'content_sha1': h, 'impl': il[:2000], 'model': ml[:2000]}
        if bad:
            run.fail('C11 chunk reader: file of %d bytes: %s' % (n, bad), rep)
        elif il != ml:
            run.broke('correspondence', 'unit-chunks', json.dumps(rep)[:1500])
        os.unlink(p)


def chunk_items(run, tier, lengths):
    rng = run.rng
    blob = rng.randbytes(max(lengths) if lengths else 0)
    return [(n, blob[:n]) for n in lengths]


def zero_chunk_items(run, tier):
    """The reader on contents with zero runs (whole chunks of zeros, zero tails, sparse files)."""
    rng = run.rng
    items = []
    for n in [1, 4095, 4096, 4097, 8192, 12288, 12289, 28672, 61440, 70000]:
        lay = cl.zero_layouts(n)
        pick = lay[:1] + [l for l in lay[1:] if l[0].startswith('zero-tail@%d' % cl.expected_full_read_sizes(n)[0]) or l[0].startswith('zero-middle')][:2]
        if tier == 'thorough':
            pick = lay
        for _, zr in pick:
            items.append((n, cl.content_bytes(rng.randrange(1, 250), 0, n, zr)))
    if tier == 'thorough':
        for n in [1048576 + 1, 4190208, 5 * 1024 * 1024]:
            items.append((n, bytes(n)))
            items.append((n, cl.content_bytes(rng.randrange(1, 250), 0, n, [(10000, n)])))
    return items


# (a') short reads: the REAL reader on a FIFO that a writer feeds piecewise (an appender between two reads)
def fifo_write_lists(run, tier):
    rng = run.rng
    fixed = [[100, 100], [100, 32], [100, 31], [100, 33, 5], [4096, 100], [4095, 1, 4096], [4096, 4096, 4096], [1] * 10, [32] * 5,
             [5], [4096], [4095], [31, 1, 32, 4096, 4096, 4096, 4096, 7], [100, 4096, 4096, 4096, 4096, 4096, 4096]]
    n = 25 if tier == 'quick' else 300
    for _ in range(n):
        fixed.append([rng.choice([1, 2, 31, 32, 33, 64, 100, 1000, 4095, 4096]) for _ in range(rng.randint(1, 9))])
    return fixed


def run_fifo_cases(run, binary, jbin, tmp, write_lists):
    """Each write (<= 4096 bytes, atomic on a pipe) is made only after the previous one was consumed
    (FIONREAD == 0), so every read(2) of the real code returns min(buffer size, what is left of the
    current write): a deterministic short-read schedule.  The schedule handed to the model is derived
    from the writes and the progress the implementation made; the model must then produce the same chunks."""
    import subprocess, fcntl, termios, struct, time, errno, select
    pending = []
    early_stops = 0
    for i, writes in enumerate(write_lists):
        if early_stops >= 2:
            break
        fifo = os.path.join(tmp, 'fifo_%d' % i)
        os.mkfifo(fifo)
        data = run.rng.randbytes(sum(writes))
        p = subprocess.Popen([binary, '--verif-harness', 'chunks'], stdin=subprocess.PIPE, stdout=subprocess.PIPE,
                             stderr=subprocess.DEVNULL, text=True)
        conclusive, line, early = True, '', None
        try:
            p.stdin.write('G %s\n' % cl.hexs(fifo)); p.stdin.flush()
            fd, t0 = None, time.time()
            while fd is None and time.time() - t0 < 20:
                try:
                    fd = os.open(fifo, os.O_WRONLY | os.O_NONBLOCK)
                except OSError as e:
                    if e.errno != errno.ENXIO:
                        raise
                    time.sleep(0.002)
            if fd is None:
                conclusive = False
            else:
                fcntl.fcntl(fd, fcntl.F_SETFL, fcntl.fcntl(fd, fcntl.F_GETFL) & ~os.O_NONBLOCK)
                off = 0
                for w in writes:
                    os.write(fd, data[off:off + w]); off += w
                    t0 = time.time()
                    while struct.unpack('i', fcntl.ioctl(fd, termios.FIONREAD, b'\0\0\0\0'))[0] != 0:
                        if time.time() - t0 > 20:
                            conclusive = False
                            break
                        if select.select([p.stdout], [], [], 0)[0]:
                            # the reader has answered although bytes written to the pipe are still unread: it stopped before the end of the stream
                            early = p.stdout.readline().strip()
                            conclusive = False
                            break
                        time.sleep(0.0005)
                    if not conclusive:
                        break
                os.close(fd)
                if conclusive:
                    line = p.stdout.readline().strip()
        finally:
            try:
                p.stdin.close()
            except OSError:
                pass
            if not conclusive:
                p.kill()
            p.wait()
            os.unlink(fifo)
        if early is not None:
            early_stops += 1
            run.count('fifo:reader-stopped-early')
            run.fail('C11 chunk reader: the reader reported the end of the content while %d of %d bytes written to the stream were still unread (writes %r): %s' % (
                sum(writes) - sum(n for n, _, _ in (cl.parse_chunks(early) or [])), sum(writes), writes, early[:200]),
                {'driver': 'unit-chunks-fifo', 'writes': writes, 'impl': early[:2000]})
            continue
        if not conclusive or not line:
            run.count('fifo:inconclusive')
            continue
        # schedule: before each read, what was left of the current write
        cs = cl.parse_chunks(line) or []
        sched, idx, avail, consistent = [], 0, writes[0], True
        for n, _, _ in cs:
            if n == 0:
                continue
            if idx >= len(writes) or n > avail:
                consistent = False
                break
            sched.append(avail)
            avail -= n
            if avail == 0:
                idx += 1
                avail = writes[idx] if idx < len(writes) else 0
        reg = os.path.join(tmp, 'fifo_data_%d' % i)
        with open(reg, 'wb') as f:
            f.write(data)
        pending.append((writes, data, line, sched, consistent, reg))
    model = cl.run_judge_parallel(jbin, ['G %s %s' % (cl.hexs(reg), ','.join(map(str, sched)) or '-') for _, _, _, sched, _, reg in pending])
    for (writes, data, il, sched, consistent, reg), ml in zip(pending, model):
        run.count('fifo:short-read-schedules')
        run.case(('fifo', tuple(writes)), True, sample={'driver': 'unit-chunks-fifo', 'writes': writes, 'impl': il[:200], 'model': ml[:200]})
        run.traces_validated += 1
        bad = cl.chunks_oracle(data, il)
        rep = {'driver': 'unit-chunks-fifo', 'writes': writes, 'schedule': sched, 'impl': il[:2000], 'model': ml[:2000]}
        if bad:
            run.fail('C11 chunk reader with short reads (writes %r): %s' % (writes, bad), rep)
        elif not consistent or il != ml:
            run.broke('correspondence', 'unit-chunks-fifo', json.dumps(rep)[:1500])
        os.unlink(reg)


# ------------------------------------------------------------------------------------------------
# (b) scripted relay
def gen_relay_cases(run, tier, extended=False):
    rng = run.rng
    sizes = [0, 1, 100, 4095, 4096, 4097, 12287, 12288, 12289, 28672, 30000, 70000]
    if tier == 'thorough' or extended:
        sizes += [28671, 28673, 61440, 61441, 126976, 1048576 + 5, 4190208, 4190209, 4194304, 4194305, 8384512, 8384513]
    cases = []
    prevs = lambda a: [None, a // 2, a + 1000, a]
    k = 0
    for a in sizes:
        chunks = cl.full_read_chunks(a)
        sums, s = [0], 0
        for sz, _ in chunks:
            s += sz; sums.append(s)
        listed_opts = set(sums) | {x + d for x in sums for d in (-1, 1)} | {a + 4096, a + 1, a - 1, 0, 2 * a}
        for listed in sorted(x for x in listed_opts if x >= 0):
            kind = 'equal' if listed == a else ('grown-at-boundary' if listed < a and listed in sums else ('grown' if listed < a else 'shrunk'))
            pv = prevs(a)[k % 4]; k += 1
            cases.append(cl.RelayCase(listed, chunks, prev=pv, seed=rng.randrange(1, 250), kind=kind, prev_newer=(k % 3 == 0)))
        # every previous destination for the unchanged file
        for pv in prevs(a):
            cases.append(cl.RelayCase(a, chunks, prev=pv, seed=rng.randrange(1, 250), kind='equal', prev_newer=bool(pv and pv % 2)))
    # short-read style chunkings (any partition of the file into non-empty chunks)
    n_rand = 40 if tier == 'quick' and not extended else 400
    for _ in range(n_rand):
        total = rng.choice([1, 2, 33, 100, 5000, 9000])
        parts, left = [], total
        while left > 0:
            t = rng.randint(1, max(1, min(left, rng.choice([1, 32, 100, 4096]))))
            parts.append(t); left -= t
        chunks = [(t, i < len(parts) - 1) for i, t in enumerate(parts)]
        sums, s = [0], 0
        for t in parts:
            s += t; sums.append(s)
        listed = rng.choice([total, total, rng.choice(sums), rng.choice(sums) + 1, total + rng.randint(1, 50), rng.randint(0, total)])
        kind = 'partition-equal' if listed == total else ('partition-grown-at-boundary' if listed in sums and listed < total else
                                                          ('partition-grown' if listed < total else 'partition-shrunk'))
        cases.append(cl.RelayCase(listed, chunks, prev=rng.choice([None, 10, total, total + 77]), seed=rng.randrange(1, 250), kind=kind))
    # a source that hangs up before the final chunk, and one that keeps talking after it
    for listed, chunks in [(100, [(50, 1)]), (50, [(50, 1)]), (10, [(50, 1)]), (0, []), (8192, [(4096, 1), (4096, 1)]), (4096, [(4096, 1)])]:
        cases.append(cl.RelayCase(listed, chunks, end='X', seed=rng.randrange(1, 250), kind='source-hangs-up'))
    for listed, chunks in [(10, [(10, 0), (10, 0)]), (20, [(10, 0), (10, 0)]), (0, [(0, 0), (5, 0)])]:
        cases.append(cl.RelayCase(listed, chunks, seed=rng.randrange(1, 250), kind='extra-chunks-after-final'))
    return cases


def gen_zero_relay_cases(run, tier, extended=False):
    """The file did not change (listed = actual size) but its bytes contain runs of zeros: every layout of
    chunks_lib.zero_layouts for the sizes around the ladder sums, over every kind of previous destination;
    zero contents in short-read style partitions (a last chunk of exactly / just under / just over 4096 zeros)."""
    rng = run.rng
    cases, k = [], 0
    prevs = lambda a: [None, a // 2, a + 1000, a]
    sizes = [1, 100, 4095, 4096, 4097, 8192, 9096, 12287, 12288, 12289, 28672, 30000]
    for a in sizes:
        chunks = cl.full_read_chunks(a)
        for fam, zr in cl.zero_layouts(a):
            pv = prevs(a)[k % 4]; k += 1
            cases.append(cl.RelayCase(a, chunks, prev=pv, seed=rng.randrange(1, 250), kind='zeros:' + fam.split('@')[0],
                                      prev_newer=(k % 3 == 0), zeros=zr))
        for pv in prevs(a):      # the all-zero file over every previous destination
            cases.append(cl.RelayCase(a, chunks, prev=pv, seed=rng.randrange(1, 250), kind='zeros:all-zero', zeros=[(0, a)],
                                      prev_newer=bool(pv and pv % 2)))
    big = [70000, 1048576 + 1]
    if tier == 'thorough' or extended:
        big += [4190208, 5 * 1024 * 1024, 8384512 + 4096]
    for a in big:
        chunks = cl.full_read_chunks(a)
        sums, s_ = [], 0
        for sz, _ in chunks:
            s_ += sz; sums.append(s_)
        lays = [('all-zero', [(0, a)]), ('zero-tail', [(10000, a)]), ('zero-tail', [(sums[-2], a)]), ('zero-tail', [(sums[-2] + 1, a)]),
                ('zero-head', [(0, sums[-2])]), ('zero-middle', [(sums[0], sums[-2])])]
        for fam, zr in lays:
            pv = prevs(a)[k % 4]; k += 1
            cases.append(cl.RelayCase(a, chunks, prev=pv, seed=rng.randrange(1, 250), kind='zeros-big:' + fam, zeros=zr))
    # partitions (short-read style chunk sequences) whose chunks are zeros
    fixed = [[4096, 4096], [100, 4096], [4096, 100], [4095, 4096], [4096, 4097], [1, 4096, 1], [4096, 8192, 4096], [5000], [4096], [4095],
             [32, 4096, 32, 4096]]
    for parts in fixed:
        total = sum(parts)
        chunks = [(t, i < len(parts) - 1) for i, t in enumerate(parts)]
        sums, s_ = [0], 0
        for t in parts:
            s_ += t; sums.append(s_)
        for zr in [[(0, total)], [(sums[-2], total)], [(0, sums[1])]] + ([[(sums[1], sums[-2])]] if len(parts) >= 3 else []):
            pv = [None, 10, total, total + 77][k % 4]; k += 1
            cases.append(cl.RelayCase(total, chunks, prev=pv, seed=rng.randrange(1, 250), kind='zeros:partition', zeros=zr))
    n_rand = 30 if tier == 'quick' and not extended else 300
    for _ in range(n_rand):
        parts = [rng.choice([1, 32, 100, 4095, 4096, 4097, 8192]) for _ in range(rng.randint(1, 5))]
        total = sum(parts)
        chunks = [(t, i < len(parts) - 1) for i, t in enumerate(parts)]
        sums, s_ = [0], 0
        for t in parts:
            s_ += t; sums.append(s_)
        a_, b_ = sorted(rng.sample(sums, 2)) if len(sums) > 2 and rng.random() < 0.7 else (rng.choice(sums[:-1]), total)
        a_ = max(0, a_ + rng.choice([0, 0, 0, 1, -1]))
        cases.append(cl.RelayCase(total, chunks, prev=rng.choice([None, 10, total, total + 77]), seed=rng.randrange(1, 250),
                                  kind='zeros:partition-random', zeros=[(a_, b_)]))
    return cases


def run_relay_cases(run, binary, jbin, tmp, cases, label='relay'):
    dests = []
    for i, c in enumerate(cases):
        d = os.path.join(tmp, '%s_dest_%d' % (label, i))
        c.prepare(d)
        dests.append(d)
    impl = vlib.harness(binary, 'chunks', [c.harness_line(d) for c, d in zip(cases, dests)], timeout=1500)
    model = cl.run_judge_parallel(jbin, [c.judge_line() for c in cases], weights=[sum(s for s, _ in c.chunks) for c in cases])
    for c, il, ml, d in zip(cases, impl, model, dests):
        run.count('relay:' + c.kind)
        run.count('relay:impl=' + il.split()[0].split(':other')[0])
        run.case(('relay',) + c.canonical(), True, sample={'case': c.to_json(), 'impl': il, 'model': ml})
        run.traces_validated += 1
        bad = cl.relay_oracle(c, il)
        rep = dict(c.to_json(), impl=il, model=ml)
        if bad:
            run.fail('C11 relay: listed %d bytes, chunks %s%s: %s' % (c.listed, c.spec()[:80], (', zero bytes at %r' % c.zeros) if c.zeros else '', bad), rep)
        elif il != ml:
            run.broke('correspondence', 'scripted-relay', json.dumps(rep)[:1500])
        try:
            os.unlink(d)
        except OSError:
            pass


def corpus_cases():
    out = []
    for f in sorted(glob.glob(os.path.join(CORPUS, '*.json'))):
        j = json.load(open(f))
        if j.get('driver') == 'scripted-relay':
            c = cl.RelayCase.from_json(j)
            c.kind = 'corpus:' + os.path.basename(f)[:-5]
            out.append(c)
    return out


# ------------------------------------------------------------------------------------------------
# (c) end to end with the real CLI
def e2e_zero_items(run, tier, placement):
    """Files whose bytes contain runs of zeros, as (length, family, bytes): all-zero files of the lengths around the
    ladder sums, random prefix + zero tail, zero prefix + random tail, a zero run in the middle, a zero-extended
    (sparse-looking) file of 1 MiB + 1; thorough: every layout of the small sizes and a 5 MiB all-zero file."""
    rng = run.rng
    out = []
    for n in [1, 100, 4095, 4096, 4097, 8192, 12288, 12289, 28672, 65537]:
        out.append((n, 'all-zero', bytes(n)))
    for n in [4097, 8192, 9096, 12288, 12289, 28672, 30000]:
        lay = cl.zero_layouts(n)[1:]
        if tier == 'quick':
            first = cl.expected_full_read_sizes(n)[0]
            keep = ('zero-tail@%d' % first, 'zero-head@%d' % first, 'zero-tail@%d' % (first + 1), 'zero-middle')
            lay = [l for l in lay if l[0].startswith(keep)] + [l for l in lay if l[0].startswith('zero-tail')][-3:-1]
        for fam, zr in lay:
            out.append((n, fam, cl.content_bytes(rng.randrange(1, 250), 0, n, zr)))
    n = 1048576 + 1
    out.append((n, 'zero-extended', cl.content_bytes(rng.randrange(1, 250), 0, n, [(10000, n)])))
    if tier == 'thorough' or placement == 'LL':
        out.append((5 * 1024 * 1024, 'sparse-all-zero', bytes(5 * 1024 * 1024)))
    if tier == 'thorough':
        n = 8384512 + 4096
        out.append((n, 'zero-tail-big', cl.content_bytes(rng.randrange(1, 250), 0, n, [(4190208, n)])))
        out.append((n, 'zero-middle-big', cl.content_bytes(rng.randrange(1, 250), 0, n, [(4096, 8384512)])))
    return out


def e2e_cases(run, binary, tmp, tier, placements=None, tag='', zero_families=True):
    rng = run.rng
    lens = [0, 1, 31, 32, 33, 4095, 4096, 4097, 8192, 12287, 12288, 12289, 28672, 28673, 65537, 1048576 + 3]
    big = [4190208, 4194304 + 1, 5 * 1024 * 1024 + 7] if tier == 'quick' else [4190208, 4190209, 4194304, 4194304 + 1, 8384512, 8384513, 9 * 1024 * 1024 + 11]
    if placements is None:
        placements = [('LL', lens + big[:1]), ('RR', lens[:10] + big)]
        if tier == 'thorough':
            placements += [('LR', lens + big[:2]), ('RL', lens + big[:2])]
    fake = e2e.fake_ssh_dir(tmp)
    for pi, (placement, ls) in enumerate(placements):
        base = os.path.join(tmp, 'e2e_%s%s' % (tag, placement))
        os.makedirs(base)
        src_tree, dest_tree = {'': {'k': 'dir'}}, {'': {'k': 'dir'}}
        t0 = 1_500_000_000_000_000_000
        # (length, family, bytes): random contents of every length, then the zero-byte families
        items = [(n, 'random', rng.randbytes(n)) for n in ls]
        if zero_families:
            items += e2e_zero_items(run, tier, placement)
        for i, (n, fam, data) in enumerate(items):
            name = 'f%02d_%d_%s' % (i, n, fam.replace('@', '_at_'))
            src_tree[name] = {'k': 'file', 'data': data, 'mtime_ns': t0 + i * 1_000_000_007}
            var = i % 4           # previous destination: absent / shorter / longer / same length, other content
            if var == 1:
                dest_tree[name] = {'k': 'file', 'data': rng.randbytes(n // 2), 'mtime_ns': t0 - 10 ** 9}
            elif var == 2:
                dest_tree[name] = {'k': 'file', 'data': rng.randbytes(n + 1 + rng.randrange(5000)), 'mtime_ns': t0 + 10 ** 12}   # newer
            elif var == 3:
                dest_tree[name] = {'k': 'file', 'data': rng.randbytes(n), 'mtime_ns': t0 - 5 * 10 ** 9}
        e2e.build_tree(os.path.join(base, 'src'), src_tree)
        e2e.build_tree(os.path.join(base, 'dest'), dest_tree)
        s_arg = os.path.join(base, 'src') + '/'
        d_arg = os.path.join(base, 'dest') + '/'
        if placement[0] == 'R':
            s_arg = 'localhost:' + s_arg
        if placement[1] == 'R':
            d_arg = 'localhost:' + d_arg
        r = e2e.run_cli(binary, [s_arg, d_arg, '--dest-file-newer', 'overwrite', '--deploy', 'ok'], timeout=300,
                        fake_ssh=fake if 'R' in placement else None)
        want = e2e.tree_to_snapshot(src_tree)
        got = e2e.snapshot(os.path.join(base, 'dest'))
        srcnow = e2e.snapshot(os.path.join(base, 'src'))
        run.count('e2e:' + placement)
        run.count('e2e:files', len(items))
        for _, fam, _ in items:
            run.count('e2e:content=' + fam.split('@')[0])
        run.case(('e2e', placement, tuple((n, fam) for n, fam, _ in items)), True,
                 sample={'driver': 'e2e', 'placement': placement, 'lengths': ls, 'zero_families': sorted(set(f for _, f, _ in items if f != 'random'))[:12], 'exit': r['exit']})
        run.traces_validated += 1
        rep = {'driver': 'e2e', 'placement': placement, 'lengths': ls, 'files': [[n, fam] for n, fam, _ in items], 'exit': r['exit'],
               'stderr': r['stderr'][-1500:], 'stdout': r['stdout'][-800:]}
        if r['timed_out'] or r['exit'] != 0:
            # nobody touched the source, so a failure to copy is a failure to transfer the contents
            run.fail('C11 e2e %s: sync of an unchanging tree did not succeed (exit %s, timed out %s)' % (placement, r['exit'], r['timed_out']), rep)
        else:
            diffs = [k for k in want if got.get(k) != want[k]] + [k for k in got if k not in want]
            if diffs or srcnow != want:
                k = diffs[0] if diffs else '(source changed)'
                rep['diff'] = {'path': k, 'want': list(want.get(k, ())), 'got': list(got.get(k, ()))}
                run.fail('C11 e2e %s: exit 0 but destination file %s differs from the source (%r vs %r)' % (placement, k, got.get(k), want.get(k)), rep)
        shutil.rmtree(base, ignore_errors=True)


# ------------------------------------------------------------------------------------------------
def e2e_understated_sizes(run, binary, tmp):
    """Sources whose listed size understates (or says nothing about) their content: procfs files are listed with size 0 and have
    content.  The length seen when the trees were compared differs from the length at copy time: the run must fail - or, if it
    reports success, the destination must hold exactly the content."""
    for i, src in enumerate(['/proc/version', '/proc/cpuinfo', '/proc/self/limits', '/proc/filesystems']):
        if not os.path.isfile(src):
            continue
        try:
            content = open(src, 'rb').read()
        except OSError:
            continue
        if not content or os.stat(src).st_size == len(content):
            continue
        d = os.path.join(tmp, 'under%d' % i)
        os.makedirs(d)
        r = e2e.run_cli(binary, [src, os.path.join(d, 'out')], timeout=60)
        run.count('e2e-understated-size:exit:%s' % r['exit'])
        run.case(('e2e-understated', src), True, sample={'source': src, 'listed_size': os.stat(src).st_size, 'content_bytes': len(content), 'exit': r['exit']})
        run.traces_validated += 1
        got = open(os.path.join(d, 'out'), 'rb').read() if os.path.isfile(os.path.join(d, 'out')) else None
        if r['exit'] == 0 and src != '/proc/self/limits' and got != content:
            run.fail('C11: %s is listed with %d bytes and has %d; the run reported success with a destination of %s bytes' % (
                src, os.stat(src).st_size, len(content), 'no' if got is None else len(got)), {'driver': 'e2e-understated', 'source': src, 'exit': r['exit']})
        elif r['exit'] == 0 and got is not None and len(got) == 0:
            run.fail('C11: %s has content but the run reported success with an empty destination' % src, {'driver': 'e2e-understated', 'source': src, 'exit': r['exit']})
        shutil.rmtree(d, ignore_errors=True)


def setup(run):
    run.trusted = list(vlib.COMMON_TRUSTED) + [
        'modelled, not verified: read(2) (returns 0 only at end of file, otherwise 1..buffer-size bytes; which one is the schedule), '
        'File::create truncates, write_all on the kept handle appends, set_file_mtime; bincode sizes (taken from the running code); '
        'the short-read branch of the reader (32-byte buffer) is proved for every schedule but exercised on the real code only by the end-of-file short read',
        'the u64 addition chunk_offset + chunk_size in copy_file is modelled over unbounded N (cannot overflow for data that fits in memory)']
    run.assumptions = ['one destination path per transfer (the "Unexpected continued file transfer" branch of the doer is outside C11)',
                       'I/O errors while reading or writing are outside C11 (C07/C08)']
    run.extra['rule'] = ('unit chunks: every ladder partial sum +-2, 2^k +-2 (k=12..22) and small lengths, random contents (thorough: every length 0..70000 '
                         'and random lengths up to 9 MiB); scripted relay: for each actual size from the boundary set every listed size in '
                         '{chunk prefix sums, +-1, actual+-1, +4096, 0, 2x} x previous destination {absent, shorter, longer, equal}, random partitions, '
                         'hang-ups; e2e: real CLI local and through the fake ssh with previous destinations absent/shorter/longer/equal. '
                         'Contents: seeded random bytes, and in every leg files with runs of zero bytes (all-zero, random prefix + zero tail, zero prefix + '
                         'random tail, zero run in the middle; cuts at and one off every chunk boundary and inside the last chunk; zero-extended 1 MiB + 1, '
                         'sparse 5 MiB) for the sizes around the ladder sums, relayed over every kind of previous destination, also as short-read style partitions. '
                         'Every case is non-trivial (a file is read or relayed); distinct by (length, content hash) / (listed, chunks, previous) / (placement, lengths)')
    binary = vlib.build_impl()
    vlib.regen_facts(binary)
    run.check_proofs('C11', THEOREMS, extra_targets=['theories/Extract/Ex_chunks.vo'])
    jbin = vlib.build_judge('chunks')
    return binary, jbin


def e2e_terminal(run, binary, tmp, tier):
    """The real CLI on a pseudo terminal: the detailed progress bar is drawn, so the boss sends progress markers BETWEEN the
    chunks of a large file.  Lengths of several MiB (fresh destination, and one holding older longer files): exit 0 means
    identical bytes and times."""
    import crash_lib as cl
    rng = run.rng
    lens = [3 * 1024 * 1024, 4 * 1024 * 1024 + 1, 9 * 1024 * 1024 + 12345] if tier == 'quick' else \
           [1024 * 1024 + 1, 3 * 1024 * 1024, 4 * 1024 * 1024, 4 * 1024 * 1024 + 1, 9 * 1024 * 1024 + 12345, 20 * 1024 * 1024 + 7, 33 * 1024 * 1024]
    for variant in ('fresh', 'longer-old'):
        base = os.path.join(tmp, 'tty_' + variant)
        shutil.rmtree(base, ignore_errors=True)
        os.makedirs(base)
        src = {'': {'k': 'dir'}}
        dest = {'': {'k': 'dir'}}
        for i, n in enumerate(lens):
            src['t%d.bin' % i] = {'k': 'file', 'len': n, 'fill': 17 + i, 'mtime_ns': 1_600_000_000_000_000_000 + i}
            if variant == 'longer-old':
                dest['t%d.bin' % i] = {'k': 'file', 'len': n + rng.choice([1, 4096, 1024 * 1024]), 'fill': 99 + i, 'mtime_ns': 1_500_000_000_000_000_000}
        e2e.build_tree(os.path.join(base, 'src'), src)
        e2e.build_tree(os.path.join(base, 'dest'), dest)
        env = dict(os.environ)
        env.pop('RUST_LOG', None)
        env['TERM'] = 'xterm'
        rc, out, _, to = cl._run_pty([binary, os.path.join(base, 'src'), os.path.join(base, 'dest'), '--dest-file-newer', 'overwrite', '--dest-file-older', 'overwrite'],
                                     env, base, 300)
        want = e2e.snapshot(os.path.join(base, 'src'))
        got = e2e.snapshot(os.path.join(base, 'dest'))
        run.count('e2e-terminal:' + variant)
        run.case(('e2e-terminal', variant, tuple(lens)), True, sample={'driver': 'e2e-terminal', 'variant': variant, 'lengths': lens, 'exit': rc})
        run.traces_validated += 1
        rep = {'driver': 'e2e-terminal', 'variant': variant, 'lengths': lens, 'exit': rc, 'tail': out[-400:].decode('latin1')}
        if to or rc != 0:
            run.fail('C11 e2e on a terminal (%s): sync of an unchanging tree did not succeed (exit %s, timed out %s)' % (variant, rc, to), rep)
        else:
            for k in sorted(want):
                if want[k] != got.get(k):
                    run.fail('C11 e2e on a terminal (%s): exit 0 but destination file %s differs from the source (%r vs %r)' % (variant, k, got.get(k), want[k]), rep)
                    break
        shutil.rmtree(base, ignore_errors=True)


def check(run):
    binary, jbin = setup(run)
    tmp = tempfile.mkdtemp(prefix='c11_', dir=vlib.CACHE)
    tier = run.tier
    try:
        # corpus first
        cc = corpus_cases()
        if cc:
            run_relay_cases(run, binary, jbin, tmp, cc, label='corpus')
        # (a)
        lengths = cl.boundary_lengths()
        run_chunk_cases(run, binary, jbin, tmp, chunk_items(run, tier, lengths), 'boundary')
        run_chunk_cases(run, binary, jbin, tmp, zero_chunk_items(run, tier), 'zero-runs')
        if tier == 'thorough':
            step = 2500
            for lo in range(0, 70001, step):
                ls = list(range(lo, min(lo + step, 70001)))
                run_chunk_cases(run, binary, jbin, tmp, chunk_items(run, tier, ls), 'all-0..70000')
            big = sorted(run.rng.randrange(70001, 9 * 1024 * 1024 + 1) for _ in range(24)) + [9 * 1024 * 1024]
            run_chunk_cases(run, binary, jbin, tmp, chunk_items(run, tier, big), 'random-to-9MiB')
        run_fifo_cases(run, binary, jbin, tmp, fifo_write_lists(run, tier))
        # (b)
        run_relay_cases(run, binary, jbin, tmp, gen_relay_cases(run, tier))
        run_relay_cases(run, binary, jbin, tmp, gen_zero_relay_cases(run, tier), label='relayz')
        # (c)
        e2e_cases(run, binary, tmp, tier)
        e2e_terminal(run, binary, tmp, tier)
        e2e_understated_sizes(run, binary, tmp)

        def search():
            """Something (a proof, the correspondence) broke but no failing input was seen: push the
            implementation through the extended relay family and more lengths under the oracle."""
            sub = vlib.Run(run.prop, 'thorough', run.seed + 1)
            run_relay_cases(sub, binary, jbin, tmp, gen_relay_cases(sub, 'quick', extended=True), label='search')
            if not sub.prop_failures:
                run_relay_cases(sub, binary, jbin, tmp, gen_zero_relay_cases(sub, 'quick', extended=True), label='searchz')
            if not sub.prop_failures:
                ls = sorted(set(sub.rng.randrange(0, 200000) for _ in range(400)))
                run_chunk_cases(sub, binary, jbin, tmp, chunk_items(sub, 'quick', ls), 'search')
            if not sub.prop_failures:
                # a file long enough to contain the largest chunks, through the real encrypted link (frame buffers)
                e2e_cases(sub, binary, tmp, 'quick', placements=[('RR', [20 * 1024 * 1024 + 1, 4096])], tag='search_', zero_families=False)
            return sub.prop_failures[0] if sub.prop_failures else None
        return run.finish(search=search)
    finally:
        shutil.rmtree(tmp, ignore_errors=True)


def replay(run, path):
    r = json.load(open(path))
    print(json.dumps({k: v for k, v in r.items() if k not in ('stderr', 'stdout')}, indent=1)[:3000])
    if r.get('driver') == 'scripted-relay':
        binary, jbin = setup(run)
        tmp = tempfile.mkdtemp(prefix='c11r_', dir=vlib.CACHE)
        try:
            run_relay_cases(run, binary, jbin, tmp, [cl.RelayCase.from_json(r)], label='replay')
            return run.finish(search=None)
        finally:
            shutil.rmtree(tmp, ignore_errors=True)
    if r.get('driver') == 'unit-chunks':
        binary, jbin = setup(run)
        tmp = tempfile.mkdtemp(prefix='c11r_', dir=vlib.CACHE)
        try:
            n = int(r['length'])
            run_chunk_cases(run, binary, jbin, tmp, [(n, run.rng.randbytes(n)), (n, bytes(n))], 'replay')
            return run.finish(search=None)
        finally:
            shutil.rmtree(tmp, ignore_errors=True)
    return check(run)
