"""C13 - What gets deleted and copied does not depend on message timing.

Proof: Props/C13.v (Base/OrderedPlan.v, Proofs/PlanCProofs.v).  Tie: the REAL boss (boss_sync::sync)
against scripted doers under forced interleavings (exhaustive for small listings, sampled for larger
ones) and random parents-first sibling orders; the recorded command sequences must equal the
extracted model's; plus the end-to-end differential of the real CLI.  Oracle on the implementation:
same sets for every interleaving / sibling order of one tree pair; each entry deleted before its
parent; all deletions before any creation; every folder created before its contents."""
import os, sys, json, tempfile, shutil, itertools
import vlib, e2e, sync_e2e, scripted, decision_family

THEOREMS = ['C13_plan_deterministic', 'C13_interleaving_independent', 'C13_sibling_order',
            'C13_children_deleted_first', 'C13_parents_created_first', 'C13_deletes_before_creates',
            'C13_planner_never_panics', 'C13_whole_sync_independent_of_interleaving']


def is_strict_prefix(a, b):
    return a != b and (a == '-' or b.startswith(a) and len(b) > len(a) and b[len(a):len(a) + 2] == '2f')


def order_oracle(trace):
    """C13 ordering clauses on a canonical mutating trace (hex paths; '-' = root)."""
    kinds_del = ('RmF', 'RmD', 'RmL')
    kinds_new = ('Mk', 'Lnk', 'W')
    last_del = max([i for i, c in enumerate(trace) if c[0] in kinds_del], default=-1)
    first_new = min([i for i, c in enumerate(trace) if c[0] in kinds_new], default=len(trace))
    if last_del > first_new:
        return 'a deletion is issued after a creation'
    dels = [c[1] for c in trace if c[0] in kinds_del]
    for i, a in enumerate(dels):
        for b in dels[i + 1:]:
            if is_strict_prefix(a, b):
                return 'parent %s deleted before its child %s' % (a, b)
    news = [(c[0], c[1]) for c in trace if c[0] in kinds_new]
    for i, (k, a) in enumerate(news):
        for (k2, b) in news[:i]:
            if k2 != 'W' or True:
                if is_strict_prefix(a, b) and k == 'Mk':
                    return 'folder %s created after its content %s' % (a, b)
    return None


def sets_of(trace):
    return (frozenset((c[0], c[1]) for c in trace if c[0] in ('RmF', 'RmD', 'RmL')),
            frozenset((c[0], c[1]) + tuple(c[2:]) for c in trace if c[0] in ('Mk', 'Lnk', 'W')))


def clean_scenario(rng, small):
    sc = sync_e2e.gen_scenario(rng, 'clean')
    tries = 0
    while True:
        tries += 1
        sc = sync_e2e.gen_scenario(rng, 'clean')
        sc.excluded, sc.filters, sc.dest_anc = [], [], 'ok'
        if sc.src.get('', {}).get('k') != 'dir':
            continue
        # scripted doers cannot resolve link kinds: keep links (kind 'u') but no link roots
        if sc.dest and sc.dest.get('', {}).get('k') == 'link':
            continue
        ns, nd = len(sc.src) - 1, max(len(sc.dest) - 1, 0)
        if small and not (1 <= ns <= 4 and nd <= 4 and ns + nd >= 3):
            if tries < 400:
                continue
        return sc


def big_scenario(rng, n=70):
    """A source tree with many entries, nested folders and symlinks in the middle of the listing; empty destination."""
    sc = sync_e2e.Scenario()
    sc.cfg = {'newer': 'A', 'older': 'A', 'same': 'S', 'entry': 'A', 'root': 'A'}
    sc.outside = {'': {'k': 'dir'}}
    t = {'': {'k': 'dir'}}
    dirs = ['']
    i = 0
    while len(t) < n:
        i += 1
        par = rng.choice(dirs)
        if par.count('/') >= 3:
            continue
        p = (par + '/' if par else '') + 'e%d' % i
        r = rng.random()
        if r < 0.3:
            t[p] = {'k': 'dir'}
            dirs.append(p)
        elif r < 0.4:
            t[p] = {'k': 'link', 'text': rng.choice([b'a', b'../x', b'.'])}
        else:
            t[p] = {'k': 'file', 'data': b'd%d' % i, 'mtime_ns': sync_e2e.T0 + i}
    sc.src = t
    sc.dest = {} if rng.random() < 0.5 else {'': {'k': 'dir'}, 'old': {'k': 'dir'}, 'old/x': {'k': 'file', 'data': b'x', 'mtime_ns': sync_e2e.T0}}
    return sc


def huge_scenario(rng, n=1300):
    """Two large trees that are nearly in sync (beyond 1024 entries nearly everything queued is taken off the lists again),
    with nested entries that only one side has, listed late: a destination-only chain to delete, a source-only chain to create."""
    sc = sync_e2e.Scenario()
    sc.cfg = {'newer': 'A', 'older': 'A', 'same': 'S', 'entry': 'A', 'root': 'A'}
    sc.outside = {'': {'k': 'dir'}}
    t = {'': {'k': 'dir'}}
    dirs = ['']
    i = 0
    while len(t) < n:
        i += 1
        par = rng.choice(dirs)
        if par.count('/') >= 2:
            continue
        p = (par + '/' if par else '') + 'e%04d' % i
        if rng.random() < 0.04:
            t[p] = {'k': 'dir'}
            dirs.append(p)
        else:
            t[p] = {'k': 'file', 'data': b'd%d' % i, 'mtime_ns': sync_e2e.T0 + i}
    src = dict(t)
    dest = {k: dict(v) for k, v in t.items()}
    for chain, tree in (('zold', dest), ('znew', src)):
        p = chain
        tree[p] = {'k': 'dir'}
        for d in ('a', 'b', 'c'):
            p = p + '/' + d
            tree[p] = {'k': 'dir'}
            tree[p + '/f.txt'] = {'k': 'file', 'data': b'leaf', 'mtime_ns': sync_e2e.T0 + 7}
    sc.src, sc.dest = src, dest
    return sc


def inside_out_family(run, binary, base):
    """A tree assembled INSIDE-OUT (files first, then the folders from the deepest up, everything moved into place): every entry has a
    LOWER inode number than the folder that holds it, and a narrow deep shape puts a folder and its contents close together in the walk.
    Whatever batching or ordering the listing side applies for speed (by inode, by name, ...), every folder must still be created before
    its contents and every entry deleted before its parent: the sync into a new destination and the sync that empties it again must both
    succeed."""
    root = tempfile.mkdtemp(prefix='io_', dir=base)
    try:
        depth, per = 40, 100

        def build(where):
            stage = os.path.join(root, 'stage')
            os.makedirs(stage)
            for k in range(depth):
                for j in range(per):
                    with open(os.path.join(stage, 'f_%02d_%03d' % (k, j)), 'wb') as f:
                        f.write(b'%d.%d' % (k, j))
            prev = None
            for k in reversed(range(depth)):
                d = os.path.join(stage, 'dir%02d' % k)
                os.mkdir(d)
                for j in range(per):
                    os.rename(os.path.join(stage, 'f_%02d_%03d' % (k, j)), os.path.join(d, 'f%03d' % j))
                if prev:
                    os.rename(prev, os.path.join(d, 'sub'))
                prev = d
            os.mkdir(where)
            os.rename(prev, os.path.join(where, 'top'))
            os.rmdir(stage)
        src = os.path.join(root, 'src')
        build(src)
        empty = os.path.join(root, 'empty')
        os.mkdir(empty)
        dest = os.path.join(root, 'dest')
        dest2 = os.path.join(root, 'dest2')
        build(dest2)                      # the tree to be emptied is assembled inside-out as well
        # how far the walking thread is ahead of the thread that fetches the details is a matter of timing: several rounds
        ok1 = ok2 = True
        for rnd in range(5):
            d_i = dest + '_copy%d' % rnd
            r1 = e2e.run_cli(binary, [src + '/', d_i + '/'], timeout=120)
            ok1 = r1['exit'] == 0 and e2e.snapshot(d_i, with_hash=False).keys() == e2e.snapshot(src, with_hash=False).keys()
            shutil.rmtree(d_i, ignore_errors=True)
            if not ok1:
                break
        for rnd in range(3):
            if rnd:
                shutil.rmtree(dest2, ignore_errors=True)
                build(dest2)
            r2 = e2e.run_cli(binary, [empty + '/', dest2 + '/'], timeout=120)
            ok2 = r2['exit'] == 0 and list(e2e.snapshot(dest2, with_hash=False)) == ['']
            if not ok2:
                break
        run.count('inside-out:create:%s' % r1['exit']); run.count('inside-out:delete:%s' % r2['exit'])
        run.case(('inside-out', depth, per), True, sample={'entries': depth * (per + 1), 'create_exit': r1['exit'], 'delete_exit': r2['exit']})
        run.traces_validated += 2
        if not ok1:
            run.fail('C13 (tree assembled inside-out, %d entries): the sync into a new destination failed or is incomplete - a folder was not created before its contents: %s' % (
                depth * (per + 1), (r1['stdout'] + r1['stderr'])[-300:]), {'family': 'inside-out', 'phase': 'create', 'exit': r1['exit']})
        elif not ok2:
            run.fail('C13 (tree assembled inside-out): emptying the destination failed - an entry was not deleted before its parent: %s' % (
                (r2['stdout'] + r2['stderr'])[-300:]), {'family': 'inside-out', 'phase': 'delete', 'exit': r2['exit']})
    finally:
        shutil.rmtree(root, ignore_errors=True)


def check(run):
    run.trusted = list(vlib.COMMON_TRUSTED) + [
        'crossbeam channel FIFO + select (the scripted doers keep one listing message in flight to force an interleaving)',
        'modelled, not verified: none of boss_sync::query_entries is abstracted - the planner model is the code path; HashMap behaves as a finite map']
    run.assumptions = ['listings are duplicate-free and report parents first (C17)']
    run.extra['rule'] = ('scripted: tree pairs with <=4 listed entries per side under ALL interleavings (exhaustive) and larger pairs under sampled '
                         'interleavings and random parents-first sibling orders, real boss vs model command sequences; e2e: real CLI vs model with the real '
                         'listing orders; non-trivial = the plan has at least one delete or copy; distinct by (trees, orders, schedule)')
    binary = vlib.build_impl()
    vlib.regen_facts(binary)
    run.check_proofs('C13', THEOREMS, extra_targets=['theories/Extract/Ex_sync.vo'])
    run.check_translation()      # needs_delete / needs_copy / process_*_entry as regenerated from the source text = the model
    jbin = vlib.build_judge('sync')
    rng = run.rng
    quick = run.tier == 'quick'
    n_small, n_big, n_e2e = (40, 120, 150) if quick else (400, 1500, 4000)
    reqs = []   # (scenario, ls, ld, sched, group)
    for g in range(n_small):
        sc = clean_scenario(rng, True)
        ls = scripted.model_listing(jbin, sc.src)
        ld = scripted.model_listing(jbin, sc.dest) if sc.dest.get('', {}).get('k') == 'dir' else []
        if len(ls) + len(ld) > 8:
            continue
        for sched in scripted.all_interleavings(len(ls), len(ld)):
            reqs.append((sc, ls, ld, sched, 'small%d' % g))
        run.count('exhaustive-groups')
    for g in range(n_big):
        sc = clean_scenario(rng, False)
        ls0 = scripted.model_listing(jbin, sc.src)
        ld0 = scripted.model_listing(jbin, sc.dest) if sc.dest.get('', {}).get('k') == 'dir' else []
        for _ in range(3):
            ls = scripted.random_parents_first(rng, ls0)
            ld = scripted.random_parents_first(rng, ld0)
            s = ['S'] * len(ls) + ['D'] * len(ld)
            rng.shuffle(s)
            reqs.append((sc, ls, ld, ''.join(s), 'big%d' % g))
        run.count('sampled-groups')
    for g in range(6 if quick else 200):               # large listings (sorting / batching bugs only show beyond a few dozen entries)
        sc = big_scenario(rng, rng.choice([45, 70, 120]))
        ls0 = scripted.model_listing(jbin, sc.src)
        ld0 = scripted.model_listing(jbin, sc.dest) if sc.dest.get('', {}).get('k') == 'dir' else []
        for _ in range(2):
            ls = scripted.random_parents_first(rng, ls0)
            ld = scripted.random_parents_first(rng, ld0)
            s = ['S'] * len(ls) + ['D'] * len(ld)
            rng.shuffle(s)
            reqs.append((sc, ls, ld, ''.join(s), 'large%d' % g))
        run.count('large-groups')
    for g in range(2 if quick else 24):                # beyond 1024 entries, nearly in sync, one listing well ahead of the other
        sc = huge_scenario(rng, rng.choice([1100, 1300, 2300]))
        ls0 = scripted.model_listing(jbin, sc.src)
        ld0 = scripted.model_listing(jbin, sc.dest)
        for mode in ('dest-first', 'src-first', 'mixed'):
            ls = scripted.random_parents_first(rng, ls0) if mode == 'mixed' else ls0
            ld = scripted.random_parents_first(rng, ld0) if mode == 'mixed' else ld0
            if mode == 'dest-first':
                s = ['D'] * len(ld) + ['S'] * len(ls)
            elif mode == 'src-first':
                s = ['S'] * len(ls) + ['D'] * len(ld)
            else:
                s = ['S'] * len(ls) + ['D'] * len(ld)
                rng.shuffle(s)
            reqs.append((sc, ls, ld, ''.join(s), 'huge%d' % g))
        run.count('huge-groups')
    hl = [scripted.harness_line(sc, ls, ld, sched) for sc, ls, ld, sched, _ in reqs]
    ml = [scripted.model_line(sc, ls, ld, sched) for sc, ls, ld, sched, _ in reqs]
    impl = scripted.run_batch(binary, hl, timeout=900)
    model = [sync_e2e.parse_model(x) for x in vlib.judge(jbin, ml)]
    groups = {}
    for (sc, ls, ld, sched, g), im, mo in zip(reqs, impl, model):
        mt = sync_e2e.canon_model_trace(mo['dest'])
        ms = sync_e2e.canon_model_trace(mo['src'])
        nontrivial = len(mt) > 0
        run.case((sc.key(), [p for p, _ in ls], [p for p, _ in ld], sched), nontrivial,
                 sample={'src': sorted(sc.src), 'dest': sorted(sc.dest), 'sched': sched, 'impl_dest_trace': im['dest'][:8]})
        run.traces_validated += 1
        run.count('interleavings')
        bad = order_oracle(im['dest'])
        if bad:
            run.fail('C13 order: ' + bad, {'scenario': sc.to_json(), 'ls': ls, 'ld': ld, 'sched': sched, 'trace': im['dest']})
            continue
        groups.setdefault(g, []).append((sets_of(im['dest']), sched, sc, ls, ld, im))
        if mo['errs'] or mo['panic']:
            run.count('model-reports-doer-errors(skipped)')
            continue
        if im['dest'] != mt or im['src'] != ms or im['ok'] != mo['ok']:
            run.broke('correspondence', 'scripted', json.dumps({'scenario': sc.to_json(), 'sched': sched, 'ls': [p for p, _ in ls], 'ld': [p for p, _ in ld],
                                                               'impl': im, 'model_dest': mt, 'model_src': ms})[:2500])
    for g, items in groups.items():
        first = items[0]
        for it in items[1:]:
            if it[0] != first[0]:
                run.fail('C13: the set of deletes/copies depends on the interleaving or sibling order',
                         {'scenario': it[2].to_json(), 'sched_a': first[1], 'sched_b': it[1], 'ls_b': it[3], 'ld_b': it[4],
                          'trace_a': first[5]['dest'], 'trace_b': it[5]['dest']})
                break
    # the planner's decision table through the real boss, exhaustive over class representatives, both arrival orders
    decision_family.family(run, binary, jbin, quick)
    # end-to-end: the real CLI with the real listing orders
    base = tempfile.mkdtemp(prefix='c13_', dir=vlib.CACHE)
    try:
        inside_out_family(run, binary, base)
        for i in range(n_e2e):
            sc = sync_e2e.gen_scenario(rng, 'clean')
            o = sync_e2e.run_scenario(sc, binary, jbin, base)
            run.count('e2e')
            run.case(('e2e', sc.key()), len(o.impl['dest_trace']) > 0)
            run.traces_validated += 1
            bad = order_oracle(o.impl['dest_trace'])
            if bad:
                run.fail('C13 order (e2e): ' + bad, {'scenario': sc.to_json(), 'trace': o.impl['dest_trace']})
            elif o.mismatch:
                run.broke('correspondence', 'e2e', json.dumps({'scenario': sc.to_json(), 'mismatch': o.mismatch})[:2500])
    finally:
        shutil.rmtree(base, ignore_errors=True)

    def search():
        return None
    return run.finish(search=search)


def replay(run, path):
    print(open(path).read()[:4000])
    return check(run)
