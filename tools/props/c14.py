"""C14 - Messages arrive exactly once, in order and intact, with bounded buffering.

Proof: Props/C14.v over Model/Bincode.v (message codec) and Model/Channel.v (byte-accounted channel as an
interleaving transition system).  Tie:
  * `unit bincode`: the real serde/bincode code on real Command/Response values (every variant, payload sizes
    0 .. 4 MiB+1, times before the epoch) against the extracted `encode`/`serialized_size`/`decode`, byte for byte;
    the decoder also on truncated / mutated / hand-made byte strings;
  * `unit channel`: operation sequences on the real memory_bound_channel (capacities 0, 1, smaller than one
    message, exactly one message, large) against the extracted step function under the same schedule, plus
    two-thread runs with many messages.
  * `unit link`: real Command/Response values through a REAL pair of AsyncEncryptedComms objects (the encrypted TCP
    channel: their own threads and 8 MiB buffers) - every variant, full 4 MiB chunks under paths of every length up to
    PATH_MAX (and Windows-long ones), long link targets, large listings, both directions at once; sizes at the edge of
    the buffers against the extracted `link_class` (Model/WireLink.v);
  * end to end: the real CLI through the fake ssh (remote destination / remote source doer) on a tree with a file
    of two full chunks under a long path, a long link target and a few hundred entries.
The property oracle (exactly once, in order, intact; blocked only while more than the capacity is queued;
oversize admitted when empty; drained -> 0) is evaluated in python on what the implementation did.
The adversarial side of the TCP leg (forged / replayed frames) belongs to the frames cluster (C10, Model/Frame.v)."""
import os, sys, json, glob, shutil, tempfile, zlib, concurrent.futures
import vlib, wire_lib as W
import e2e

THEOREMS = [
    # the encrypted link as a whole (Model/RemoteSession.v): channel -> sending thread -> socket -> receiving thread -> channel, every interleaving
    'C14_remote_delivery', 'C14_remote_pipeline', 'C14_remote_complete_partial', 'C14_remote_shutdown_complete', 'C14_remote_final_complete', 'C14_remote_complete_needs_final', 'C14_remote_faultfree_shutdown_seen', 'C14_remote_complete_faultfree',
    'C14_codec', 'C14_codec_command', 'C14_codec_response', 'C14_decode_encode_command',
    'C14_decode_encode_response', 'C14_size_command', 'C14_size_response',
    'C14_encode_injective_command', 'C14_encode_injective_response', 'C14_encode_total_command',
    'C14_encode_total_response', 'C14_send_size_panics_iff_command', 'C14_send_size_panics_iff_response',
    'C14_size_panics_before_epoch', 'C14_fifo', 'C14_fifo_quiescent',
    'C14_account', 'C14_drained', 'C14_no_underflow',
    'C14_wait_loop_sub_ok', 'C14_fetch_sub_ok', 'C14_no_overflow',
    'C14_admission', 'C14_admission_loop', 'C14_oversize',
    'C14_progress', 'C14_progress_recv_decreases', 'C14_progress_wait_keeps',
    'C14_progress_admitted_at_zero', 'C14_sender_never_stuck', 'C14_bounded',
    'C14_run_reach', 'C14_step_rules',
    'C14_legit_command_fits', 'C14_legit_response_fits', 'C14_link_class_is_send_step',
    'C14_legit_command_delivered', 'C14_legit_response_delivered',
    'C14_link_delivers_commands', 'C14_link_delivers_responses',
    'C14_frame_limits_match_code', 'C14_chunk_frames_fit_code']

RULE = ('bincode: every Command/Response variant with random field values from boundary sets (u32/u64 extremes, '
        'UTF-8 of every width, times 0 .. i64::MAX and before the epoch), payload lengths 0,1,..,65536 and 4 MiB-1, 4 MiB, '
        '4 MiB+1; decoder on the encodings, their truncations, single-byte mutations, cross-type decodes and hand-made corner '
        'cases; a case is non-trivial when the message has at least one field; distinct by request line. '
        'channel: every valid schedule over {send 0/1/2/3 bytes, recv, try_recv} up to length 4 (quick) / 6 (thorough) for capacities 0..3, '
        'random schedules for capacity 0, 1, smaller than one message, exactly one message, large and the shipped 100 MiB, 4 MiB+ chunk '
        'messages around the capacity, each drained at the end; two-thread runs with thousands of messages and seeded yields; '
        'every schedule with at least one send is non-trivial. '
        'link (encrypted TCP channel, real AsyncEncryptedComms pair): sequences of every variant in both directions at once; '
        'CreateOrUpdateFile / FileContent with a full 4 MiB chunk (and 4 MiB-1, 2 MiB, random) under root-relative paths of '
        '0 .. 4095 bytes (components <= 255 bytes, several levels, multi-byte characters; thorough: Windows-long 32 KiB / 96 KiB), with and '
        'without a modification time, between small messages; symlinks with 4095-byte targets, SetRoot / Error / GetEntries with long '
        'strings, listings of 1 500 (thorough 20 000) entries; single messages at the edges of the 8 MiB buffers (model class only); '
        'a case is one request, non-trivial when it carries a message. '
        'e2e: the real CLI with a remote destination / source doer (fake ssh) on a tree with a >= 8 MiB - 4 KiB file under a path of '
        '230 .. 3000 bytes, a long link target and a few hundred entries.')


# ------------------------------------------------------------------------------------------------
def bincode_requests(run, tier, pre_epoch=True):
    rng = run.rng
    reqs = []     # (line, meta)
    per = 6 if tier == 'quick' else 60
    for v in W.COMMANDS:
        for _ in range(per):
            line, pl = W.gen_command(rng, v)
            reqs.append(('E ' + line, {'kind': 'cmd', 'variant': v, 'payload': pl, 'pre': False}))
    for v in W.RESPONSES:
        for _ in range(per):
            line, pl = W.gen_response(rng, v)
            reqs.append(('E ' + line, {'kind': 'resp', 'variant': v, 'payload': pl, 'pre': False}))
    # every small payload size, both carriers
    for sz in W.SMALL_SIZES:
        line, pl = W.gen_command(rng, 'CreateOrUpdateFile', size=sz)
        reqs.append(('E ' + line, {'kind': 'cmd', 'variant': 'CreateOrUpdateFile', 'payload': pl, 'pre': False}))
        line, pl = W.gen_response(rng, 'FileContent', size=sz)
        reqs.append(('E ' + line, {'kind': 'resp', 'variant': 'FileContent', 'payload': pl, 'pre': False}))
    # the chunk-size boundary
    for sz in W.BIG_SIZES:
        for _ in range(1 if tier == 'quick' else 3):
            line, pl = W.gen_command(rng, 'CreateOrUpdateFile', size=sz)
            reqs.append(('E ' + line, {'kind': 'cmd', 'variant': 'CreateOrUpdateFile', 'payload': pl, 'pre': False, 'big': True}))
            line, pl = W.gen_response(rng, 'FileContent', size=sz)
            reqs.append(('E ' + line, {'kind': 'resp', 'variant': 'FileContent', 'payload': pl, 'pre': False, 'big': True}))
    # times before the epoch (defect F8 of C18: serialization fails, the channel send panics)
    for _ in range((4 if tier == 'quick' else 20) if pre_epoch else 0):
        line, pl = W.gen_command(rng, 'CreateOrUpdateFile', pre=True)
        reqs.append(('E ' + line, {'kind': 'cmd', 'variant': 'CreateOrUpdateFile', 'payload': pl, 'pre': True}))
        line, pl = W.gen_response(rng, 'Entry', pre=True)
        reqs.append(('E ' + line, {'kind': 'resp', 'variant': 'Entry', 'payload': pl, 'pre': True}))
        line, pl = W.gen_response(rng, 'RootDetails', pre=True)
        reqs.append(('E ' + line, {'kind': 'resp', 'variant': 'RootDetails', 'payload': pl, 'pre': True}))
    return reqs


def parse_enc(line):
    """'OK size=.. send=.. rt=.. hex' -> dict"""
    t = line.split(' ')
    d = {'cls': t[0]}
    for x in t[1:]:
        if '=' in x:
            k, v = x.split('=', 1)
            d[k] = v
        else:
            d['hex'] = x
    return d


def bincode_oracle(meta, impl):
    """The property on what the implementation did with one message: it must come out of the codec and out of
    a real channel bit-identical, and the accounted size must be its serialized size."""
    d = parse_enc(impl)
    if meta['pre']:
        return None      # outside the codec's domain (times before the epoch: F8, property C18)
    if d['cls'] != 'OK' or 'hex' not in d:
        return 'a valid message was not serialized: ' + impl[:80]
    nbytes = 0 if d['hex'] == '-' else len(d['hex']) // 2
    if d.get('rt') != '1':
        return 'deserialize(serialize(m)) is not m'
    if d.get('size') != str(nbytes):
        return 'serialized_size %s but %d bytes were written' % (d.get('size'), nbytes)
    if d.get('send') != str(nbytes):
        return 'channel send/recv did not deliver the message intact with its size accounted: send=%s' % d.get('send')
    if meta['payload'] is not None:
        ln, seed = meta['payload']
        if W.payload(ln, seed).hex() not in (d['hex'] if d['hex'] != '-' else ''):
            return 'payload bytes are not in the serialized message'
    return None


def run_bincode(run, binary, jbin, tier, pre_epoch=True):
    reqs = bincode_requests(run, tier, pre_epoch)
    lines = [r[0] for r in reqs]
    impl = vlib.harness(binary, 'bincode', lines, timeout=900)
    model = W.judge(jbin, lines)
    if len(impl) != len(lines) or len(model) != len(lines):
        raise vlib.BrokenTie('bincode: %d requests, %d impl answers, %d model answers' % (len(lines), len(impl), len(model)))
    small_encodings = []
    for (line, meta), il, ml in zip(reqs, impl, model):
        run.count('bincode:%s:%s' % (meta['kind'], meta['variant']))
        if meta['payload'] is not None:
            run.count('payload-len:%d' % meta['payload'][0])
        if meta['pre']:
            run.count('bincode:pre-epoch')
        nontrivial = len(line.split()) > 3
        run.case(line, nontrivial, sample={'request': line[:200], 'impl': il[:200], 'model': ml[:200]})
        run.traces_validated += 1
        bad = bincode_oracle(meta, il)
        if bad:
            run.fail('C14 codec: ' + bad, {'driver': 'bincode', 'request': line, 'impl': il[:400]})
        elif il != ml:
            run.broke('correspondence', 'bincode-encode', json.dumps({'request': line[:300], 'impl': il[:600], 'model': ml[:600]}))
        d = parse_enc(il)
        if d['cls'] == 'OK' and 'hex' in d and len(d['hex']) < 1400 and d['hex'] != '-':
            small_encodings.append(('C' if meta['kind'] == 'cmd' else 'R', bytes.fromhex(d['hex'])))
    run_decode(run, binary, jbin, tier, small_encodings)


def run_decode(run, binary, jbin, tier, encs):
    rng = run.rng
    cases = []       # (type, bytes, kind)
    for ty, b, note in W.crafted_decodes():
        cases.append((ty, b, 'crafted'))
    pick = encs if tier == 'thorough' else rng.sample(encs, min(len(encs), 80))
    for ty, b in pick:
        cases.append((ty, b, 'as-is'))
        cases.append(('R' if ty == 'C' else 'C', b, 'cross-type'))
        cases.append((ty, b + bytes(rng.randrange(256) for _ in range(rng.choice([1, 3, 9]))), 'trailing'))
        for _ in range(2 if tier == 'quick' else 6):
            cases.append((ty, b[:rng.randrange(len(b))], 'truncated'))
        for _ in range(4 if tier == 'quick' else 12):
            i = rng.randrange(len(b))
            m = bytearray(b)
            m[i] = rng.choice([0, 1, 2, 0x7f, 0x80, 0xff, m[i] ^ (1 << rng.randrange(8)), rng.randrange(256)])
            cases.append((ty, bytes(m), 'mutated'))
    lines = ['D %s %s' % (ty, W.hexs(b)) for ty, b, _ in cases]
    impl = vlib.harness(binary, 'bincode', lines, timeout=900)
    model = W.judge(jbin, lines)
    if len(impl) != len(lines) or len(model) != len(lines):
        raise vlib.BrokenTie('bincode decode: %d requests, %d impl answers, %d model answers' % (len(lines), len(impl), len(model)))
    for (ty, b, kind), line, il, ml in zip(cases, lines, impl, model):
        run.count('decode:' + kind)
        run.count('decode-impl:' + il.split(' ')[0])
        run.case(line, len(b) > 4)
        run.traces_validated += 1
        if il == ml:
            continue
        variant = int.from_bytes(b[:4], 'little') if len(b) >= 4 else -1
        if ty == 'C' and variant == 1 and il == 'ERR' and ml.startswith('OK'):
            run.count('decode:regex-compile-outside-model')     # a pattern that does not compile (see Model/Bincode.v)
            continue
        if ty == 'R' and variant == 5 and il.startswith('OK') and ml.startswith('OK') and len(b) >= 24 and int.from_bytes(b[16:24], 'little') >= 2:
            run.count('decode:hashmap-order-outside-model')     # >= 2 threads: HashMap order / duplicate keys
            continue
        run.broke('correspondence', 'bincode-decode', json.dumps({'request': line[:600], 'impl': il[:600], 'model': ml[:600], 'kind': kind}))
        if kind == 'as-is' and not il.startswith('OK'):
            run.fail('C14 codec: the encoding of a valid message does not decode', {'driver': 'bincode', 'request': line})


# ------------------------------------------------------------------------------------------------
# channel
class Sim:
    """Reference behaviour written from the property text: a FIFO of (id, size); a send is held back exactly
    while more than the capacity is already queued; the accounted size of a drained channel is zero."""
    def __init__(self, cap):
        self.cap, self.queue, self.pending, self.next_id = cap, [], None, 1

    def queued(self):
        return sum(z for _, z in self.queue)

    def send(self, size):
        m = (self.next_id, size)
        self.next_id += 1
        if self.queued() > self.cap:
            self.pending = m
            return 'blocked'
        self.queue.append(m)
        return 'ok'

    def recv(self):
        m = self.queue.pop(0)
        sfx = ''
        if self.pending is not None:
            if self.queued() > self.cap:
                sfx = ',b'
            else:
                self.queue.append(self.pending)
                self.pending = None
                sfx = ',u'
        return m[0], sfx


def gen_single(rng, cap, sizes, length):
    sim = Sim(cap)
    ops = []
    for _ in range(length):
        choices = ['t', 'u', 'q']
        if sim.queue:
            choices += ['r', 'r', 'r']
        if sim.pending is None:
            choices += ['s'] * 6
        c = rng.choice(choices)
        if c == 's':
            z = rng.choice(sizes)
            ops.append('s%d' % z)
            sim.send(z)
        elif c in 'rt':
            ops.append(c)
            if sim.queue:
                sim.recv()
        else:
            ops.append(c)
    return finish_ops(sim, ops)


def finish_ops(sim, ops):
    """Drain and read the counter."""
    while sim.queue:
        ops.append('r')
        sim.recv()
    return ops + ['u', 'q', 't']


def enum_single(alphabet, maxlen):
    """All valid schedules over the alphabet up to maxlen (no recv on an empty queue, no send while one is blocked)."""
    out = []

    def go(prefix):
        if prefix:
            out.append(list(prefix))
        if len(prefix) == maxlen:
            return
        for a in alphabet:
            go(prefix + [a])
    go([])
    return out


def valid_for(cap, ops):
    sim = Sim(cap)
    for o in ops:
        if o[0] == 's':
            if sim.pending is not None:
                return None
            sim.send(int(o[1:]))
        elif o == 'r':
            if not sim.queue:
                return None
            sim.recv()
        elif o == 't' and sim.queue:
            sim.recv()
    return finish_ops(sim, list(ops))


def single_oracle(cap, ops, answer):
    """The property on what the real channel did under this schedule."""
    toks = answer.split(' ')
    if len(toks) != len(ops):
        return 'answer has %d tokens for %d operations' % (len(toks), len(ops))
    sim = Sim(cap)
    for o, t in zip(ops, toks):
        if o[0] == 's':
            q = sim.queued()
            want = sim.send(int(o[1:]))
            if t != 's:' + want:
                if want == 'ok':
                    return 'send of %s was held back with only %d bytes queued (capacity %d)%s' % (
                        o[1:], q, cap, ' - oversize message into an empty channel' if q == 0 else '')
                return 'send of %s was admitted with %d bytes already queued (capacity %d)' % (o[1:], q, cap)
        elif o in 'rt':
            if not sim.queue:
                if o == 't' and t.startswith('t:empty'):
                    continue
                return 'receive on an empty channel answered ' + t
            mid, sfx = sim.recv()
            if not t.startswith(o + ':'):
                return 'bad token ' + t
            got = t[2:].split(',')
            if got[0] != str(mid):
                return 'received message %s, expected message %d (exactly once, in order)' % (got[0], mid)
            gs = (',' + got[1]) if len(got) > 1 else ''
            if gs != sfx:
                if sfx == ',u':
                    return 'blocked sender still held back with %d bytes queued (capacity %d)' % (sim.queued(), cap)
                return 'blocked sender state %r, expected %r' % (gs, sfx)
        elif o == 'u':
            if not sim.queue and sim.pending is None and t != 'u:0':
                return 'channel drained but accounted size is ' + t[2:]
    return None


def run_parallel(binary, lines, wait_ms, nproc=8):
    import concurrent.futures
    if not lines:
        return []
    k = max(1, min(nproc, vlib.NPROC, len(lines) // 20 + 1))
    chunks = [lines[i::k] for i in range(k)]
    with concurrent.futures.ThreadPoolExecutor(max_workers=k) as ex:
        res = list(ex.map(lambda ch: vlib.harness(binary, 'channel', ch, args=[str(wait_ms)], timeout=1500), chunks))
    out = [None] * len(lines)
    for j, r in enumerate(res):
        # a harness process stops after reporting a deadlocked sender (HUNG); the lines it did not answer are SKIPPED
        if len(r) != len(chunks[j]) and not (r and r[-1].endswith('HUNG')):
            raise vlib.BrokenTie('channel harness answered %d of %d lines' % (len(r), len(chunks[j])))
        for i in range(len(chunks[j])):
            out[j + i * k] = r[i] if i < len(r) else 'SKIPPED'
    return out


def run_channel(run, binary, jbin, tier, extra_scenarios=()):
    rng = run.rng
    scen = []    # (cap, ops, kind, wait)
    for cap, ops in extra_scenarios:
        scen.append((cap, ops, 'corpus'))
    # exhaustive small scope
    alphabet = ['s0', 's1', 's2', 's3', 'r', 't']
    for ops in enum_single(alphabet, 4 if tier == 'quick' else 6):
        for cap in (0, 1, 2, 3):
            v = valid_for(cap, ops)
            if v is not None and any(o[0] == 's' for o in ops):
                scen.append((cap, v, 'exhaustive'))
    # random schedules: capacity 0, 1, smaller than one message, exactly one message, large
    families = [(0, [0, 1, 5, 13]), (1, [0, 1, 2, 13]), (10, [13, 29, 100]), (13, [13]), (13, [0, 1, 12, 13, 14, 26]),
                (100, [0, 1, 13, 50, 99, 100, 101]), (4096, [1, 4095, 4096, 4097, 13]), (1 << 20, [0, 13, 4096, 65536]),
                (104857600, [13, 65536, 1 << 20])]
    n_rand = 25 if tier == 'quick' else 250
    for cap, sizes in families:
        for _ in range(n_rand):
            scen.append((cap, gen_single(rng, cap, sizes, rng.choice([5, 10, 20, 40])), 'random'))
    # the largest file chunk (4 MiB + message overhead) against capacities around it
    big = 4 * 1024 * 1024 + 13
    for cap in ([0, big - 1, big, 2 * big] if tier == 'quick' else [0, 1, big - 1, big, big + 1, 2 * big, 104857600]):
        scen.append((cap, valid_for(cap, ['s%d' % big, 's%d' % big, 's1', 'u', 'r', 'u', 's%d' % (big + 1), 'r', 'r']) or
                     finish_ops(Sim(cap), ['s%d' % big]), 'chunk-size'))
        scen.append((cap, finish_ops(Sim(cap), ['s%d' % big]), 'chunk-size'))
    lines = ['S %d %s' % (cap, ' '.join(ops)) for cap, ops, _ in scen]
    model = W.judge(jbin, lines)
    impl = run_parallel(binary, lines, 5)
    # a short observation window can only err towards "blocked": re-run disagreeing schedules with a long one
    hung = [i for i, il in enumerate(impl) if il.endswith('HUNG')]
    redo = [i for i, (sc, il, ml) in enumerate(zip(scen, impl, model))
            if il != 'SKIPPED' and not il.endswith('HUNG') and (il != ml or single_oracle(sc[0], sc[1], il))]
    run.count('channel:rerun-with-long-window', len(redo))
    if redo and not hung:
        for i in redo[:200]:
            again = vlib.harness(binary, 'channel', [lines[i]], args=['600'], timeout=600)
            impl[i] = again[0] if again else 'SKIPPED'
    for (cap, ops, kind), line, il, ml in zip(scen, lines, impl, model):
        if il == 'SKIPPED':
            run.count('channel:skipped-after-a-hang')
            continue
        if il.endswith('HUNG'):
            run.case(line, True)
            run.fail('C14 channel: a blocked sender never got through although the receiver drained the channel (deadlock)',
                     {'driver': 'channel', 'schedule': line, 'impl': il})
            continue
        run.count('channel:' + kind)
        run.count('channel-cap:%s' % (cap if cap < 200 else '>=200'))
        if 'blocked' in il:
            run.count('channel:schedules-with-a-blocked-send')
        run.case(line, True, sample={'schedule': line[:200], 'impl': il[:200], 'model': ml[:200]} if kind == 'random' and 'blocked' in il else None)
        run.traces_validated += 1
        bad = single_oracle(cap, ops, il)
        if bad:
            run.fail('C14 channel: ' + bad, {'driver': 'channel', 'schedule': line, 'impl': il})
        elif il != ml:
            run.broke('correspondence', 'channel-schedule', json.dumps({'schedule': line[:600], 'impl': il[:600], 'model': ml[:600]}))
    run_two_threads(run, binary, tier)


def run_two_threads(run, binary, tier):
    rng = run.rng
    runs = []
    n = 3000 if tier == 'quick' else 20000
    for cap, sizes in [(0, [1]), (0, [0, 5, 1]), (1, [1, 2]), (10, [13, 3, 0, 29]), (13, [13]), (64, [13, 40, 64, 65, 1]),
                       (4096, [13, 4097, 100]), (1 << 20, [13, 65536]), (104857600, [13, 4096])]:
        for _ in range(1 if tier == 'quick' else 6):
            runs.append((cap, rng.randrange(2 ** 31), n, sizes))
    big = 4 * 1024 * 1024 + 13
    runs.append((big, rng.randrange(2 ** 31), 12 if tier == 'quick' else 60, [big, 13, big + 1]))
    lines = ['T %d %d %d %s' % (cap, seed, k, ' '.join(map(str, sizes))) for cap, seed, k, sizes in runs]
    impl = run_parallel(binary, lines, 5, nproc=4)
    for (cap, seed, k, sizes), line, il in zip(runs, lines, impl):
        run.count('channel:two-threads')
        run.count('channel:two-threads-messages', k)
        run.case(line, True, sample={'two-threads': line, 'impl': il[:120]})
        run.traces_validated += 1
        two_thread_verdict(run, cap, k, sizes, line, il)


def two_thread_verdict(run, cap, k, sizes, line, il):
    if il == 'SKIPPED':
        return
    if il.endswith('HUNG'):
        run.fail('C14 channel: two-thread run deadlocked', {'driver': 'channel', 'schedule': line, 'impl': il})
        return
    f = dict(x.split('=', 1) for x in il.split(' ')[1:])
    want = ','.join('%d:%d' % (i + 1, sizes[i % len(sizes)]) for i in range(k))
    got = f.get('recv', '')
    if got != want:
        gl, wl = got.split(','), want.split(',')
        pos = next((i for i, (a, b) in enumerate(zip(gl, wl)) if a != b), min(len(gl), len(wl)))
        run.fail('C14 channel: two-thread run delivered %d of %d messages, first difference at position %d (exactly once, in order, intact)'
                 % (len(gl), len(wl), pos), {'driver': 'channel', 'schedule': line, 'impl': il[:300]})
    elif f.get('final') != '0' or f.get('extra') != '0':
        run.fail('C14 channel: drained channel accounts %s bytes (extra message: %s)' % (f.get('final'), f.get('extra')),
                 {'driver': 'channel', 'schedule': line, 'impl': il[:300]})
    elif int(f.get('max', '0')) > cap + 2 * max(sizes):
        run.broke('correspondence', 'channel-bounded', 'counter sampled at %s exceeds capacity + two messages (theorem C14_bounded): %s' % (f.get('max'), line))



# ------------------------------------------------------------------------------------------------
# the encrypted TCP channel
def legit(m):
    """A message the protocol can produce (from the property text: every payload size up to the largest file chunk;
    strings are paths, link targets, patterns, error texts - 96 KiB is far beyond any of them)."""
    return (m['data'] or 0) <= W.MIB4 and m['strings'] <= W.LEGIT_STRINGS_MAX


def msg_words(m, which):
    d = '%s #%d' % (m['variant'], which)
    if m['data'] is not None:
        d += ', %d data bytes' % m['data']
    if m['strings']:
        d += ', %d bytes of path/strings' % m['strings']
    return d


def parse_link_answer(ans):
    f = dict(x.split('=', 1) for x in ans.split(' ')[1:])
    lst = lambda v: [] if v == '-' else v.split(',')
    return {'sc': lst(f['sc']), 'rc': lst(f['rc']), 'sr': lst(f['sr']), 'rr': lst(f['rr']),
            'ends': f['ends'].split(','), 'to': f.get('to') == '1'}


def link_direction_oracle(metas, sent, recv, what, sender_end, receiver_end, timed_out):
    """One direction of the link: everything handed in must come out once, in order, bit-identical."""
    if len(sent) != len(metas):
        return None      # (glue problem, reported by the caller)
    for i, (s_, m) in enumerate(zip(sent, metas)):
        if i >= len(recv):
            return ('%s (%s; %s bytes serialized) handed to the encrypted channel never reached the other side: %d of %d messages arrived; '
                    'sending thread: %s, receiving thread: %s%s' % (what, msg_words(m, i), s_.split(':')[0], len(recv), len(sent),
                                                                      sender_end, receiver_end, ', stalled' if timed_out else ''))
        if recv[i] != s_:
            where = 'again' if recv[i] in sent[:i] else ('early (out of order)' if recv[i] in sent[i + 1:] else 'altered')
            return '%s (%s) arrived %s: sent %s, received %s' % (what, msg_words(m, i), where, s_, recv[i])
    if len(recv) > len(sent):
        return '%d more message(s) than were sent came out of the channel (%s direction): %s' % (len(recv) - len(sent), what, recv[len(sent):][:3])
    return None


def link_oracle(cm, rm, a):
    """The property on what the real pair of AsyncEncryptedComms did with one request; only for requests whose every
    message is one the protocol can produce."""
    if not all(legit(m) for m in cm + rm):
        return None
    return (link_direction_oracle(cm, a['sc'], a['rc'], 'command', a['ends'][0], a['ends'][1], a['to']) or
            link_direction_oracle(rm, a['sr'], a['rr'], 'response', a['ends'][2], a['ends'][3], a['to']))


def link_requests(run, tier):
    """(request line, kind) - see RULE."""
    rng = run.rng
    quick = tier == 'quick'
    reqs = []
    # every variant, both directions at once, the final message of each direction last
    for _ in range(1 if quick else 10):
        n = 60 if quick else 200
        cmds = [W.small_command(rng) for _ in range(n)] + ['C Shutdown']
        resps = [W.small_response(rng) for _ in range(n)] + ['R ProfilingDataDefault']
        reqs.append((W.link_request(cmds, resps), 'all-variants'))
    # the chunk carriers with the largest chunk, under paths of every length
    totals = list(W.PATH_TOTALS)
    rng.shuffle(totals)
    nbig = 6 if quick else 60
    for k in range(nbig):
        total = totals[k % len(totals)] if (quick or k < len(totals)) else rng.randrange(0, W.PATH_MAX)
        if not quick and k % 20 == 19:
            total = rng.choice([32767, W.WIN_PATH_MAX_UTF8])
        if quick and k == 0:
            total = rng.choice([766, 1000, 2047, 3000, 4000, 4095])      # at least one long path with a full chunk in every run
        size = W.MIB4 if k % 3 != 2 else rng.choice([W.MIB4 - 1, W.MIB4 // 2, rng.randrange(1, W.MIB4)])
        path = W.long_path(rng, total, wide=rng.random() < 0.3)
        cmds = [W.small_command(rng), W.chunk_command(rng, size, path, mtime=rng.random() < 0.6), W.small_command(rng)]
        resps = [W.small_response(rng), W.chunk_response(rng, W.MIB4 if k % 2 == 0 else size), W.small_response(rng)]
        reqs.append((W.link_request(cmds, resps), 'chunk'))
    # long strings everywhere else, and a large listing
    lp = lambda: W.long_path(rng, rng.choice([255, 766, 2047, 4000, 4095]), wide=rng.random() < 0.3)
    cmds = ['C SetRoot ' + W.hexs('/' + lp()), 'C GetEntries %d %s %d %s' % (300, ' '.join(W.hexs(rng.choice(W.PATTERNS) + 'x' * rng.randrange(200)) for _ in range(300)),
                                                                            300, ' '.join(rng.choice('IE') for _ in range(300)))]
    for _ in range(8 if quick else 40):
        cmds += ['C CreateSymlink %s %s %s %s' % (W.hexs(lp()), W.r_kind(rng), rng.choice(['norm', 'notnorm']), W.hexs(lp())),
                 'C DeleteSymlink %s %s' % (W.hexs(lp()), W.r_kind(rng)), 'C CreateFolder ' + W.hexs(lp()), 'C GetFileContent ' + W.hexs(lp()),
                 'C DeleteFile ' + W.hexs(lp()), 'C DeleteFolder ' + W.hexs(lp())]
    cmds.append('C Shutdown')
    resps = ['R RootDetails some symlink Unknown notnorm %s 1 %s' % (W.hexs(lp()), W.hexs('/')), 'R Error ' + W.hexs('e' * 65536)]
    resps += W.listing(rng, 1500 if quick else 20000)
    reqs.append((W.link_request(cmds, resps), 'long-strings-and-listing'))
    # single messages at the edges of the 8 MiB buffers: outside what the protocol produces, compared with the model only
    ofc, ocf = 13, 34
    edge = [8388608 - 8 - 16 - ofc, 8388608 - 8 - 16 - ofc + 1]
    if not quick:
        edge += [8388608 - 8 - ofc, 8388608 - 8 - ofc + 1, 5 * 1024 * 1024, 8388608 - 8 - 16 - ofc - 1]
    for n in edge:
        reqs.append((W.link_request([], [W.chunk_response(rng, n)]), 'buffer-edge'))
    # messages that end within the last bytes below a power of two (header 8 + body + tag 16): any buffer that is sized
    # from the message alone and rounded to a power of two has no room for the tag exactly here
    pows = [1 << e for e in range(16, 23)]
    for P in pows:
        ks = list(range(0, 18)) if not quick else sorted(rng.sample(range(1, 16), 2) + [0, 16])
        for k in ks:
            n = P - 8 - ofc - k
            if rng.random() < 0.5:
                reqs.append((W.link_request([W.small_command(rng)], [W.small_response(rng), W.chunk_response(rng, n), W.small_response(rng)]), 'pow2-edge'))
            else:
                plen = rng.choice([1, 40, 255])
                nn = P - 8 - (ocf - 12) - plen - k
                reqs.append((W.link_request([W.small_command(rng), W.chunk_command(rng, nn, W.long_path(rng, plen), mtime=False), W.small_command(rng)], [W.small_response(rng)]), 'pow2-edge'))
    for plen in ([1000] if quick else [0, 255, 4095]):
        for extra in ((0, 1) if not quick else (rng.choice([0, 1]),)):
            n = 8388608 - 8 - 16 - (ocf - 12) - plen + extra          # without a modification time
            reqs.append((W.link_request([W.chunk_command(rng, n, W.long_path(rng, plen), mtime=False)], []), 'buffer-edge'))
    return reqs


def judge_parallel(jbin, lines, weights, nproc=6):
    if not lines:
        return []
    k = max(1, min(nproc, vlib.NPROC, len(lines)))
    # the heavy lines (large payloads) are spread round-robin
    order = sorted(range(len(lines)), key=lambda i: -weights[i])
    parts = [order[i::k] for i in range(k)]
    with concurrent.futures.ThreadPoolExecutor(max_workers=k) as ex:
        res = list(ex.map(lambda idx: W.judge(jbin, [lines[i] for i in idx]), parts))
    out = [None] * len(lines)
    for idx, r in zip(parts, res):
        if len(r) != len(idx):
            raise vlib.BrokenTie('judge answered %d of %d link lines' % (len(r), len(idx)))
        for i, x in zip(idx, r):
            out[i] = x
    return out


def link_parallel(binary, lines, weights, nproc=4, idle_ms=60000):
    k = max(1, min(nproc, vlib.NPROC, len(lines)))
    order = sorted(range(len(lines)), key=lambda i: -weights[i])
    parts = [order[i::k] for i in range(k)]
    with concurrent.futures.ThreadPoolExecutor(max_workers=k) as ex:
        res = list(ex.map(lambda idx: vlib.harness(binary, 'link', [lines[i] for i in idx], args=[str(idle_ms)], timeout=1500), parts))
    out = [None] * len(lines)
    for idx, r in zip(parts, res):
        if len(r) != len(idx):
            raise vlib.BrokenTie('link harness answered %d of %d lines' % (len(r), len(idx)))
        for i, x in zip(idx, r):
            out[i] = x
    return out


def link_verdict(run, line, kind, il, judged):
    """Property oracle on the implementation's answer, then the correspondence with the model's answers (one per message)."""
    cm, rm = W.parse_link_request(line)
    a = parse_link_answer(il)
    run.count('link:' + kind)
    for m in cm + rm:
        run.count('link-msg:' + m['variant'])
        if m['data'] is not None and m['data'] >= W.MIB4 - 1:
            run.count('link:full-chunk-path-bytes:%s' % ('-' if m['variant'] == 'FileContent' else
                                                          ('<=217' if m['strings'] <= 217 else '218..4095' if m['strings'] <= 4095 else '>4095')))
    run.case(line, bool(cm or rm), sample={'link': line[:160], 'impl': il[:200]} if kind == 'chunk' else None)
    run.traces_validated += 1
    replay = {'driver': 'link', 'request': line, 'kind': kind, 'impl': il[:600]}
    if len(a['sc']) != len(cm) or len(a['sr']) != len(rm):
        run.broke('correspondence', 'link-glue', 'the harness built %d/%d messages for %d/%d descriptions' % (len(a['sc']), len(a['sr']), len(cm), len(rm)))
        return
    bad = link_oracle(cm, rm, a)
    if bad:
        if len(run.prop_failures) < 4:
            vlib.log('link: ' + bad[:400])
        run.fail('C14 encrypted channel: ' + bad, replay)
        return
    # model: size and digest of every encoding, and whether the link takes the message
    for metas, sent, recv, jl, send_end in ((cm, a['sc'], a['rc'], judged[:len(cm)], a['ends'][0]), (rm, a['sr'], a['rr'], judged[len(cm):], a['ends'][2])):
        stop = None
        for i, (m, s_, j) in enumerate(zip(metas, sent, jl)):
            f = dict(x.split('=', 1) for x in j.split(' ') if '=' in x)
            if '%s:%s' % (f.get('size'), f.get('crc')) != s_:
                run.broke('correspondence', 'link-encoding', json.dumps({'message': m['text'][:200], 'impl': s_, 'model': j}))
                return
            if f.get('class') != 'delivered' and stop is None:
                stop = (i, f.get('class'))
        want = sent if stop is None else sent[:stop[0]]
        want_end = 'running' if stop is None else {'serialize': 'serialize', 'tag-panic': 'panic-slice'}.get(stop[1], '?')
        if recv != want or (stop is not None and send_end != want_end):
            run.broke('correspondence', 'link-class', json.dumps({'request': line[:300], 'impl': il[:400], 'model_stops_at': stop,
                                                                   'expected_delivered': len(want), 'expected_sender_end': want_end}))
            return


def run_link(run, binary, jbin, tier, only=None):
    reqs = link_requests(run, tier) if only is None else only
    lines = [r[0] for r in reqs]
    klines, kweights, weights, spans = [], [], [], []
    weight = lambda m: (m['data'] or 0) + m['strings'] + 64
    for line in lines:
        cm, rm = W.parse_link_request(line)
        spans.append((len(klines), len(cm) + len(rm)))
        klines += ['K C ' + m['text'] for m in cm] + ['K R ' + m['text'] for m in rm]
        kweights += [weight(m) for m in cm + rm]
        weights.append(sum(weight(m) for m in cm + rm))
    with concurrent.futures.ThreadPoolExecutor(max_workers=2) as ex:
        fi = ex.submit(link_parallel, binary, lines, weights)
        fj = ex.submit(judge_parallel, jbin, klines, kweights)
        impl, judged = fi.result(), fj.result()
    for (line, kind), il, (a, n) in zip(reqs, impl, spans):
        link_verdict(run, line, kind, il, judged[a:a + n])


def search_link(run, binary):
    """Something (a proof obligation against the code, a correspondence case) broke without a failing input: look for one
    among the largest messages the oracle still counts as legitimate - full chunks under Windows-long paths, 96 KiB strings."""
    rng = run.rng
    reqs = []
    for total in (4095, 8191, 32767, W.WIN_PATH_MAX_UTF8, W.LEGIT_STRINGS_MAX):
        for mt in (True, False):
            reqs.append(W.link_request([W.chunk_command(rng, W.MIB4, W.long_path(rng, total), mtime=mt)], [W.chunk_response(rng, W.MIB4)]))
    half = W.LEGIT_STRINGS_MAX // 2
    reqs.append(W.link_request(['C CreateSymlink %s File notnorm %s' % (W.hexs(W.long_path(rng, half)), W.hexs(W.long_path(rng, half))),
                                'C SetRoot ' + W.hexs('r' * W.LEGIT_STRINGS_MAX)],
                               ['R Error ' + W.hexs('e' * W.LEGIT_STRINGS_MAX),
                                'R Entry %s symlink Unknown norm %s' % (W.hexs(W.long_path(rng, half)), W.hexs(W.long_path(rng, half)))]))
    impl = link_parallel(binary, reqs, [1] * len(reqs))
    for line, il in zip(reqs, impl):
        cm, rm = W.parse_link_request(line)
        a = parse_link_answer(il)
        if len(a['sc']) == len(cm) and len(a['sr']) == len(rm):
            bad = link_oracle(cm, rm, a)
            if bad:
                return 'C14 encrypted channel: ' + bad, {'driver': 'link', 'request': line, 'kind': 'search', 'impl': il[:600]}
    return None


# ------------------------------------------------------------------------------------------------
# end to end: the real CLI, one side behind the fake ssh
def e2e_scenario(rng, tier, placement, big=None, rel_total=None):
    """A source tree whose messages are as large as the protocol makes them: a file of at least two full chunks (the chunk
    size doubles from 4 KiB, so 8 MiB - 4 KiB is the smallest file with a full 4 MiB chunk) below long directory
    names, a symlink with a long target, a few hundred small entries."""
    big = big if big is not None else rng.choice([8 * 1024 * 1024 - 4096, 8 * 1024 * 1024, 9 * 1024 * 1024 + 123])
    rel_total = rel_total if rel_total is not None else rng.choice([230, 258, 600, 1500, 3000])
    return {'placement': placement, 'big': big, 'rel_total': rel_total, 'seed': rng.randrange(2 ** 32),
            'entries': 200 if tier == 'quick' else 2000}


def e2e_tree(sc):
    import random
    rng = random.Random(sc['seed'])
    tree = {'': {'k': 'dir'}}
    rel = W.long_path(rng, sc['rel_total'])
    comps = rel.split('/')
    if len(comps) < 2:            # at least one directory level
        comps = [comps[0][:len(comps[0]) // 2] or 'd', comps[0][len(comps[0]) // 2:] or 'f']
    comps = [c.replace(' ', '_').replace('\\', '_') for c in comps]
    for i in range(1, len(comps)):
        tree['/'.join(comps[:i])] = {'k': 'dir'}
    tree['/'.join(comps)] = {'k': 'file', 'data': rng.randbytes(sc['big']), 'mtime_ns': 1600000000123456789}
    tree['small'] = {'k': 'dir'}
    for k in range(sc['entries']):
        name = 'small/' + W.long_path(rng, rng.choice([1, 8, 40, 120, 255])).replace('/', '_').replace(' ', '_').replace('\\', '_') 
        if name in tree or name.endswith(('/.', '/..')):
            continue
        r = rng.random()
        if r < 0.7:
            tree[name] = {'k': 'file', 'data': rng.randbytes(rng.choice([0, 1, 100, 4095, 4096, 4097, 70000])), 'mtime_ns': 1500000000000000000 + k}
        elif r < 0.85:
            tree[name] = {'k': 'dir'}
        else:
            tree[name] = {'k': 'link', 'text': os.fsencode(W.long_path(rng, rng.choice([1, 30, 255, 1000, 4000])))}
    tree['link-with-a-long-target'] = {'k': 'link', 'text': os.fsencode(W.long_path(rng, 4095).replace('\\', '_'))}
    return tree, '/'.join(comps)


def e2e_oracle(sc, r, src_snap, dest_snap, big_rel):
    """Everything the source held must be at the destination, bit-identical (what crossed the channel: listings, file
    chunks with their path and time, link targets), and the run must not have lost a message on the way."""
    text = (r['stdout'] + r['stderr'])
    if r['timed_out']:
        return 'the sync did not finish (a message never arrived?)'
    if r['exit'] != 0:
        lines = [l for l in text.splitlines() if 'ERROR' in l or 'error' in l]
        return 'the sync failed (exit %s): %s' % (r['exit'], ' | '.join(l.strip()[:200] for l in lines[:3]) or text[-300:])
    for rel, node in src_snap.items():
        got = dest_snap.get(rel)
        if got != node:
            return 'destination entry %r is %s, the source has %s' % (rel[:80] + ('...' if len(rel) > 80 else ''), 
                                                                       (got[:2] if got else 'missing'), node[:2])
    extra = set(dest_snap) - set(src_snap)
    if extra:
        return 'destination has entries the source does not have: %r' % sorted(extra)[:3]
    return None


def run_one_e2e(binary, base, fake, sc, keep=False):
    root = tempfile.mkdtemp(prefix='e_', dir=base)
    try:
        tree, big_rel = e2e_tree(sc)
        src, dest = os.path.join(root, 's'), os.path.join(root, 'd')
        e2e.build_tree(src, tree)
        pre = lambda p, side: ('localhost:' if sc['placement'][side] == 'R' else '') + p
        r = e2e.run_cli(binary, [pre(src, 0), pre(dest, 1)], timeout=300, fake_ssh=fake)
        bad = e2e_oracle(sc, r, e2e.snapshot(src), e2e.snapshot(dest), big_rel)
        return bad, big_rel, r
    finally:
        if not keep:
            shutil.rmtree(root, ignore_errors=True)


def run_e2e(run, binary, tier, only=None):
    rng = run.rng
    if only is not None:
        scs = only
    elif tier == 'quick':
        scs = [e2e_scenario(rng, tier, 'LR'), e2e_scenario(rng, tier, 'RL')]
    else:
        scs = [e2e_scenario(rng, tier, pl, big=b, rel_total=t) for pl in ('LR', 'RL', 'RR')
               for b, t in [(8 * 1024 * 1024 - 4096, 258), (9 * 1024 * 1024 + 123, 3000), (20 * 1024 * 1024 + 1, 1500), (8 * 1024 * 1024, 600)]]
    base = tempfile.mkdtemp(prefix='c14_', dir=vlib.CACHE)
    try:
        fake = e2e.fake_ssh_dir(base)
        with concurrent.futures.ThreadPoolExecutor(max_workers=3) as ex:
            res = list(ex.map(lambda sc: run_one_e2e(binary, base, fake, sc), scs))
        for sc, (bad, big_rel, r) in zip(scs, res):
            run.count('e2e:' + sc['placement'])
            run.count('e2e:big-file-path-bytes:%d' % len(big_rel.encode()))
            run.case(('e2e', json.dumps(sc, sort_keys=True)), True, sample={'e2e': sc, 'exit': r['exit']})
            run.traces_validated += 1
            if bad:
                vlib.log('e2e %s: %s' % (sc['placement'], bad[:400]))
                run.fail('C14 encrypted channel, end to end (%s doer remote; %d-byte file under a %d-byte root-relative path): %s'
                         % ({'LR': 'destination', 'RL': 'source', 'RR': 'both'}[sc['placement']], sc['big'], len(big_rel.encode()), bad),
                         {'driver': 'e2e', 'scenario': sc})
    finally:
        shutil.rmtree(base, ignore_errors=True)

# ------------------------------------------------------------------------------------------------
def run_corpus(run, binary, jbin):
    chan = []
    for path in sorted(glob.glob(os.path.join(vlib.VERIF, 'corpus', 'C14', '*.json'))):
        c = json.load(open(path))
        run.count('corpus')
        if c.get('driver') == 'bincode':
            lines = c['requests']
            impl = vlib.harness(binary, 'bincode', lines)
            model = W.judge(jbin, lines)
            for line, il, ml in zip(lines, impl, model):
                run.case(line, True)
                run.traces_validated += 1
                if line.startswith('E '):
                    bad = bincode_oracle({'pre': c.get('pre_epoch', False), 'payload': None}, il)
                    if bad:
                        run.fail('C14 codec (corpus %s): %s' % (os.path.basename(path), bad), {'driver': 'bincode', 'request': line, 'impl': il[:400]})
                        continue
                if il != ml:
                    run.broke('correspondence', 'corpus-' + os.path.basename(path), json.dumps({'request': line[:300], 'impl': il[:600], 'model': ml[:600]}))
        elif c.get('driver') == 'link':
            run_link(run, binary, jbin, 'quick', only=[(l, 'corpus') for l in c['requests']])
        elif c.get('driver') == 'channel':
            for sc in c['schedules']:
                v = valid_for(sc['cap'], sc['ops'])
                if v is not None:
                    chan.append((sc['cap'], v))
    return chan


def check(run):
    run.trusted = list(vlib.COMMON_TRUSTED) + [
        'modelled, not verified: serde derive + bincode 1.3.3 (checked byte for byte on sampled messages), std SystemTime/Duration arithmetic, '
        'crossbeam-channel (assumed FIFO and linearizable), per-location coherence of the relaxed atomic counter, real thread timing (sampled)',
        'the encrypted TCP leg: the frame automata and the stream theorem are Model/Frame.v / FrameProofs.v of the frames cluster (C10); AES-128-GCM as an AEAD that '
        'opens what it sealed and appends 16 bytes, TCP as an in-order byte stream; the adversarial theorems are C10',
        'Gen/Facts_chunks.v (largest payload a real pair of comms objects delivered, top of the chunk ladder) is measured by the chunks cluster (C11) harness']
    run.assumptions = ['times before the Unix epoch are outside the codec (serde refuses them; the channel send panics: defect F8, property C18)',
                       'regex compilation inside the Filters decoder and HashMap iteration order of ProfilingData are outside the model',
                       'one sender thread and one receiver thread per channel (Sender/Receiver are not Clone)',
                       'a message the protocol can produce carries at most one 4 MiB chunk and at most 4 MiB - 1 KiB of strings (theorems) / 96 KiB (oracle of the link driver); '
                       'larger single messages (up to the 8 MiB buffers) are compared with the model only']
    run.extra['rule'] = RULE
    binary = vlib.build_impl()
    vlib.regen_facts(binary)
    if not run.check_proofs('C14', THEOREMS, extra_targets=['theories/Extract/Ex_wire.vo']):
        vlib.build_coq(['theories/Extract/Ex_wire.vo'])      # the model still runs when a proof (or an obligation against the code) broke
    jbin = vlib.build_judge('wire')
    import time
    t0 = time.time()
    extra = run_corpus(run, binary, jbin)
    run_link(run, binary, jbin, run.tier)
    t1 = time.time()
    run_e2e(run, binary, run.tier)
    socket_options_leg(run, binary)
    t2 = time.time()
    run_bincode(run, binary, jbin, run.tier)
    t3 = time.time()
    run_channel(run, binary, jbin, run.tier, extra)
    vlib.log('legs: corpus+link %.1fs, e2e %.1fs, bincode %.1fs, channel %.1fs' % (t1 - t0, t2 - t1, t3 - t2, time.time() - t3))
    if run.tier == 'thorough':
        # the release build as well: usize arithmetic wraps instead of panicking there, and thread timing differs
        rbin = vlib.build_impl(release=True)
        before = run.evaluations
        # (the release profile has panic = "abort": the pre-epoch panic cannot be caught in-process there)
        run_bincode(run, rbin, jbin, 'quick', pre_epoch=False)
        run_channel(run, rbin, jbin, 'quick', extra)
        # (a panicking sending thread aborts the whole process there: the buffer-edge cases run on the debug build only)
        run_link(run, rbin, jbin, 'thorough', only=[r for r in link_requests(run, 'thorough') if r[1] != 'buffer-edge'])
        run_e2e(run, rbin, 'quick')
        run.count('cases-on-the-release-build', run.evaluations - before)
    # every case already ran the property oracle on the implementation; when only a proof obligation or a correspondence case
    # broke, look for a failing input among the largest messages that still count as legitimate
    return run.finish(search=lambda: search_link(run, binary))


def socket_options_leg(run, binary):
    """The model of the encrypted link (Model/RemoteSession.v, Model/Frame.v) has no deadline: a thread blocked in a socket read or
    write waits until data arrives or the connection closes, however long the other side stays silent (an unanswered prompt, a long
    listing on the other side).  Tie: one real remote sync under `strace -f -e trace=setsockopt`; neither the boss nor the doer may put
    a receive / send timeout on a socket.  When one does, the search holds the link idle for longer than that deadline on the real
    CLI (the doer process is stopped with SIGSTOP and continued) and reports the run that loses its messages."""
    import subprocess, tempfile, shutil, re as _re, signal, time as _t
    if not shutil.which('strace'):
        run.count('socket-options:strace-missing(skipped)')
        return
    tmp = tempfile.mkdtemp(prefix='c14so_', dir=vlib.CACHE)
    try:
        fake = e2e.fake_ssh_dir(tmp)
        os.makedirs(os.path.join(tmp, 's'))
        open(os.path.join(tmp, 's', 'f'), 'wb').write(b'x' * 70000)
        log = os.path.join(tmp, 'strace.log')
        r = e2e.run_cli(binary, ['localhost:' + tmp + '/s/', 'localhost:' + tmp + '/d/'], fake_ssh=fake, timeout=120,
                        prefix=['strace', '-f', '-e', 'trace=setsockopt', '-o', log])
        text = open(log, errors='replace').read() if os.path.exists(log) else ''
        if r['exit'] != 0 or 'setsockopt' not in text:
            run.count('socket-options:strace-unusable(skipped)')       # ptrace not permitted here: nothing to compare
            return
        opts = sorted(set(_re.findall(r'setsockopt\(\d+, \w+, (\w+)', text)))
        run.count('socket-options:runs')
        run.case(('socket-options', tuple(opts)), True, sample={'socket_options_set': opts})
        run.traces_validated += 1
        deadlines = []
        for name, val in _re.findall(r'setsockopt\(\d+, SOL_SOCKET, (SO_RCVTIMEO\w*|SO_SNDTIMEO\w*), ([^)]*)\)', text):
            m = _re.search(r'tv_sec=(\d+)', val)
            if m:
                sec = int(m.group(1))
            else:
                m = _re.search(r'"((?:[^"\\]|\\.)*)"', val)
                try:
                    raw = m.group(1).encode('latin1').decode('unicode_escape').encode('latin1') if m else b''
                    sec = int.from_bytes(raw[:8].ljust(8, b'\0'), 'little')
                except Exception:
                    sec = 0
            deadlines.append((name, sec))
        if not deadlines:
            return
        secs = max(x[1] for x in deadlines)
        run.broke('correspondence', 'socket-options', 'a socket of the boss-doer link is given a deadline (%s): the model has none' % ', '.join('%s=%ss' % d for d in deadlines[:4]))
        if secs > 100:
            return
        # search: hold the link idle for longer than the deadline
        src = os.path.join(tmp, 'big')
        os.makedirs(src)
        with open(os.path.join(src, 'sparse'), 'wb') as f:
            f.truncate(600 * 1024 * 1024)
        e = dict(os.environ, PATH=fake + os.pathsep + os.environ.get('PATH', ''), FAKE_SSH_BINARY=binary, NO_COLOR='1')
        p = subprocess.Popen([binary, src + '/', 'localhost:' + tmp + '/bigd/'], env=e, stdout=subprocess.PIPE, stderr=subprocess.STDOUT, start_new_session=True)
        _t.sleep(0.5)
        doers = [int(x) for x in subprocess.run(['pgrep', '-g', str(os.getpgid(p.pid)), '-f', '--', '--doer'], stdout=subprocess.PIPE, text=True).stdout.split()]
        for d in doers:
            os.kill(d, signal.SIGSTOP)
        _t.sleep(secs + 3)
        for d in doers:
            try:
                os.kill(d, signal.SIGCONT)
            except ProcessLookupError:
                pass
        try:
            out, _ = p.communicate(timeout=240)
        except subprocess.TimeoutExpired:
            os.killpg(p.pid, 9)
            out, _ = p.communicate()
        if doers and p.returncode != 0:
            run.fail('C14 (idle link): the doer was silent for %d s (stopped and continued) and the messages in flight were lost: exit %s: %s' % (
                secs + 3, p.returncode, out.decode('utf-8', 'replace')[-300:]), {'driver': 'idle-link', 'idle_s': secs + 3, 'deadlines': deadlines[:4]})
    finally:
        shutil.rmtree(tmp, ignore_errors=True)


def replay(run, path):
    """Re-run exactly the recorded case (a codec request or a channel schedule) on the implementation and the model."""
    r = json.load(open(path))
    print(json.dumps(r, indent=1)[:4000])
    if r.get('driver') not in ('bincode', 'channel', 'link', 'e2e'):
        return check(run)
    run.trusted = list(vlib.COMMON_TRUSTED)
    run.extra['rule'] = 'replay of one recorded case'
    binary = vlib.build_impl()
    vlib.regen_facts(binary)
    if not run.check_proofs('C14', THEOREMS, extra_targets=['theories/Extract/Ex_wire.vo']):
        vlib.build_coq(['theories/Extract/Ex_wire.vo'])
    jbin = vlib.build_judge('wire')
    if r['driver'] == 'link':
        run_link(run, binary, jbin, run.tier, only=[(r['request'], r.get('kind', 'replay'))])
        il = vlib.harness(binary, 'link', [r['request']], args=['20000'], timeout=900)
        print('impl : ' + (il[0] if il else '')[:600])
    elif r['driver'] == 'e2e':
        run_e2e(run, binary, run.tier, only=[r['scenario']])
    elif r['driver'] == 'bincode':
        line = r['request']
        il = vlib.harness(binary, 'bincode', [line])[0]
        ml = W.judge(jbin, [line])[0]
        print('impl : ' + il[:400]); print('model: ' + ml[:400])
        run.case(line, True, sample={'request': line[:200], 'impl': il[:200], 'model': ml[:200]})
        run.traces_validated += 1
        bad = None
        if line.startswith('E '):
            pl = None
            toks = line.split()
            for t in toks:
                if ':' in t and toks[2] in ('CreateOrUpdateFile', 'FileContent') and t.split(':')[0].isdigit() and pl is None:
                    pl = tuple(int(x) for x in t.split(':'))
            pre = any(t.startswith('-') and ':' in t for t in toks)
            bad = bincode_oracle({'pre': pre, 'payload': pl}, il)
        if bad:
            run.fail('C14 codec: ' + bad, {'driver': 'bincode', 'request': line, 'impl': il[:400]})
        elif il != ml:
            run.broke('correspondence', 'bincode-replay', json.dumps({'request': line[:300], 'impl': il[:600], 'model': ml[:600]}))
    else:
        line = r['schedule']
        toks = line.split()
        il = vlib.harness(binary, 'channel', [line], args=['600'], timeout=900)
        il = il[0] if il else 'SKIPPED'
        print('impl : ' + il[:400])
        run.case(line, True, sample={'schedule': line[:200], 'impl': il[:200]})
        run.traces_validated += 1
        if toks[0] == 'S':
            ml = W.judge(jbin, [line])[0]
            print('model: ' + ml[:400])
            cap, ops = int(toks[1]), toks[2:]
            bad = 'a blocked sender never got through although the receiver drained the channel (deadlock)' if il.endswith('HUNG') else single_oracle(cap, ops, il)
            if bad:
                run.fail('C14 channel: ' + bad, {'driver': 'channel', 'schedule': line, 'impl': il})
            elif il != ml:
                run.broke('correspondence', 'channel-replay', json.dumps({'schedule': line[:600], 'impl': il[:600], 'model': ml[:600]}))
        else:
            cap, seed, k, sizes = int(toks[1]), int(toks[2]), int(toks[3]), [int(x) for x in toks[4:]]
            two_thread_verdict(run, cap, k, sizes, line, il)
    return run.finish(search=None)
