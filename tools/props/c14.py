"""C14 - Messages arrive exactly once, in order and intact, with bounded buffering.

Proof: Props/C14.v over Model/Bincode.v (message codec) and Model/Channel.v (byte-accounted channel as an
interleaving transition system).  Tie:
  * `unit bincode`: the real serde/bincode code on real Command/Response values (every variant, payload sizes
    0 .. 4 MiB+1, times before the epoch) against the extracted `encode`/`serialized_size`/`decode`, byte for byte;
    the decoder also on truncated / mutated / hand-made byte strings;
  * `unit channel`: operation sequences on the real memory_bound_channel (capacities 0, 1, smaller than one
    message, exactly one message, large) against the extracted step function under the same schedule, plus
    two-thread runs with many messages.
The property oracle (exactly once, in order, intact; blocked only while more than the capacity is queued;
oversize admitted when empty; drained -> 0) is evaluated in python on what the implementation did.
The TCP leg (frame codec) belongs to the frames cluster (C10, Model/Frame.v)."""
import os, sys, json, glob
import vlib, wire_lib as W

THEOREMS = []

RULE = ('bincode: every Command/Response variant with random field values from boundary sets (u32/u64 extremes, '
        'UTF-8 of every width, times 0 .. i64::MAX and before the epoch), payload lengths 0,1,..,65536 and 4 MiB-1, 4 MiB, '
        '4 MiB+1; decoder on the encodings, their truncations, single-byte mutations, cross-type decodes and hand-made corner '
        'cases; a case is non-trivial when the message has at least one field; distinct by request line. ')


# ------------------------------------------------------------------------------------------------
def bincode_requests(run, tier):
    rng = run.rng
    reqs = []     # (line, meta)
    per = 6 if tier == 'quick' else 60
    for v in W.COMMANDS:
        for _ in range(per):
            line, pl = W.gen_command(rng, v)
            reqs.append(('E ' + line, {'kind': 'cmd', 'variant': v, 'payload': pl, 'pre': False}))
    for v in W.RESPONSES:
        for _ in range(per):
            line, pl = W.gen_response(rng, v)
            reqs.append(('E ' + line, {'kind': 'resp', 'variant': v, 'payload': pl, 'pre': False}))
    # every small payload size, both carriers
    for sz in W.SMALL_SIZES:
        line, pl = W.gen_command(rng, 'CreateOrUpdateFile', size=sz)
        reqs.append(('E ' + line, {'kind': 'cmd', 'variant': 'CreateOrUpdateFile', 'payload': pl, 'pre': False}))
        line, pl = W.gen_response(rng, 'FileContent', size=sz)
        reqs.append(('E ' + line, {'kind': 'resp', 'variant': 'FileContent', 'payload': pl, 'pre': False}))
    # the chunk-size boundary
    for sz in W.BIG_SIZES:
        for _ in range(1 if tier == 'quick' else 3):
            line, pl = W.gen_command(rng, 'CreateOrUpdateFile', size=sz)
            reqs.append(('E ' + line, {'kind': 'cmd', 'variant': 'CreateOrUpdateFile', 'payload': pl, 'pre': False, 'big': True}))
            line, pl = W.gen_response(rng, 'FileContent', size=sz)
            reqs.append(('E ' + line, {'kind': 'resp', 'variant': 'FileContent', 'payload': pl, 'pre': False, 'big': True}))
    # times before the epoch (defect F8 of C18: serialization fails, the channel send panics)
    for _ in range(4 if tier == 'quick' else 20):
        line, pl = W.gen_command(rng, 'CreateOrUpdateFile', pre=True)
        reqs.append(('E ' + line, {'kind': 'cmd', 'variant': 'CreateOrUpdateFile', 'payload': pl, 'pre': True}))
        line, pl = W.gen_response(rng, 'Entry', pre=True)
        reqs.append(('E ' + line, {'kind': 'resp', 'variant': 'Entry', 'payload': pl, 'pre': True}))
        line, pl = W.gen_response(rng, 'RootDetails', pre=True)
        reqs.append(('E ' + line, {'kind': 'resp', 'variant': 'RootDetails', 'payload': pl, 'pre': True}))
    return reqs


def parse_enc(line):
    """'OK size=.. send=.. rt=.. hex' -> dict"""
    t = line.split(' ')
    d = {'cls': t[0]}
    for x in t[1:]:
        if '=' in x:
            k, v = x.split('=', 1)
            d[k] = v
        else:
            d['hex'] = x
    return d


def bincode_oracle(meta, impl):
    """The property on what the implementation did with one message: it must come out of the codec and out of
    a real channel bit-identical, and the accounted size must be its serialized size."""
    d = parse_enc(impl)
    if meta['pre']:
        return None      # outside the codec's domain (times before the epoch: F8, property C18)
    if d['cls'] != 'OK' or 'hex' not in d:
        return 'a valid message was not serialized: ' + impl[:80]
    nbytes = 0 if d['hex'] == '-' else len(d['hex']) // 2
    if d.get('rt') != '1':
        return 'deserialize(serialize(m)) is not m'
    if d.get('size') != str(nbytes):
        return 'serialized_size %s but %d bytes were written' % (d.get('size'), nbytes)
    if d.get('send') != str(nbytes):
        return 'channel send/recv did not deliver the message intact with its size accounted: send=%s' % d.get('send')
    if meta['payload'] is not None:
        ln, seed = meta['payload']
        if W.payload(ln, seed).hex() not in (d['hex'] if d['hex'] != '-' else ''):
            return 'payload bytes are not in the serialized message'
    return None


def run_bincode(run, binary, jbin, tier):
    reqs = bincode_requests(run, tier)
    lines = [r[0] for r in reqs]
    impl = vlib.harness(binary, 'bincode', lines, timeout=900)
    model = W.judge(jbin, lines)
    if len(impl) != len(lines) or len(model) != len(lines):
        raise vlib.BrokenTie('bincode: %d requests, %d impl answers, %d model answers' % (len(lines), len(impl), len(model)))
    small_encodings = []
    for (line, meta), il, ml in zip(reqs, impl, model):
        run.count('bincode:%s:%s' % (meta['kind'], meta['variant']))
        if meta['payload'] is not None:
            run.count('payload-len:%d' % meta['payload'][0])
        if meta['pre']:
            run.count('bincode:pre-epoch')
        nontrivial = len(line.split()) > 3
        run.case(line, nontrivial, sample={'request': line[:200], 'impl': il[:200], 'model': ml[:200]})
        run.traces_validated += 1
        bad = bincode_oracle(meta, il)
        if bad:
            run.fail('C14 codec: ' + bad, {'driver': 'bincode', 'request': line, 'impl': il[:400]})
        elif il != ml:
            run.broke('correspondence', 'bincode-encode', json.dumps({'request': line[:300], 'impl': il[:600], 'model': ml[:600]}))
        d = parse_enc(il)
        if d['cls'] == 'OK' and 'hex' in d and len(d['hex']) < 1400 and d['hex'] != '-':
            small_encodings.append(('C' if meta['kind'] == 'cmd' else 'R', bytes.fromhex(d['hex'])))
    run_decode(run, binary, jbin, tier, small_encodings)


def run_decode(run, binary, jbin, tier, encs):
    rng = run.rng
    cases = []       # (type, bytes, kind)
    for ty, b, note in W.crafted_decodes():
        cases.append((ty, b, 'crafted'))
    pick = encs if tier == 'thorough' else rng.sample(encs, min(len(encs), 80))
    for ty, b in pick:
        cases.append((ty, b, 'as-is'))
        cases.append(('R' if ty == 'C' else 'C', b, 'cross-type'))
        cases.append((ty, b + bytes(rng.randrange(256) for _ in range(rng.choice([1, 3, 9]))), 'trailing'))
        for _ in range(2 if tier == 'quick' else 6):
            cases.append((ty, b[:rng.randrange(len(b))], 'truncated'))
        for _ in range(4 if tier == 'quick' else 12):
            i = rng.randrange(len(b))
            m = bytearray(b)
            m[i] = rng.choice([0, 1, 2, 0x7f, 0x80, 0xff, m[i] ^ (1 << rng.randrange(8)), rng.randrange(256)])
            cases.append((ty, bytes(m), 'mutated'))
    lines = ['D %s %s' % (ty, W.hexs(b)) for ty, b, _ in cases]
    impl = vlib.harness(binary, 'bincode', lines, timeout=900)
    model = W.judge(jbin, lines)
    if len(impl) != len(lines) or len(model) != len(lines):
        raise vlib.BrokenTie('bincode decode: %d requests, %d impl answers, %d model answers' % (len(lines), len(impl), len(model)))
    for (ty, b, kind), line, il, ml in zip(cases, lines, impl, model):
        run.count('decode:' + kind)
        run.count('decode-impl:' + il.split(' ')[0])
        run.case(line, len(b) > 4)
        run.traces_validated += 1
        if il == ml:
            continue
        variant = int.from_bytes(b[:4], 'little') if len(b) >= 4 else -1
        if ty == 'C' and variant == 1 and il == 'ERR' and ml.startswith('OK'):
            run.count('decode:regex-compile-outside-model')     # a pattern that does not compile (see Model/Bincode.v)
            continue
        if ty == 'R' and variant == 5 and il.startswith('OK') and ml.startswith('OK') and len(b) >= 24 and int.from_bytes(b[16:24], 'little') >= 2:
            run.count('decode:hashmap-order-outside-model')     # >= 2 threads: HashMap order / duplicate keys
            continue
        run.broke('correspondence', 'bincode-decode', json.dumps({'request': line[:600], 'impl': il[:600], 'model': ml[:600], 'kind': kind}))
        if kind == 'as-is' and not il.startswith('OK'):
            run.fail('C14 codec: the encoding of a valid message does not decode', {'driver': 'bincode', 'request': line})


# ------------------------------------------------------------------------------------------------
def run_corpus(run, binary, jbin):
    for path in sorted(glob.glob(os.path.join(vlib.VERIF, 'corpus', 'C14', '*.json'))):
        c = json.load(open(path))
        run.count('corpus')
        if c.get('driver') == 'bincode':
            lines = c['requests']
            impl = vlib.harness(binary, 'bincode', lines)
            model = W.judge(jbin, lines)
            for line, il, ml in zip(lines, impl, model):
                run.case(line, True)
                run.traces_validated += 1
                if line.startswith('E '):
                    bad = bincode_oracle({'pre': c.get('pre_epoch', False), 'payload': None}, il)
                    if bad:
                        run.fail('C14 codec (corpus %s): %s' % (os.path.basename(path), bad), {'driver': 'bincode', 'request': line, 'impl': il[:400]})
                        continue
                if il != ml:
                    run.broke('correspondence', 'corpus-' + os.path.basename(path), json.dumps({'request': line[:300], 'impl': il[:600], 'model': ml[:600]}))


def check(run):
    run.trusted = list(vlib.COMMON_TRUSTED) + [
        'modelled, not verified: serde derive + bincode 1.3.3 (checked byte for byte on sampled messages), std SystemTime/Duration arithmetic, '
        'crossbeam-channel (assumed FIFO and linearizable), per-location coherence of the relaxed atomic counter, real thread timing (sampled)',
        'the TCP leg (frame codec, AEAD, nonce) is covered by the frames cluster (C10, Model/Frame.v), not here']
    run.assumptions = ['times before the Unix epoch are outside the codec (serde refuses them; the channel send panics: defect F8, property C18)',
                       'regex compilation inside the Filters decoder and HashMap iteration order of ProfilingData are outside the model',
                       'one sender thread and one receiver thread per channel (Sender/Receiver are not Clone)']
    run.extra['rule'] = RULE
    binary = vlib.build_impl()
    vlib.regen_facts(binary)
    run.check_proofs('C14', THEOREMS, extra_targets=['theories/Extract/Ex_wire.vo'])
    jbin = vlib.build_judge('wire')
    run_corpus(run, binary, jbin)
    run_bincode(run, binary, jbin, run.tier)
    return run.finish(search=None)     # every case already ran the property oracle on the implementation


def replay(run, path):
    r = json.load(open(path))
    print(json.dumps(r, indent=1)[:4000])
    return check(run)
