"""C15 - A remote doer is used only after a version match; deployment needs consent.

Proof: Props/C15.v (Model/KeyHex.v, Model/Handshake.v, Model/Launch.v, Model/LaunchSystem.v).
Tie (all through the real code, hook-free except for two accessors):
  unit keyhex   the boss-side `format!("{:x}\n", key)` on chosen keys (accessor) and a *real* `--doer`
                process that is fed the line and then talked to with a boss-side AsyncEncryptedComms
                keyed with the original bytes; malformed key lines too.
  launch        the real `launch_doer_via_ssh` (accessor) against a *scripted* fake ssh: arbitrary
                event sequences, the order in which the loop saw them is recovered from its log
                records; result, key writes and their position are compared with the extracted automaton.
  e2e           the real CLI with fake ssh/scp playing one or two remote hosts (absent / same version /
                other version / broken), every deploy behaviour and prompt answer, a real `--doer` behind
                a wrapper that forwards its four handshake lines in every causally possible order with
                noise; compared with the extracted setup_comms model.
The property oracle is evaluated from the property text on what the fake tools logged."""
import os, sys, json, tempfile, shutil, itertools, re, time
from concurrent.futures import ThreadPoolExecutor
import vlib, e2e
import launch_lib as L

THEOREMS = ['C15_key_roundtrip', 'C15_key_line_roundtrip', 'C15_key_print_width', 'C15_key_print_injective',
            'C15_prefixes_of_code', 'C15_handshake', 'C15_no_key_on_mismatch', 'C15_key_only_after_match',
            'C15_success_only_after_match', 'C15_deploy_consent', 'C15_no_consent_no_upload', 'C15_retry_once',
            'C15_deploy_never_panics', 'C15_traffic_only_after_match', 'C15_both_doers',
            'C15_system_safe', 'C15_system_progress', 'C15_system_terminates']

MARKERS = ['No such file or directory', 'The system cannot find the path specified',
           'is not recognized as an internal or external command']
WORKERS = min(12, os.cpu_count() or 4)


def hx(b):
    if isinstance(b, str):
        b = b.encode('utf-8', 'surrogateescape')
    return b.hex() if b else '-'


def unhx(h):
    return b'' if h == '-' else bytes.fromhex(h)


class Ctx:
    pass


def key_line_ok(k):
    """The line denotes a 128-bit value in hexadecimal (whatever the case or padding chosen by the code)."""
    return bool(re.fullmatch(r'[0-9a-fA-F]+', k)) and int(k, 16) < 2 ** 128


# =================================================================================================
# 1. key codec
EDGE_KEYS = (['00' * 16, 'ff' * 16, '00' * 15 + '01', '01' + '00' * 15, '00' * 8 + 'ff' * 8, 'ff' * 8 + '00' * 8,
              '0f' * 16, 'f0' * 16, '00' + 'ff' * 15, 'ff' * 15 + '00', '000102030405060708090a0b0c0d0e0f',
              '7f' + 'ff' * 15, '80' + '00' * 15, '0a' * 16, '00' * 15 + '0a']
             + ['%02x' % i + 'a5' * 15 for i in range(16)]           # first byte 0x00..0x0f: leading zero nibble
             + ['00' * i + 'c3' * (16 - i) for i in range(1, 16)])   # 1..15 leading zero bytes

BAD_LINES = ['', '+', '-', '+1', '-1', '0', '00', 'f', 'F', 'Ff', 'g', '0x10', ' 1', '1 ', '1\r', 'ff' * 16 + '0', '0' + 'ff' * 16,
             '1' + '00' * 16, '0' * 40 + '1', '+' + 'ff' * 16, '++1', '+-1', 'DEADBEEF', 'deadbeef', '12_34', '١٢', 'é',
             'ff' * 15, 'ff' * 17, '0' * 33, 'f' * 33, '/', ':', '@', 'G', '`', 'a' * 32, 'A' * 32, '+' + '0' * 40]


def key_cases(run, ctx, tier):
    rng = run.rng
    keys = list(EDGE_KEYS)
    n_rand = 40 if tier == 'quick' else 600
    for _ in range(n_rand):
        k = bytearray(rng.getrandbits(8) for _ in range(16))
        z = rng.random()
        if z < 0.3:
            for i in range(rng.randrange(1, 16)):
                k[i] = 0
        elif z < 0.4:
            k[0] &= 0x0f
        keys.append(bytes(k).hex())
    for c in ctx.corpus:
        if c.get('kind') == 'key':
            keys.insert(0, c['key'])
    lines = list(BAD_LINES)
    n_bad = 20 if tier == 'quick' else 300
    alphabet = '0123456789abcdefABCDEF+-gG xX_'
    for _ in range(n_bad):
        n = rng.choice([1, 2, 5, 16, 31, 32, 32, 33, 34, 40])
        s = ''.join(rng.choice(alphabet[:22] if rng.random() < 0.7 else alphabet) for _ in range(n))
        lines.append(s)
    for c in ctx.corpus:
        if c.get('kind') == 'keyline':
            lines.insert(0, c['line'])
    # --- formatting: real LowerHex of the generic array vs print_hex
    impl_f = vlib.harness(ctx.binary, 'keyhex', ['F ' + k for k in keys])
    model_f = vlib.judge(ctx.jbin, ['K ' + k for k in keys])
    # --- parsing: the model says which bytes a doer makes of each line
    fmt_lines = [unhx(f)[:-1] if unhx(f).endswith(b'\n') else unhx(f) for f in impl_f]      # what the doer sees after pop()
    all_lines = [(l, k) for l, k in zip(fmt_lines, keys)] + [(s.encode(), None) for s in lines]
    model_p = vlib.judge(ctx.jbin, ['P ' + hx(l) for l, _ in all_lines])
    reqs = []
    for (l, k), mp in zip(all_lines, model_p):
        if k is not None:
            reqs.append('D %s %s' % (hx(l), k))              # the round trip: talk with the *original* key
        elif mp.startswith('ACCEPT '):
            reqs.append('D %s %s' % (hx(l), mp.split()[1]))  # talk with the key the model predicts
        else:
            reqs.append('D %s -' % hx(l))
    # real doer processes, a few harness processes in parallel
    chunks = [reqs[i::WORKERS] for i in range(WORKERS)]
    with ThreadPoolExecutor(WORKERS) as ex:
        outs = list(ex.map(lambda ch: vlib.harness(ctx.binary, 'keyhex', ch, timeout=900) if ch else [], chunks))
    impl_d = [None] * len(reqs)
    for w, o in enumerate(outs):
        for j, line in enumerate(o):
            impl_d[w + j * WORKERS] = line
    for k, fi, fm in zip(keys, impl_f, model_f):
        run.count('key:format')
        run.traces_validated += 1
        if fi != fm:
            run.broke('correspondence', 'keyhex-format', json.dumps({'key': k, 'impl': fi, 'model': fm}))
    for (l, k), mp, di in zip(all_lines, model_p, impl_d):
        run.traces_validated += 1
        lead = None
        if k is not None:
            lead = (len(k) - len(k.lstrip('0'))) // 2
            run.count('key:roundtrip lead0=%s' % ('0' if lead == 0 else '1-3' if lead < 4 else '4-15' if lead < 16 else '16'))
            run.case(('key', k), True, sample={'kind': 'key', 'key': k, 'line': l.decode('latin1'), 'doer': di, 'model': mp})
            # property oracle: the doer reconstructs the key bit-exactly (it can talk to a peer holding the original bytes)
            if di != 'ACCEPT talk=1':
                run.fail('C15 oracle: a real doer fed the boss-formatted key %s does not end up with that key: %s' % (k, di),
                         {'kind': 'key', 'key': k, 'line': l.decode('latin1'), 'doer': di})
            if mp != 'ACCEPT ' + k:
                run.broke('correspondence', 'keyhex-roundtrip-model', json.dumps({'key': k, 'model': mp}))
        else:
            run.count('key:malformed ' + ('accepted' if mp.startswith('ACCEPT') else 'rejected'))
            run.case(('keyline', l), mp.startswith('ACCEPT'), sample=None)
            want = 'ACCEPT talk=1' if mp.startswith('ACCEPT') else 'REJECT 23'
            if di != want:
                run.broke('correspondence', 'keyhex-parse', json.dumps({'line': l.decode('latin1'), 'model': mp, 'impl': di}))


# =================================================================================================
# 2. scripted launches against the real launch_doer_via_ssh
def is_noise_text(ctx, t):
    """Noise by the property text: starts with neither handshake prefix, contains none of the markers."""
    return not t.startswith(ctx.sp) and not t.startswith(ctx.cp) and not any(m in t for m in MARKERS)


NOISE = ['Warning: Permanently added the ECDSA host key', '', ' ', 'Last login: Mon', 'rjrssync doer', 'rjrssync doer V0.0',
         ' rjrssync doer v0.0.0', 'Waiting for incoming network connection on port', 'waiting for incoming network connection on port 5',
         'No such file', 'no such file or directory', 'X11 forwarding request failed', '1700000000 DEBUG rjrssync::doer Listening on 0.0.0.0:4',
         'doer v', 'v', 'x' * 300, 'café ☃']


def started(ctx, v=None):
    return ctx.sp + (ctx.version if v is None else v)


def completed(ctx, p='40123'):
    return ctx.cp + str(p)


def script_streams(steps):
    """Bytes written to each stream by a script, as the list of reads a reader thread would make."""
    data = {'o': b'', 'e': b''}
    for st in steps:
        if st[0] in ('o', 'e'):
            data[st[0]] += st[1].encode('utf-8', 'surrogateescape') + b'\n'
        elif st[0] in ('O', 'E'):
            data[st[0].lower()] += bytes.fromhex(st[1])
        elif st[0] == 'x':
            break
    out = {}
    for s in ('o', 'e'):
        reads, rest = [], data[s]
        while rest:
            i = rest.find(b'\n')
            seg, rest = (rest, b'') if i < 0 else (rest[:i + 1], rest[i + 1:])
            try:
                seg.decode('utf-8')
                reads.append('L' + seg.hex())
            except UnicodeDecodeError:
                reads.append('ERR')
                break
        else:
            reads.append('EOF')
        if reads[-1] != 'ERR' and reads[-1] != 'EOF':
            reads.append('EOF')
        out[s] = reads
    return out


def causal_scripts(ctx, rng, n_noise_variants):
    """In-domain scripts: the four lines in every causally possible order, with noise on both streams."""
    res = []
    for order in L.HANDSHAKE_ORDERS:
        for nv in range(n_noise_variants):
            port = rng.choice([1, 80, 1024, 40123, 65535, 5, 60000])
            steps, key_done = [], False
            dens = [0.0, 0.3, 0.8][nv % 3] if nv < 3 else rng.random()
            def noise():
                k = 0
                while rng.random() < dens and k < 4:       # bounded: every line costs one write gap
                    steps.append([rng.choice('oe'), rng.choice(NOISE)]); k += 1
            for tok in order:
                noise()
                if tok[0] == 'C' and not key_done:
                    steps.append(['k']); key_done = True
                    noise()
                steps.append([tok[1], started(ctx) if tok[0] == 'S' else completed(ctx, port)])
            res.append({'kind': 'script', 'family': 'causal', 'order': ''.join(order), 'steps': steps, 'announced': ctx.version,
                        'port': port, 'in_domain': True})
    return res


def adversarial_scripts(ctx, rng, n_random):
    S, C = started(ctx), completed(ctx)
    v = ctx.version
    res = []

    def add(family, steps, announced=None):
        res.append({'kind': 'script', 'family': family, 'steps': steps, 'announced': announced, 'in_domain': False})
    # other versions: exact string comparison
    for ov in ['9.9.9', v + 'x', v[:-1], v.upper() if v.upper() != v else v.lower(), ' ' + v, v + ' ', '', v.replace('+', ' '), 'v' + v, v + '\r', v + '+profiling']:
        for first in ('o', 'e'):
            other = 'e' if first == 'o' else 'o'
            add('mismatch', [[first, started(ctx, ov)], [other, started(ctx, ov)], ['k'], ['o', C], ['e', C]], announced=ov)
        add('mismatch-noise', [['e', 'motd'], ['o', 'banner'], ['o', started(ctx, ov)], ['e', started(ctx, ov)], ['k']], announced=ov)
    # the two streams disagree
    add('split-version', [['o', S], ['k'], ['e', started(ctx, '9.9.9')], ['o', C], ['e', C]], announced=v)
    add('split-version', [['e', started(ctx, '9.9.9')], ['o', S], ['k']], announced='9.9.9')
    # markers at every position
    for m in MARKERS:
        for pos in range(5):
            for s in 'oe':
                base = [['o', S], ['e', S], ['k'], ['o', C], ['e', C]]
                base.insert(pos if pos < 2 else pos + 1 if pos < 4 else 6, [s, 'bash: ' + m + ' here'])
                add('marker', base, announced=v)
        add('marker-only', [['e', 'sh: 1: ' + m], ['x', 127]])
    # bad ports
    for p in ['', ' ', '65536', '65535', '0', '+80', '-1', ' 80', '80 ', '0080', '8o', '99999999999999999999', '80\r', '+', '４２']:
        add('port', [['o', S], ['e', S], ['k'], ['o', ctx.cp + p], ['e', ctx.cp + p]], announced=v)
        add('port-mixed', [['o', S], ['e', S], ['k'], ['o', completed(ctx, 4000)], ['e', ctx.cp + p]], announced=v)
    # non-causal and degenerate sequences
    add('completed-first', [['o', C], ['e', C], ['o', S], ['e', S], ['k']], announced=v)
    add('completed-first', [['o', C], ['e', S], ['e', C]], announced=v)
    add('stderr-only', [['e', S], ['e', C], ['k']], announced=v)
    add('stdout-only', [['o', S], ['k'], ['o', C]], announced=v)
    add('double-started', [['o', S], ['k'], ['o', S], ['k'], ['e', S], ['o', C], ['e', C]], announced=v)
    add('double-started-stderr', [['e', S], ['e', S], ['o', S], ['k'], ['o', C], ['e', C]], announced=v)
    add('nothing', [])
    add('nothing', [['x', 0]])
    add('nothing', [['x', 255]])
    add('only-noise', [['o', 'hello'], ['e', 'world']])
    add('close-early', [['co'], ['e', S], ['ce']], announced=v)
    add('close-early', [['ce'], ['o', S], ['k'], ['o', C]], announced=v)
    add('close-early', [['o', S], ['k'], ['co'], ['e', S], ['e', C]], announced=v)
    add('unterminated', [['o', S], ['e', S], ['k'], ['o', C], ['E', hx(C)]], announced=v)
    add('unterminated', [['E', hx(S)], ['O', hx(S)]], announced=v[:-1])
    add('unterminated', [['O', hx('No such file or directoryX')]])
    add('invalid-utf8', [['O', 'fffe0a'], ['e', S]], announced=v)
    add('invalid-utf8', [['o', S], ['k'], ['E', 'c3280a'], ['o', C]], announced=v)
    add('invalid-utf8', [['e', 'fine'], ['E', hx(S) + 'ff0a']], announced=None)
    add('prefix-in-middle', [['o', 'x' + S], ['e', ' ' + C], ['o', S], ['e', S], ['k'], ['o', C], ['e', C]], announced=v)
    add('crlf', [['o', S + '\r'], ['e', S + '\r']], announced=v + '\r')
    add('started-after-completed', [['o', S], ['e', S], ['k'], ['o', C], ['e', C], ['e', started(ctx, '9.9.9')]], announced=v)
    # random sequences over the interesting alphabet
    alpha = [S, S, C, C, started(ctx, '9.9.9'), ctx.cp + '70000', 'x ' + MARKERS[0], 'noise', '', S + ' ', 'rjrssync doer']
    for _ in range(n_random):
        steps, n = [], rng.randrange(1, 8)
        for _ in range(n):
            z = rng.random()
            if z < 0.12:
                steps.append(['k'])
            elif z < 0.16:
                steps.append([rng.choice(['co', 'ce'])])
            else:
                steps.append([rng.choice('oe'), rng.choice(alpha)])
        # a closed stream cannot be written to
        seen, clean = set(), []
        for st in steps:
            if st[0] in ('co', 'ce'):
                if st[0] in seen:
                    continue
                seen.add(st[0])
            if st[0] == 'o' and 'co' in seen or st[0] == 'e' and 'ce' in seen:
                continue
            clean.append(st)
        fs = [st[1] for st in clean if st[0] in 'oe' and st[1].startswith(ctx.sp)]
        add('random', clean, announced=fs[0][len(ctx.sp):] if fs else None)
    return res


def run_script_case(ctx, case, idx):
    base = tempfile.mkdtemp(prefix='s%d_' % idx, dir=ctx.tmp)
    plan = {'gap_ms': ctx.gap_ms, 'key_wait_ms': 350, 'hosts': {'fakehost': {'launches': [{'mode': 'script', 'steps': case['steps']}]}}}
    env, logf, leaks = L.fake_env(base, ctx.fakebin, plan, 'p', ctx.sp, ctx.cp)
    t0 = time.time()
    try:
        out = vlib.harness(ctx.binary, 'launch', None, args=['fakehost', '-'], timeout=60, env=env)
    except Exception as e:        # a hang or crash of the launch loop
        out = ['RESULT HARNESS-FAILED %s' % str(e)[:200]]
    log = L.wait_launch_ends(logf)
    shutil.rmtree(base, ignore_errors=True)
    return out, log, time.time() - t0


def judge_script_case(run, ctx, case, out, log):
    events, result = [], None
    for l in out:
        t = l.split()
        if t[0] == 'EVENT':
            events.append((t[1], t[2], t[3]))
        elif t[0] == 'RESULT':
            result = t[1:]
    keys = [d['line'] for d in log if d.get('ev') == 'key']
    # -- events in the order the loop saw them -> model events; positions of the key writes
    mev, wpos, alldone = [], [], False
    for kind, s, text in events:
        if kind == 'keywrite':
            wpos.append(len(mev) - 1)
        elif kind == 'alldone':
            alldone = True
        else:
            mev.append('%s:%s:%s' % ('o' if s == 'stdout' else 'e', kind, text))
    streams = script_streams(case['steps'])
    wok = 0 if (events and events[-1][0] == 'keywrite' and result and result[0] == 'COMMERR') else 1
    req = ['R ' + ' '.join(streams['o']), 'R ' + ' '.join(streams['e']), 'H %d %s' % (wok, ' '.join(mev))]
    # the one message the loop does not log is a read error: it is the next unseen message of a stream
    exp = {}
    return events, result, keys, mev, wpos, wok, req, streams


def script_cases(run, ctx, tier):
    rng = run.rng
    cases = [c for c in ctx.corpus if c.get('kind') == 'script']
    cases += causal_scripts(ctx, rng, 3 if tier == 'quick' else 40)
    cases += adversarial_scripts(ctx, rng, 40 if tier == 'quick' else 1200)
    with ThreadPoolExecutor(WORKERS) as ex:
        results = list(ex.map(lambda ic: run_script_case(ctx, ic[1], ic[0]), enumerate(cases)))
    # one judge call for everything
    prepared, reqs = [], []
    for case, (out, log, wall) in zip(cases, results):
        p = judge_script_case(run, ctx, case, out, log)
        prepared.append(p)
        reqs += p[6]
    ans = vlib.judge(ctx.jbin, ctx.cfg_line + reqs)[1:]
    retry = []
    for i, (case, (out, log, wall), p) in enumerate(zip(cases, results, prepared)):
        events, result, keys, mev, wpos, wok, req, streams = p
        r_o, r_e, h = ans[3 * i], ans[3 * i + 1], ans[3 * i + 2]
        retry.append(None)
        # the unlogged read error: append it when the model ran out of events but the script has one pending
        if result and result[0] == 'COMMERR' and not h.startswith('COMMERR'):
            for s, exp in (('o', r_o), ('e', r_e)):
                seen = len([m for m in mev if m.startswith(s + ':')])
                expm = exp.split()
                if seen < len(expm) and expm[seen] == 'error:-':
                    retry[-1] = 'H %d %s' % (wok, ' '.join(mev + ['%s:error:-' % s]))
    again = [r for r in retry if r]
    ans2 = iter(vlib.judge(ctx.jbin, ctx.cfg_line + again)[1:]) if again else iter([])
    n_order_as_written = 0
    for i, (case, (out, log, wall), p) in enumerate(zip(cases, results, prepared)):
        events, result, keys, mev, wpos, wok, req, streams = p
        r_o, r_e, h = ans[3 * i], ans[3 * i + 1], ans[3 * i + 2]
        if retry[i]:
            h = next(ans2)
        run.count('script:' + case['family'])
        run.traces_validated += 1
        rep = {'kind': 'script', 'family': case['family'], 'steps': case['steps'], 'announced': case.get('announced'),
               'in_domain': case.get('in_domain', False)}
        if not result or result[0] == 'HARNESS-FAILED':
            run.fail('C15: the launch did not return (hang or crash) on a scripted ssh: %s' % (result,), dict(rep, out=out[-5:]))
            continue
        run.count('launch-result:' + result[0])
        nontrivial = any(m.split(':')[1] in ('started', 'completed') for m in mev)
        run.case((case['steps'],), nontrivial,
                 sample={'case': rep, 'events_seen_by_loop': events, 'result': result, 'key_lines': keys, 'model': h})
        # ---------- correspondence
        hres, hw, _hc = [x.strip() for x in h.split(';')]
        mw = [] if hw == 'w=-' else [int(x) for x in hw[2:].split(',')]
        problems = []
        # reader threads: what the loop saw of each stream is a prefix of what the model's reader sends
        for s, exp in (('o', r_o), ('e', r_e)):
            seen = [m.split(':', 1)[1] for m in mev if m.startswith(s + ':')]
            expm = exp.split()
            if seen != expm[:len(seen)]:
                problems.append('reader %s: loop saw %r, model reader sends %r' % (s, seen, expm))
        mtoks = hres.split()
        if mtoks[0] != result[0]:
            problems.append('result %s, model %s' % (' '.join(result), hres))
        elif mtoks[0] == 'SUCCESS':
            if mtoks[1] != result[1]:
                problems.append('port %s, model %s' % (result[1], mtoks[1]))
            kix = int(mtoks[2])
            if kix >= len(keys) or keys[kix] != result[2]:
                problems.append('remembered key %s is not key line #%d of %r' % (result[2], kix, keys))
        elif mtoks[0] == 'INCOMPAT' and mtoks[1] != result[2]:
            problems.append('actual version %s, model %s' % (result[2], mtoks[1]))
        if mw != wpos:
            problems.append('key writes at %r, model %r' % (wpos, mw))
        if len(keys) != len(wpos) and wok:
            problems.append('%d key lines arrived, %d writes logged' % (len(keys), len(wpos)))
        if problems:
            run.broke('correspondence', 'handshake', json.dumps(dict(rep, problems=problems, events=mev, result=result, model=h, keys=keys))[:3000])
        # ---------- property oracle (from the property text; independent of the model)
        ann = case.get('announced')
        first_started = next((unhx(t).decode('utf-8', 'replace')[len(ctx.sp):] for k, s, t in events if k == 'started'), None)
        if first_started is not None and first_started != ctx.version and keys:
            run.fail('C15 oracle: a key was sent to a doer that announced %r (own version %r)' % (first_started, ctx.version), rep)
        if result[0] == 'SUCCESS':
            so = [unhx(t).decode('utf-8', 'replace')[len(ctx.sp):] for k, s, t in events if k == 'started']
            if not so or any(x != ctx.version for x in so):
                run.fail('C15 oracle: launch succeeded although the doer announced %r (own version %r)' % (so, ctx.version), rep)
        for kl in keys:
            if not key_line_ok(kl):
                run.fail('C15 oracle: key line %r does not denote a 128-bit key' % kl, rep)
        if len(set(keys)) != len(keys):
            run.fail('C15 oracle: the same key was generated twice: %r' % keys, rep)
        if case.get('in_domain'):
            # every causally possible interleaving with noise: the launch succeeds, exactly one key, after stdout Started
            ok = result[0] == 'SUCCESS' and result[1] == str(case['port']) and len(keys) == 1 and len(wpos) == 1
            if ok:
                i0 = wpos[0]
                ok = 0 <= i0 < len(mev) and mev[i0].startswith('o:started:')
            if not ok:
                run.fail('C15 oracle: launch did not succeed with one key for handshake order %s with noise: %s, keys %r' % (case.get('order'), ' '.join(result), keys), rep)
            # was the order the loop saw the order written?
            want, closed = [], set()
            for st in case['steps']:      # a reader thread stops after its Completed line
                if st[0] in 'oe' and st[0] not in closed:
                    want.append(st)
                    if st[1].startswith(ctx.cp):
                        closed.add(st[0])
            got = [(m[0], unhx(m.split(':')[2]).decode('utf-8', 'replace')) for m in mev]
            if [(a, b) for a, b in want] == got:
                n_order_as_written += 1
            elif os.environ.get('C15_DEBUG'):
                print('ORDER', want, got, file=sys.stderr)
    run.extra['causal_scripts_seen_in_written_order'] = n_order_as_written


# =================================================================================================
# 3. end to end: the real CLI, fake ssh/scp, simulated remote hosts
def l_of_state(state):
    if state == 'absent':
        return 'N'
    if state == 'same':
        return 'S'
    if state.startswith('other:'):
        return 'I'
    return 'X'


def e2e_scenarios(run, ctx, tier):
    rng = run.rng
    v = ctx.version
    sc = []

    def S(side_src=None, side_dest=None, deploy=None, resp=None, family=''):
        sc.append({'kind': 'e2e', 'family': family, 'src': side_src, 'dest': side_dest, 'deploy': deploy, 'resp': resp})

    def side(state, orders=None, scp='copy', ostest='ok', chmod='ok', user='', first_marker=False):
        return {'state': state, 'orders': orders or [L.HANDSHAKE_ORDERS[0], L.HANDSHAKE_ORDERS[0]], 'scp': scp, 'ostest': ostest,
                'chmod': chmod, 'user': user, 'first_marker': first_marker}
    states = ['absent', 'same', 'other:9.9.9', 'broken:silent']
    deploys = [(None, None), (None, 'Deploy'), (None, 'Cancel sync'), ('prompt', None), ('prompt', 'Deploy'), ('prompt', 'Cancel sync'),
               ('error', None), ('ok', None), ('force', None)]
    # A. decision matrix, destination remote
    for st in states:
        for d, r in deploys:
            S(None, side(st), d, r, 'matrix')
    more_states = ['other:' + v + 'x', 'other:' + v[:-1], 'broken:segv', 'broken:garbage', 'noexec', 'other:']
    for st in more_states:
        for d, r in [(None, None), ('ok', None), ('error', None)] if tier == 'quick' else deploys:
            S(None, side(st), d, r, 'matrix-more')
    # B. interleavings with noise around a real doer
    nv = 3 if tier == 'quick' else 25
    for order in L.HANDSHAKE_ORDERS:
        for k in range(nv):
            dens = [0.0, 0.4, 0.8][k % 3] if k < 3 else rng.random()
            def with_noise(o):
                res = []
                for tok in o:
                    k = 0
                    while rng.random() < dens and k < 4:
                        res.append(['n', rng.choice('oe'), rng.choice(NOISE[:13])]); k += 1
                    res.append(tok)
                return res
            if k % 2 == 0:
                S(None, side('same', [with_noise(order), with_noise(order)]), None, None, 'interleave')
            else:
                S(side('same', [with_noise(order), with_noise(order)]), None, None, None, 'interleave-src')
        # ... and on the launch that follows a deployment
        S(None, side('absent', [L.HANDSHAKE_ORDERS[0], with_noise(order)]), 'ok', None, 'interleave-after-deploy')
    # C. both doers remote at once
    both = [('same', 'same', None, None), ('absent', 'absent', 'ok', None), ('absent', 'same', None, '1:.*:Deploy'), ('same', 'absent', None, '1:.*:Deploy'),
            ('absent', 'absent', None, '2:.*:Deploy'), ('absent', 'absent', None, '1:.*:Deploy'), ('other:9.9.9', 'same', 'error', None),
            ('same', 'other:9.9.9', 'error', None), ('same', 'other:9.9.9', 'force', None), ('broken:silent', 'same', 'ok', None),
            ('same', 'broken:segv', 'ok', None), ('other:9.9.9', 'absent', 'ok', None), ('absent', 'other:9.9.9', None, None)]
    if tier == 'thorough':
        both += [(a, b, d, None) for a in states for b in states for d in ('ok', 'error', 'force')]
    for a, b, d, r in both:
        oa, ob = rng.choice(L.HANDSHAKE_ORDERS), rng.choice(L.HANDSHAKE_ORDERS)
        S(side(a, [oa, oa], user=rng.choice(['', 'alice'])), side(b, [ob, ob], user=rng.choice(['', 'bob'])), d, r, 'both')
    # C'. a deploy-and-retry in which BOTH launches are given a key: the first launch (a same-version doer) announces
    # the own version on stdout - the key is written - and then a "not present" text arrives, which makes the launch
    # NotPresentOnRemote (model behaviour, see design.d/C15.md), so the boss deploys and launches again.  Every launch
    # gets a newly generated key: the two key lines must differ (and differ from the other side's key).
    def marker_first(order, m):
        o, done = [], False
        for tok in order:
            o.append(tok)
            if tok == 'So' and not done:
                o.append(['n', 'e', 'bash: line 1: ' + m]); done = True
        return o
    retry_orders = L.HANDSHAKE_ORDERS if tier == 'thorough' else [L.HANDSHAKE_ORDERS[0], rng.choice(L.HANDSHAKE_ORDERS[1:])]
    for k, order in enumerate(retry_orders):
        m = MARKERS[k % len(MARKERS)]
        S(None, side('same', [marker_first(order, m), order], first_marker=True), 'ok', None, 'retry-two-keys')
        S(side('same', [marker_first(order, m), order], first_marker=True), None, None, '1:.*:Deploy', 'retry-two-keys')
    S(side('same', [marker_first(L.HANDSHAKE_ORDERS[0], MARKERS[0]), L.HANDSHAKE_ORDERS[0]], first_marker=True, user='alice'),
      side('same', [marker_first(L.HANDSHAKE_ORDERS[0], MARKERS[0]), L.HANDSHAKE_ORDERS[0]], first_marker=True), 'ok', None, 'retry-two-keys-both')
    S(side('same', [marker_first(L.HANDSHAKE_ORDERS[0], MARKERS[0]), L.HANDSHAKE_ORDERS[0]], first_marker=True), side('same'), 'ok', None, 'retry-two-keys-both')
    # D. the world misbehaves during deployment
    for st in ('absent', 'other:9.9.9'):
        for kw in ({'scp': 'drop'}, {'scp': 'fail'}, {'ostest': 'fail'}, {'ostest': 'windows'}, {'ostest': 'unknown'}, {'chmod': 'fail'}):
            S(None, side(st, **kw), 'ok', None, 'deploy-fault')
        S(None, side(st, scp='drop'), None, '1:.*:Deploy', 'deploy-fault')
    S(None, side('same', scp='drop'), 'force', None, 'deploy-fault')
    S(None, side('same', scp='fail'), 'force', None, 'deploy-fault')
    S(side('absent', scp='fail'), side('same'), 'ok', None, 'deploy-fault')
    for c in ctx.corpus:
        if c.get('kind') == 'e2e':
            sc.insert(0, c)
    return sc


def run_e2e(ctx, sc, idx):
    base = tempfile.mkdtemp(prefix='e%d_' % idx, dir=ctx.tmp)
    src, dest = os.path.join(base, 'src'), os.path.join(base, 'dest')
    os.makedirs(os.path.join(src, 'dir'))
    open(os.path.join(src, 'dir', 'f'), 'w').write('payload %d' % idx)
    open(os.path.join(src, 'g'), 'w').write('g')
    hosts, plan = {}, {'gap_ms': ctx.gap_ms, 'hosts': {}}
    for which, host in (('src', '127.0.0.2'), ('dest', '127.0.0.3')):
        sd = sc.get(which)
        if sd:
            hosts[which] = host
            L.set_remote_state(base, host, sd['state'], ctx.binary, ctx.sp)
            plan['hosts'][host] = {'launches': [{'mode': 'wrap', 'order': o} for o in sd['orders']],
                                   'scp': sd['scp'], 'ostest': sd['ostest'], 'chmod': sd['chmod']}
    env, logf, leaks = L.fake_env(base, ctx.fakebin, plan, 'p', ctx.sp, ctx.cp)
    env['NO_COLOR'] = '1'
    if sc.get('resp'):
        env['RJRSSYNC_TEST_PROMPT_RESPONSE'] = sc['resp'] if ':' in sc['resp'] else '9:.*:' + sc['resp']

    def spec(which, path):
        sd = sc.get(which)
        if not sd:
            return path
        return (sd['user'] + '@' if sd.get('user') else '') + hosts[which] + ':' + path
    args = [spec('src', src + '/'), spec('dest', dest + '/')]
    if sc.get('deploy'):
        args.append('--deploy=' + sc['deploy'])
    r = e2e.run_cli(ctx.binary, args, env=env, timeout=60)
    log = L.wait_launch_ends(logf)
    leaked = open(leaks).read() if os.path.exists(leaks) else ''
    snap_src, snap_dest = e2e.snapshot(src), e2e.snapshot(dest)
    remote_sha = {w: L.sha_file(L.remote_bin_path(base, h)) for w, h in hosts.items()}
    shutil.rmtree(base, ignore_errors=True)
    return {'cli': r, 'log': log, 'leaked': leaked, 'synced': bool(snap_dest) and snap_src == snap_dest, 'dest_exists': bool(snap_dest),
            'remote_sha': remote_sha, 'hosts': hosts}


def model_side_args(sc, which):
    sd = sc.get(which)
    if not sd:
        return 'local'
    beh = {None: 'Prompt', 'prompt': 'Prompt', 'error': 'Error', 'ok': 'Ok', 'force': 'Force'}[sc.get('deploy')]
    # (what the first launch reports: a "not present" text after the Started line makes it NotPresentOnRemote)
    l1 = 'N' if sd.get('first_marker') else l_of_state(sd['state'])
    # what the second launch finds: the uploaded binary when the upload really happened, else what was there
    l2 = 'S' if sd['scp'] == 'copy' else l1
    osm = {'ok': 'unix1', 'fail': 'fail', 'windows': 'win0', 'unknown': 'unix0'}[sd['ostest']]
    # chmod on the simulated host fails by itself when nothing was uploaded and nothing was there
    chmod_ok = sd['chmod'] == 'ok' and not (sd['scp'] == 'drop' and sd['state'] == 'absent')
    return '%s %s %s 1 1 %s 1 %s %d %d' % (beh, l1, l2, osm, sc['_answers'][which], 1 if sd['scp'] != 'fail' else 0, 1 if chmod_ok else 0)


def prompt_answers(sc):
    """Which answer each side's deploy prompt gets (the response list is consumed in order: source first)."""
    resp = sc.get('resp')
    if not resp:
        return {'src': 'Cancel', 'dest': 'Cancel'}, None
    if ':' in resp:
        count, label = int(resp.split(':')[0]), resp.split(':')[-1]
    else:
        count, label = 9, resp
    return None, (count, 'Deploy' if label == 'Deploy' else 'Cancel')


def e2e_cases(run, ctx, tier):
    scs = e2e_scenarios(run, ctx, tier)
    with ThreadPoolExecutor(WORKERS) as ex:
        obs = list(ex.map(lambda ic: run_e2e(ctx, ic[1], ic[0]), enumerate(scs)))
    # model prediction: the prompt answers depend on how many prompts were consumed before (source first)
    reqs = []
    for sc in scs:
        fixed, budget = prompt_answers(sc)
        if fixed:
            sc['_answers'] = fixed
            reqs.append('B %s / %s' % (model_side_args(sc, 'src'), model_side_args(sc, 'dest')))
        else:
            count, ans = budget
            # does the source side show a prompt?  ask the model with the answer it would get
            sc['_answers'] = {'src': ans if count >= 1 else 'Cancel', 'dest': 'Cancel'}
            reqs.append('S ' + model_side_args(sc, 'src') if sc.get('src') else 'S Ok S S 1 1 unix1 1 Cancel 1 1')
    first = vlib.judge(ctx.jbin, ctx.cfg_line + reqs)[1:]
    reqs2 = []
    for sc, a in zip(scs, first):
        fixed, budget = prompt_answers(sc)
        if fixed:
            reqs2.append(None)
            continue
        count, ans = budget
        used = 1 if (sc.get('src') and ',P' in (',' + a.split()[0].split('=')[1])) else 0
        sc['_answers']['dest'] = ans if count - used >= 1 else 'Cancel'
        reqs2.append('B %s / %s' % (model_side_args(sc, 'src'), model_side_args(sc, 'dest')))
    second = iter(vlib.judge(ctx.jbin, ctx.cfg_line + [r for r in reqs2 if r])[1:])
    model = [a if r is None else next(second) for a, r in zip(first, reqs2)]
    for sc, o, m in zip(scs, obs, model):
        judge_e2e(run, ctx, sc, o, m)
    # the key-freshness comparison must not be vacuous: runs with a key on both sides, and a retry with a key per launch
    if only_corpus_free(scs):
        for key in ('e2e:both-remote-runs-with-a-key-per-side', 'e2e:retry-runs-with-a-key-per-launch'):
            if not run.distribution.get(key):
                run.broke('correspondence', 'key-freshness-leg-vacuous', 'no run of the e2e leg produced ' + key)


def only_corpus_free(scs):
    """(a replay of one recorded scenario runs the whole family anyway; kept as a function for clarity)"""
    return len(scs) > 5


def judge_e2e(run, ctx, sc, o, m):
    run.count('e2e:' + sc['family'])
    run.traces_validated += 1
    cli, log = o['cli'], o['log']
    rep = {'kind': 'e2e', 'family': sc['family'], 'src': sc.get('src'), 'dest': sc.get('dest'), 'deploy': sc.get('deploy'), 'resp': sc.get('resp')}
    host_side = {h: w for w, h in o['hosts'].items()}
    # ---- observed actions in order
    acts = []
    per_host = {h: {'launches': [], 'uploads': 0, 'acts': []} for h in host_side}
    for d in log:
        h = d.get('host')
        if h not in per_host:
            continue
        if d.get('tool') == 'ssh' and d.get('kind') == 'launch' and d.get('ev') == 'begin':
            acts.append('L'); per_host[h]['acts'].append('L')
            per_host[h]['launches'].append({'n': d['n'], 'exists': d['exe_exists'], 'keys': [], 'announced': None, 'done': False, 'early': False})
        elif d.get('tool') == 'ssh' and d.get('kind') == 'launch' and d.get('ev') == 'key':
            per_host[h]['launches'][-1]['keys'].append(d['line'])
            per_host[h]['launches'][-1]['key_after'] = d.get('after')
        elif d.get('tool') == 'ssh' and d.get('kind') == 'launch' and d.get('ev') == 'handshake-done':
            per_host[h]['launches'][-1].update(announced=d.get('announced'), done=True, early=d.get('early_key'), emitted=d.get('emitted'))
        elif d.get('tool') == 'ssh' and d.get('kind') == 'ostest':
            acts.append('O'); per_host[h]['acts'].append('O')
        elif d.get('tool') == 'ssh' and d.get('kind') == 'chmod':
            acts.append('M'); per_host[h]['acts'].append('M')
        elif d.get('tool') == 'scp':
            acts.append('U'); per_host[h]['acts'].append('U'); per_host[h]['uploads'] += 1
            per_host[h]['uploaded'] = d.get('files')
    prompts = len(re.findall(r'needs to be deployed[^\n]*What do\?', cli['stdout']))
    text = cli['stdout'] + cli['stderr']
    n_launch = sum(len(p['launches']) for p in per_host.values())
    run.case((json.dumps(rep, sort_keys=True),), n_launch > 0,
             sample={'case': rep, 'exit': cli['exit'], 'actions': acts, 'prompts': prompts, 'synced': o['synced'], 'model': m,
                     'launches': {h: p['launches'] for h, p in per_host.items()}})
    run.count('e2e-exit:%s' % cli['exit'])
    if cli['timed_out']:
        run.fail('C15: the run did not terminate', dict(rep, stderr=cli['stderr'][-800:]))
        return
    # ---- correspondence with the extracted setup_comms / connect_both
    mm = dict(x.split('=', 1) for x in m.split(' ', 1)) if '=' in m else {}
    mm['result'] = m.split('result=')[1] if 'result=' in m else '?'
    macts_all = [] if mm.get('actions', '-') in ('-', '-\n') else mm['actions'].split(',')
    macts = [a for a in macts_all if a not in ('P', 'C')]
    problems = []
    if macts != acts:
        problems.append('actions %r, model %r' % (acts, macts))
    # a prompt is only visible on stdout when a test response answers it (an unattended prompt prints nothing)
    budget = prompt_answers(sc)[1]
    visible = min(macts_all.count('P'), budget[0]) if budget else 0
    if visible != prompts:
        problems.append('%d visible deploy prompts, model %d (of %d)' % (prompts, visible, macts_all.count('P')))
    want_exit = {'CONNECTED': 0, 'EXIT 10': 10, 'EXIT 11': 11}.get(mm['result'])
    if want_exit is None or cli['exit'] != want_exit:
        problems.append('exit %s, model %s' % (cli['exit'], mm['result']))
    if (cli['exit'] == 0) != o['synced']:
        problems.append('exit %s but synced=%s' % (cli['exit'], o['synced']))
    if problems:
        run.broke('correspondence', 'setup_comms', json.dumps(dict(rep, problems=problems, exit=cli['exit'], model=m, stderr=cli['stderr'][-600:]))[:3000])
    # ---- property oracle, from the property text
    consent = sc.get('deploy') in ('ok', 'force')
    all_keys = []
    for h, p in per_host.items():
        w = host_side[h]
        sd = sc[w]
        answered_deploy = 'What do?' in cli['stdout'] and sc.get('resp') and sc['resp'].endswith('Deploy')
        # (c) uploads need consent
        if p['uploads'] and not (consent or (sc.get('deploy') in (None, 'prompt') and answered_deploy)):
            run.fail('C15 oracle: a binary was uploaded to %s without consent (deploy=%s, answer=%s)' % (w, sc.get('deploy'), sc.get('resp')), rep)
        if sc.get('deploy') == 'error' or (sc.get('deploy') in (None, 'prompt') and not (sc.get('resp') or '').endswith('Deploy')):
            if p['uploads']:
                run.fail('C15 oracle: deploy=error / cancelled prompt, yet scp ran for %s' % w, rep)
            if o['remote_sha'].get(w) == ctx.binary_sha and sd['state'] != 'same' and sd['state'] != 'noexec':
                run.fail('C15 oracle: deploy=error / cancelled prompt, yet the remote binary of %s was replaced' % w, rep)
        # (d) at most two launches, the second only after an upload attempt
        if len(p['launches']) > 2:
            run.fail('C15 oracle: %d launches on %s' % (len(p['launches']), w), rep)
        if len(p['launches']) == 2 and not p['uploads']:
            run.fail('C15 oracle: relaunch on %s without a deployment' % w, rep)
        for ln in p['launches']:
            ann = ln['announced']
            # (b) no key to anything that did not announce our version
            if ln['keys'] and ann != ctx.version:
                run.fail('C15 oracle: key sent to %s whose doer announced %r' % (w, ann), rep)
            if ln['early']:
                run.fail('C15 oracle: key written before the stdout Started line was delivered (%s)' % w, rep)
            if len(ln['keys']) > 1:
                run.fail('C15 oracle: %d keys written in one launch (%s)' % (len(ln['keys']), w), rep)
            for k in ln['keys']:
                if not key_line_ok(k):
                    run.fail('C15 oracle: key line %r does not denote a 128-bit key' % k, rep)
                all_keys.append(k)
            if ln['keys'] and 'So' not in (ln.get('key_after') or []):
                run.fail('C15 oracle: key arrived before the stdout Started line was passed on (%s): after %r' % (w, ln.get('key_after')), rep)
        # (f) a same-version doer behind any in-domain interleaving is used, without any deployment
        if sd['state'] == 'same' and sc.get('deploy') != 'force' and p['launches'] and not sd.get('first_marker'):
            if p['uploads'] or p['acts'] != ['L'] or len(p['launches'][0]['keys']) != 1:
                run.fail('C15 oracle: same-version doer on %s was not used directly (actions %r, keys %r)' % (w, p['acts'], p['launches'][0]['keys']), rep)
    if sc.get('deploy') in (None, 'prompt'):
        budget = prompt_answers(sc)[1]
        allowed = budget[0] if budget and budget[1] == 'Deploy' else 0
        if sum(p['uploads'] for p in per_host.values()) > allowed:
            run.fail('C15 oracle: more uploads than "Deploy" answers (%d allowed)' % allowed, rep)
    if o['leaked']:
        run.fail('C15 oracle: an other-version doer received data on stdin: %r' % o['leaked'][:100], rep)
    # (a) traffic only with a doer of our version: a sync that happened means every remote side's last launch announced it
    if o['synced'] or cli['exit'] == 0:
        for h, p in per_host.items():
            last = p['launches'][-1] if p['launches'] else None
            if not last or last['announced'] != ctx.version or len(last['keys']) != 1:
                run.fail('C15 oracle: sync went ahead although the doer on %s announced %r' % (host_side[h], last and last['announced']), rep)
    # (e) "every doer launch gets a newly generated 128-bit key": the key lines the fake ssh saw written to the doers'
    # stdin, compared (as 128-bit values) between the launches of one run - the two launches of a deploy-and-retry on one
    # host, and the launches for source and destination when both are remote
    def kval(k):
        return int(k, 16) if key_line_ok(k) else k
    keyed = [(host_side[h], ln['n'], kval(ln['keys'][0])) for h, p in sorted(per_host.items()) for ln in p['launches'] if ln['keys']]
    for a in range(len(keyed)):
        for b in range(a + 1, len(keyed)):
            (w1, n1, k1), (w2, n2, k2) = keyed[a], keyed[b]
            if k1 == k2:
                if w1 == w2:
                    run.fail('C15 oracle: launch %d on %s (after the deployment) was given the same key as launch %d - not a newly generated key' % (n2, w2, n1),
                             dict(rep, key_lines=all_keys))
                else:
                    run.fail('C15 oracle: the doer launches for %s and %s of one run were given the same key - not a newly generated key per launch' % (w1, w2),
                             dict(rep, key_lines=all_keys))
    if len(set(all_keys)) != len(all_keys):
        run.fail('C15 oracle: a key was reused across launches: %r' % all_keys, rep)
    if len(all_keys) >= 2:
        run.count('e2e:runs-with-two-or-more-keys')
    if len({w for w, _, _ in keyed}) == 2:
        run.count('e2e:both-remote-runs-with-a-key-per-side')
    if any(sum(1 for w, _, _ in keyed if w == x) >= 2 for x in ('src', 'dest')):
        run.count('e2e:retry-runs-with-a-key-per-launch')
    # all same-version sides with consent or no need: the run must succeed
    needs = [w for w in ('src', 'dest') if sc.get(w)]
    if all(sc[w]['state'] == 'same' for w in needs) and sc.get('deploy') != 'force' and cli['exit'] != 0:
        run.fail('C15 oracle: launch failed for a same-version doer (exit %s): %s' % (cli['exit'], cli['stderr'][-300:]), rep)


# =================================================================================================
def load_corpus():
    out = []
    d = os.path.join(vlib.VERIF, 'corpus', 'C15')
    for f in sorted(os.listdir(d)) if os.path.isdir(d) else []:
        if f.endswith('.json'):
            try:
                c = json.load(open(os.path.join(d, f)))
                out.extend(c if isinstance(c, list) else [c])
            except ValueError:
                pass
    return out


def setup_ctx(run):
    ctx = Ctx()
    ctx.binary = vlib.build_impl()
    facts = vlib.regen_facts(ctx.binary)
    kv = dict(l.split(' ', 1) for l in facts if ' ' in l)
    ctx.version, ctx.sp, ctx.cp = kv['version'], kv['handshake_started'], kv['handshake_completed']
    if not ctx.cp.endswith(' '):
        ctx.cp += ' '          # the facts line loses the trailing blank of the constant
    ctx.binary_sha = L.sha_file(ctx.binary)
    ctx.corpus = json.loads(json.dumps(load_corpus()).replace('@OWN@', ctx.version))   # corpus scripts name the own version symbolically
    for c_ in ctx.corpus:
        if c_.get('kind') == 'script' and c_.get('in_domain'):
            c_['announced'] = ctx.version
    ctx.gap_ms = 25
    return ctx


def check(run, only=None):
    run.trusted = list(vlib.COMMON_TRUSTED) + [
        'OsRng: "newly generated" keys are observed to differ between launches, their unpredictability is trusted',
        'modelled, not exercised: real ssh/scp (a PATH-substituted python ssh/scp plays the remote hosts), the Windows half of the remote command and of deploy_to_remote (no scp-less chmod skip run here), dialoguer (prompt answers through RJRSSYNC_TEST_PROMPT_RESPONSE or unattended)',
        'the order in which the launch loop saw the messages is recovered from its own log records (message texts of boss_launch.rs); read errors are not logged and are placed by the script',
        'std: BufRead::read_line / String::pop, u128::from_str_radix, u16::from_str, mpsc FIFO per sender (modelled; compared on every scripted case)']
    run.assumptions = ['a line counts as noise when it starts with neither handshake prefix and contains none of the three "not present" texts (the domain of C15_handshake)',
                       'a doer prints its Completed lines only after it has read the key line (doer.rs program order; the composed system of C15_system_* makes this a transition system instead of a premise)',
                       'ssh stdin writes succeed while the doer lives (wok = true in the handshake theorems; the failing write is modelled and gives CommunicationError)']
    run.extra['rule'] = ('keys: fixed edge set (all zero, all ff, every count of leading zero bytes, first byte 00..0f) + seeded random, each formatted by the real LowerHex and fed to a real --doer '
                         'that is then talked to with the original key; malformed key lines; scripted launches: the four handshake lines in all 5 causally possible orders x noise densities, '
                         'hand-written and random adversarial sequences against the real launch_doer_via_ssh; e2e: remote state x deploy behaviour x prompt answer matrix, 5 orders x noise around a real doer, '
                         'both doers remote, deploy-and-retry in which both launches get a key (key lines of all launches of a run compared), deployment faults.  A case is non-trivial when a key round trip ran / the loop saw a handshake line / at least one launch happened; distinct by scenario content')
    ctx = setup_ctx(run)
    run.check_proofs('C15', THEOREMS, extra_targets=['theories/Extract/Ex_launch.vo'])
    ctx.jbin = vlib.build_judge('launch')
    ctx.cfg_line = ['CFG %s %s %s' % (hx(ctx.version), hx(ctx.sp), hx(ctx.cp))]
    ctx.tmp = tempfile.mkdtemp(prefix='c15_', dir=vlib.CACHE)
    ctx.fakebin = L.install_tools(ctx.tmp)
    assert sorted(L.all_linear_extensions()) == sorted(L.HANDSHAKE_ORDERS)
    try:
        if only in (None, 'key', 'keyline'):
            key_cases(run, ctx, run.tier)
        if only in (None, 'script'):
            script_cases(run, ctx, run.tier)
        if only in (None, 'e2e'):
            e2e_cases(run, ctx, run.tier)
    finally:
        shutil.rmtree(ctx.tmp, ignore_errors=True)
    return run.finish(search=None)      # every case already ran the property oracle on the implementation


def replay(run, path):
    r = json.load(open(path))
    print(json.dumps(r, indent=1)[:4000])
    kind = r.get('kind')
    d = os.path.join(vlib.VERIF, 'corpus', 'C15')
    if kind in ('key', 'keyline', 'script', 'e2e'):
        # run the recorded case first (as a temporary corpus entry), then the family it belongs to
        os.makedirs(d, exist_ok=True)
        tmpf = os.path.join(d, 'zz_replay_tmp.json')
        json.dump({k: v for k, v in r.items() if k not in ('what', 'seed', 'property')}, open(tmpf, 'w'))
        try:
            return check(run, only=kind)
        finally:
            os.unlink(tmpf)
    return check(run)
