"""C16 - Effective settings follow the documented precedence and defaults.

Proof: Props/C16.v (Model/Settings.v).  Tie: the real clap parser + yaml-rust + resolve_spec (harness
sub-command `resolve`) against the extracted model on the full finite product per behaviour, on
path spellings and on mutated spec files; the documented rule is evaluated independently in python
on what the implementation answered (property oracle); a few end-to-end runs check that a malformed
spec is rejected (exit 18) before anything is touched."""
import os, sys, json, itertools, tempfile, shutil, subprocess
import vlib

THEOREMS = ['C16_precedence', 'C16_all_syncs', 'C16_rest_of_spec', 'C16_absent_key_gives_default',
            'C16_documented_defaults', 'C16_defaults_match_code', 'C16_spec_equiv', 'C16_yaml_strict',
            'C16_reject_unparsable']

BEHS = ['newer', 'older', 'same', 'entry', 'root']
FLAG = {'newer': '--dest-file-newer', 'older': '--dest-file-older', 'same': '--files-same-time',
        'entry': '--dest-entry-needs-deleting', 'root': '--dest-root-needs-deleting'}
SPECKEY = {'newer': 'dest_file_newer_behaviour', 'older': 'dest_file_older_behaviour', 'same': 'files_same_time_behaviour',
           'entry': 'dest_entry_needs_deleting_behaviour', 'root': 'dest_root_needs_deleting_behaviour'}
ACT = {'newer': 'Overwrite', 'older': 'Overwrite', 'same': 'Overwrite', 'entry': 'Delete', 'root': 'Delete'}
DOC_DEFAULT = {'newer': 'Prompt', 'older': 'Overwrite', 'same': 'Skip', 'entry': 'Delete', 'root': 'Prompt'}
ALLV = ['Prompt', 'Error', 'Skip', 'Proceed']


def vals(b):
    return ['Prompt', 'Error', 'Skip', ACT[b]]


def hexs(s):
    return s.encode().hex() if s else '-'


def documented(b, flag, alld, specv):
    """The rule of the property text."""
    if flag is not None:
        return flag
    base = specv if specv is not None else DOC_DEFAULT[b]
    if alld is not None:
        if base == 'Skip':
            return 'Skip'
        return {'Prompt': 'Prompt', 'Error': 'Error', 'Skip': 'Skip', 'Proceed': ACT[b]}[alld]
    return base


class Case:
    def __init__(self, src='s', dest='d', flags=None, alld=None, deploy=None, filters=(), spec_text=None,
                 spec_syncs=None, kind='args'):
        self.src, self.dest = src, dest
        self.flags = flags or {}
        self.alld, self.deploy, self.filters = alld, deploy, list(filters)
        self.spec_text = spec_text      # text of the spec file (None: SRC DEST mode)
        self.spec_syncs = spec_syncs    # for generated valid specs: list of {b: value|None, 'filters': [...]}
        self.kind = kind
        self.spec_path = None

    def argv(self):
        a = []
        if self.spec_text is None:
            a += [self.src, self.dest]
        else:
            a += ['--spec', self.spec_path]
        for b, v in self.flags.items():
            if v is not None:
                a += [FLAG[b], v.lower()]
        if self.alld is not None:
            a += ['--all-destructive-behaviour', self.alld.lower()]
        if self.deploy is not None:
            a += ['--deploy', self.deploy.lower()]
        for f in self.filters:
            a += ['--filter', f]
        return a

    def model_line(self, yaml_tokens):
        kv = ['src=' + ('none' if self.spec_text is not None else hexs(self.src)),
              'dest=' + ('none' if self.spec_text is not None else hexs(self.dest)),
              'filters=' + ';'.join(hexs(f) for f in self.filters),
              'deploy=' + (self.deploy or 'none')]
        for b in BEHS:
            kv.append('%s=%s' % (b, self.flags.get(b) or 'none'))
        kv.append('all=' + (self.alld or 'none'))
        kv.append('spec=' + (yaml_tokens if self.spec_text is not None else 'none'))
        return 'R ' + ' '.join(kv)

    def describe(self):
        return {'kind': self.kind, 'argv': [x if x != self.spec_path else '<spec>' for x in self.argv()],
                'spec_text': self.spec_text}


def spec_text_for(syncs, extra_root=''):
    t = extra_root + 'syncs:\n'
    for i, s in enumerate(syncs):
        t += '  - src: %s\n    dest: %s\n' % (s.get('src', 'src%d' % i), s.get('dest', 'dst%d' % i))
        if s.get('filters'):
            t += '    filters: [ %s ]\n' % ', '.join('"%s"' % f for f in s['filters'])
        for b in BEHS:
            if s.get(b) is not None:
                t += '    %s: %s\n' % (SPECKEY[b], s[b].lower())
    return t


def gen_cases(run, tier):
    rng = run.rng
    cases = []
    # (1) full product per behaviour: spec {absent+4} x cli {absent+4} x all {absent+4}; the other
    #     four behaviours are randomised.  spec "absent" is exercised both as SRC DEST and as a spec
    #     file without the key.
    for b in BEHS:
        for specv in [None] + vals(b):
            for flag in [None] + vals(b):
                for alld in [None] + ALLV:
                    others = {o: rng.choice([None] + vals(o)) for o in BEHS if o != b}
                    oflags = {o: rng.choice([None, None] + vals(o)) for o in BEHS if o != b}
                    flags = dict(oflags); flags[b] = flag
                    if specv is None and rng.random() < 0.5:
                        cases.append(Case(flags=flags, alld=alld, kind='product-args'))
                    else:
                        s0 = dict(others); s0[b] = specv
                        syncs = [s0]
                        if rng.random() < 0.4:      # several syncs
                            s1 = {o: rng.choice([None] + vals(o)) for o in BEHS}
                            syncs.append(s1)
                            if rng.random() < 0.3:
                                syncs.append({o: rng.choice([None] + vals(o)) for o in BEHS})
                        if rng.random() < 0.3:
                            syncs[0]['filters'] = rng.choice([['+a.*', '-b'], ['+a.*', '-b', '+a.*']])
                        filt = rng.choice([[], [], ['-x'], ['+y', '-z/.*'], ['-x', '+y', '-x']])
                        cases.append(Case(flags=flags, alld=alld, spec_text=spec_text_for(syncs), spec_syncs=syncs,
                                          filters=filt, deploy=rng.choice([None, None, 'Prompt', 'Error', 'Ok', 'Force']),
                                          kind='product-spec'))
    # (1b) filter lists, in particular with the same filter text more than once: the effective list of every sync is exactly
    #      the command-line list when one is given (order and multiplicity - the last matching filter wins, so position
    #      matters), otherwise exactly the list of that sync in the spec file.
    FL = [[], ['-x'], ['+y', '-z/.*'], ['-x', '-x'], ['+a', '+a', '+a'],
          ['-.*[.]log', '+debug/.*', '-.*[.]log'], ['+a(/.*)?', '-a/x[.]tmp', '+a(/.*)?'], ['-b', '+a.*', '-b', '+a.*'],
          ['+q', '-r', '-s', '+q', '-t'], ['-m', '+n', '+n', '-m'], ['+u|v', '-u', '+u|v', '-u', '+u|v']]
    for cli in FL:
        cases.append(Case(filters=cli, kind='filters-args'))
        for spec_lists in [[f] for f in FL] + [[FL[5], FL[7]], [FL[6], [], FL[9]], [FL[3], FL[5], FL[10]]]:
            if not cli and not any(spec_lists) and rng.random() < 0.5:
                continue
            syncs = [({'filters': list(f)} if f else {}) for f in spec_lists]
            cases.append(Case(filters=cli, spec_text=spec_text_for(syncs), spec_syncs=syncs, kind='filters-spec',
                              alld=rng.choice([None, None, 'Error']), flags={rng.choice(BEHS): 'Skip'} if rng.random() < 0.3 else {}))
    n_rf = 60 if tier == 'quick' else 1000
    atoms = ['a', 'b', 'c/.*', '.*[.]tmp', 'd|e', '(?i)f']
    for _ in range(n_rf):
        def rl():
            l = [rng.choice('+-') + rng.choice(atoms) for _ in range(rng.randint(1, 5))]
            for _ in range(rng.randint(0, 3)):          # repeat earlier filters at later positions
                l.insert(rng.randint(1, len(l)), rng.choice(l))
            return l
        cli = rl() if rng.random() < 0.6 else []
        if rng.random() < 0.4:
            cases.append(Case(filters=cli or rl(), kind='filters-args'))
        else:
            syncs = [({'filters': rl()} if rng.random() < 0.8 else {}) for _ in range(rng.randint(1, 3))]
            cases.append(Case(filters=cli, spec_text=spec_text_for(syncs), spec_syncs=syncs, kind='filters-spec'))
    # (2) thorough: all pairs of behaviours jointly (spec x cli x all for both) would be 5^6 - sample pairs exhaustively on cli x all
    if tier == 'thorough':
        for b1, b2 in itertools.combinations(BEHS, 2):
            for f1 in [None] + vals(b1):
                for f2 in [None] + vals(b2):
                    for alld in [None] + ALLV:
                        for sv1 in [None, 'Skip', ACT[b1]]:
                            for sv2 in [None, 'Skip', 'Error']:
                                s0 = {b1: sv1, b2: sv2}
                                cases.append(Case(flags={b1: f1, b2: f2}, alld=alld, spec_text=spec_text_for([s0]),
                                                  spec_syncs=[s0], kind='pairs'))
    # (3) path spellings (RemotePathDesc)
    spell = ['f', 'h:f', 'u@h:f', 'u@h:', '@h:f', 'u@:f', ':f', 'C:\\x', 'C:', 'C:/x', 'ab:\\x', 'u@h:a:b', 'a@b@c:d',
             'h:/abs/path/', './rel/', 'u@h:~/x', '', 'x@y', 'host:path with space', 'h:f:', '::', 'a:@b',
             # white space is part of a path / host / user as typed (a folder can be called 'data '): nothing is trimmed
             'data ', ' data', ' h:f', 'h:f ', 'h: f', 'u @h:f', '\tx', 'x\t', ' ', 'a b:c d', 'h :f',
             # drive-letter exception: one letter, then ':' followed by nothing or a backslash - not a forward slash
             'h:/abs', 'c:/x/y', 'c:\\x', 'é:\\x', 'ab:', 'c:x']
    for s in spell:
        for d in rng.sample(spell, 3) + ['d']:
            cases.append(Case(src=s, dest=d, kind='spelling', deploy=rng.choice([None, 'Ok'])))
    # (4) mutated spec texts
    base = 'src_hostname: h1\nsrc_username: u1\ndest_hostname: h2\ndest_username: u2\ndeploy_behaviour: ok\nsyncs:\n  - src: a\n    dest: b\n    filters: [ "+x", "-y" ]\n    dest_file_newer_behaviour: error\n  - src: c\n    dest: d\n'
    muts = [base, '', '---\n', '# only a comment\n', 'just a string\n', '- a\n- b\n', 'syncs: 3\n', 'syncs: []\n', 'syncs:\n  - 3\n',
            'syncs:\n  - src: a\n', 'syncs:\n  - dest: a\n', 'syncs:\n  - src: ""\n    dest: b\n', 'syncs:\n  - src: a\n    dest: b\n    bogus: 1\n',
            'bogus: 1\n', 'src_hostname: 3\n', 'src_hostname: [a]\n', 'deploy_behaviour: maybe\n', 'deploy_behaviour: FORCE\nsyncs: []\n',
            'syncs:\n  - src: a\n    dest: b\n    filters: "+x"\n', 'syncs:\n  - src: a\n    dest: b\n    filters: [ 1 ]\n',
            'syncs:\n  - src: a\n    dest: b\n    filters: [ "+x", [ "y" ] ]\n',
            'syncs:\n  - src: a\n    dest: b\n    dest_file_newer_behaviour: delete\n',
            'syncs:\n  - src: a\n    dest: b\n    dest_entry_needs_deleting_behaviour: overwrite\n',
            'syncs:\n  - src: a\n    dest: b\n    dest_root_needs_deleting_behaviour: DELETE\n',
            'syncs:\n  - src: a\n    dest: b\n    files_same_time_behaviour: Proceed\n',
            'syncs:\n  - src: a\n    dest: b\n    files_same_time_behaviour: 1\n',
            'syncs:\n  - src: a\n    dest: b\n  - src: c\n', 'syncs:\n  - src: a\n    dest: b\n---\nsecond: doc\n',
            'syncs:\n  - src: a\n    dest: b\nsyncs:\n  - src: c\n    dest: d\n', 'syncs: {a: b}\n', '{{{{\n', 'a: [\n', 'syncs:\n\t- src: a\n',
            '1: 2\n', 'true: x\n', '~: x\n', 'syncs:\n  - src: 1\n    dest: b\n', 'syncs:\n  - src: a\n    dest: true\n',
            'syncs:\n  - src: a\n    dest: b\n    src: z\n', 'dest_username: ~\n', 'syncs:\n  - {src: a, dest: b, filters: []}\n',
            'syncs:\n  - &x {src: a, dest: b}\n  - *x\n']
    for i, m in enumerate(muts):
        cases.append(Case(spec_text=m, kind='mutated', flags={rng.choice(BEHS): rng.choice(['Skip', 'Error'])} if i % 3 == 0 else {},
                          alld=rng.choice([None, 'Error', 'Proceed']), filters=rng.choice([[], ['-q']])))
    # random line-level mutations of the base text
    n_rand = 60 if tier == 'quick' else 600
    lines = base.splitlines()
    for _ in range(n_rand):
        l = list(lines)
        op = rng.choice(['del', 'dup', 'swap', 'indent', 'value', 'key'])
        i = rng.randrange(len(l))
        if op == 'del':
            del l[i]
        elif op == 'dup':
            l.insert(i, l[i])
        elif op == 'swap':
            j = rng.randrange(len(l)); l[i], l[j] = l[j], l[i]
        elif op == 'indent':
            l[i] = rng.choice(['', '  ', '    ', '      ']) + l[i].lstrip()
        elif op == 'value' and ':' in l[i]:
            l[i] = l[i].split(':')[0] + ': ' + rng.choice(['skip', 'SKIP', 'nope', '3', '[a]', '{a: b}', '""', '~', 'prompt', 'overwrite', 'delete', 'proceed'])
        elif op == 'key' and ':' in l[i]:
            l[i] = l[i].replace(l[i].split(':')[0].strip(' -'), rng.choice(['srcx', 'dest_file_newer', 'filter', 'syncs', 'src', 'dest']), 1)
        cases.append(Case(spec_text='\n'.join(l) + '\n', kind='mutated-random', alld=rng.choice([None, 'Skip'])))
    return cases


def parse_ok(line):
    """'OK deploy=.. sh=.. ... | src=.. ...' -> (specdict, [syncdict])"""
    parts = line[3:].split(' | ')
    spec = dict(x.split('=', 1) for x in parts[0].split())
    syncs = [dict(x.split('=', 1) for x in p.split()) for p in parts[1:]]
    return spec, syncs


def oracle(case, impl_line):
    """Property oracle on the implementation's answer, for cases whose intent is known."""
    if not impl_line.startswith('OK '):
        return None if case.kind.startswith('mutated') or case.kind == 'spelling' else 'rejected a valid configuration: ' + impl_line[:80]
    spec, syncs = parse_ok(impl_line)
    if case.kind in ('product-args', 'product-spec', 'pairs', 'filters-args', 'filters-spec'):
        intended = case.spec_syncs if case.spec_syncs is not None else [{}]
        if len(syncs) != len(intended):
            return 'number of syncs %d != %d' % (len(syncs), len(intended))
        for s_impl, s_int in zip(syncs, intended):
            for b in BEHS:
                want = documented(b, case.flags.get(b), case.alld, s_int.get(b))
                if s_impl[b] != want:
                    return 'behaviour %s is %s, documented rule gives %s (flag=%s all=%s spec=%s)' % (
                        b, s_impl[b], want, case.flags.get(b), case.alld, s_int.get(b))
            want_f = case.filters if case.filters else s_int.get('filters', [])
            got_f = [bytes.fromhex(x).decode() for x in s_impl['filters'].split('[')[1].rstrip(']').split(',') if x and x != '-']
            if got_f != list(want_f):
                return 'filters are %r, expected %r' % (got_f, want_f)
        want_dep = case.deploy or 'Prompt'
        if spec['deploy'] != want_dep:
            return 'deploy is %s, expected %s' % (spec['deploy'], want_dep)
    if case.kind == 'spelling' and len(syncs) == 1:
        # "a sync described in a spec file behaves exactly like the same sync given as SRC DEST": an argument without a colon is a
        # local path and is taken exactly as typed (in a spec file `src: "data "` names the folder 'data '); with a colon the text
        # after the first colon is the path, again as typed
        for key, arg in (('src', case.src), ('dest', case.dest)):
            if arg is None:
                continue
            got = bytes.fromhex(syncs[0][key]).decode('utf-8', 'replace') if syncs[0][key] != '-' else ''
            if ':' not in arg and got != arg:
                return 'the %s argument %r (no host part) was resolved to the path %r' % (key, arg, got)
            if ':' in arg and not (len(arg.split(':', 1)[0]) == 1 and (arg.split(':', 1)[1] == '' or arg.split(':', 1)[1].startswith('\\'))) \
                    and got != arg.split(':', 1)[1]:
                return 'the %s argument %r was resolved to the path %r, not to the text after the first colon' % (key, arg, got)
    return None


def run_cases(run, cases, binary, jbin, tmp):
    for i, c in enumerate(cases):
        if c.spec_text is not None:
            c.spec_path = os.path.join(tmp, 'spec%d.yaml' % i)
            with open(c.spec_path, 'w') as f:
                f.write(c.spec_text)
    req = []
    for c in cases:
        if c.spec_text is not None:
            req.append('Y ' + c.spec_path)
        argv = c.argv()
        req.append('A %d %s' % (len(argv), ' '.join(hexs(a) for a in argv)))
    out = vlib.harness(binary, 'resolve', req)
    impl, trees, k = [], [], 0
    for c in cases:
        if c.spec_text is not None:
            trees.append(out[k].split(' ## ')[0]); k += 1
        else:
            trees.append(None)
        impl.append(out[k]); k += 1
    mlines = [c.model_line(t) for c, t in zip(cases, trees)]
    model = vlib.judge(jbin, mlines)
    for c, il, ml in zip(cases, impl, model):
        run.count('kind:' + c.kind)
        icls = il.split()[0] if il else 'EMPTY'
        run.count('impl:' + icls)
        nontrivial = icls == 'OK' and (c.alld is not None or any(c.flags.values()) or c.spec_text is not None or bool(c.filters))
        run.case((c.argv()[2:] if c.spec_text is not None else c.argv(), c.spec_text), nontrivial,
                 sample={'case': c.describe(), 'impl': il[:300], 'model': ml[:300]})
        run.traces_validated += 1
        # correspondence: OK lines identical; errors by class (clap error vs spec error)
        same = (il == ml) if icls == 'OK' else (ml == {'ERR': 'ERR', 'CLAPERR': 'CLAPERR'}.get(icls, '?'))
        bad = oracle(c, il)
        if bad:
            run.fail('C16 oracle: %s (argv %r%s)' % (bad, c.describe()['argv'], ', spec file:\n' + c.spec_text if c.spec_text else ''),
                     {'case': c.describe(), 'impl': il, 'model': ml})
        elif not same:
            run.broke('correspondence', 'resolve', json.dumps({'case': c.describe(), 'impl': il, 'model': ml})[:1500])


def e2e_reject(run, binary, tmp):
    """A malformed spec (second sync broken) must exit 18 with nothing touched - not even sync 1."""
    bads = ['syncs:\n  - src: %(s)s\n    dest: %(d)s\n  - src: %(s)s\n',
            'syncs:\n  - src: %(s)s\n    dest: %(d)s\nbogus: 1\n',
            'syncs:\n  - src: %(s)s\n    dest: %(d)s\n    dest_file_newer_behaviour: never\n',
            'syncs:\n  - src: %(s)s\n    dest: %(d)s\n    filters: 3\n',
            'syncs:\n  - src: %(s)s\n    dest: %(d)s\n  - [\n',
            # not valid UTF-8 (a YAML stream is UTF-8/16/32): a Latin-1 byte inside a value, inside a filter, inside a key, a lone continuation byte, a truncated sequence
            'syncs:\n  - src: %(s)s\n    dest: %(d)s_caf\xe9\n',
            'syncs:\n  - src: %(s)s\n    dest: %(d)s\n    filters: [ "-.*\\.b\xe4k" ]\n',
            'syncs:\n  - src: %(s)s\n    dest: %(d)s\n# comment \x80\n',
            'syncs:\n  - src: %(s)s\n    dest: %(d)s\n    f\xfflters: []\n',
            'syncs:\n  - src: %(s)s\n    dest: %(d)s\xe2\x82\n']
    for i, b in enumerate(bads):
        d = os.path.join(tmp, 'e2e%d' % i)
        os.makedirs(os.path.join(d, 'src'))
        open(os.path.join(d, 'src', 'f'), 'w').write('x')
        spec = os.path.join(d, 'spec.yaml')
        open(spec, 'wb').write((b % {'s': os.path.join(d, 'src'), 'd': os.path.join(d, 'dest')}).encode('latin1'))
        p = subprocess.run([binary, '--spec', spec], stdout=subprocess.PIPE, stderr=subprocess.PIPE, text=True, errors='replace', timeout=60)
        run.count('e2e-reject')
        run.case(('e2e', b), True)
        created = sorted(x for x in os.listdir(d) if x not in ('src', 'spec.yaml'))
        if p.returncode != 18 or created or not (p.stderr + p.stdout).strip():
            run.fail('malformed spec not rejected cleanly: exit %d, created next to the source: %r' % (p.returncode, created),
                     {'spec_text': b, 'exit': p.returncode, 'stderr': p.stderr[-500:]})
    # and a valid spec behaves like SRC DEST
    d = os.path.join(tmp, 'e2ev')
    for sub in ('a', 'b'):
        os.makedirs(os.path.join(d, sub, 'src', 'dir'))
        open(os.path.join(d, sub, 'src', 'dir', 'f'), 'w').write('hello')
        os.utime(os.path.join(d, sub, 'src', 'dir', 'f'), (1000, 1000))
    spec = os.path.join(d, 'spec.yaml')
    open(spec, 'w').write('syncs:\n  - src: %s\n    dest: %s\n' % (os.path.join(d, 'a', 'src'), os.path.join(d, 'a', 'dest')))
    p1 = subprocess.run([binary, '--spec', spec], stdout=subprocess.PIPE, stderr=subprocess.PIPE, text=True, timeout=60)
    p2 = subprocess.run([binary, os.path.join(d, 'b', 'src'), os.path.join(d, 'b', 'dest')], stdout=subprocess.PIPE, stderr=subprocess.PIPE, text=True, timeout=60)
    t1 = sorted(os.path.relpath(os.path.join(r, f), os.path.join(d, 'a', 'dest')) for r, _, fs in os.walk(os.path.join(d, 'a', 'dest')) for f in fs)
    t2 = sorted(os.path.relpath(os.path.join(r, f), os.path.join(d, 'b', 'dest')) for r, _, fs in os.walk(os.path.join(d, 'b', 'dest')) for f in fs)
    run.case(('e2e', 'equiv'), True)
    if p1.returncode != p2.returncode or t1 != t2 or p1.returncode != 0:
        run.fail('spec-file sync differs from SRC DEST sync', {'exit': [p1.returncode, p2.returncode], 'trees': [t1, t2]})


def check(run):
    run.trusted = list(vlib.COMMON_TRUSTED) + [
        'modelled, not verified: clap argument parsing and value-enum matching, yaml-rust scanning (the model starts from the YAML tree the real scanner produced)']
    run.assumptions = ['spec files are compared from the YAML tree delivered by yaml-rust 0.4.5 (tree dump through the harness)']
    run.extra['rule'] = ('full product per behaviour spec{absent+4} x flag{absent+4} x all{absent+4} with the other behaviours randomised, '
                         'one to three syncs, path spellings, hand-written and random mutations of spec texts; filter lists (also with the same filter '
                         'text repeated at several positions) on the command line x in one to three syncs of a spec file: the effective list must be exactly '
                         'the command-line list if given, else the sync\'s own list; a case is non-trivial when '
                         'the implementation accepts it and at least one of spec file / flag / all-destructive / filter is present; distinct by argv+spec text')
    binary = vlib.build_impl()
    vlib.regen_facts(binary)
    run.check_proofs('C16', THEOREMS, extra_targets=['theories/Extract/Ex_settings.vo'])
    jbin = vlib.build_judge('settings')
    tmp = tempfile.mkdtemp(prefix='c16_', dir=vlib.CACHE)
    try:
        cases = gen_cases(run, run.tier)
        run_cases(run, cases, binary, jbin, tmp)
        e2e_reject(run, binary, tmp)
    finally:
        shutil.rmtree(tmp, ignore_errors=True)
    return run.finish(search=None)   # every case already ran the property oracle on the implementation


def replay(run, path):
    r = json.load(open(path))
    print(json.dumps(r, indent=1)[:4000])
    return check(run)
