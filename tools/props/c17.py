"""C17 - The directory walk lists every included entry exactly once and always finishes.

Proof: Props/C17.v over Model/Walker.v (N workers, unbounded job queue, the unfinished-jobs counter,
bounded result queue of capacity C, consumer) - invariants + a measure that decreases on every step.
Tie: harness sub-command `walk` runs the real parallel_walk_dir (thread override 1,2,4,16; optional
slow consumer) and the real handle_get_entries (scripted boss over Comms::Local) on generated
directory trees; the extracted model judges the listed sequence (`admits`), an independent python
walk of the same directory evaluates the property text (oracle); a watchdog turns a hang into a
violation."""
import os, sys, json, tempfile, shutil, subprocess, time
import vlib
import walker_lib as wl

THEOREMS = ['C17_reference_walk', 'C17_exactly_once', 'C17_parent_first', 'C17_no_descent', 'C17_no_descent_ancestors', 'C17_no_descent_unique',
            'C17_step_decreases', 'C17_terminates', 'C17_no_stuck', 'C17_end_of_stream', 'C17_some_run_finishes',
            'C17_error_surfaces', 'C17_no_spurious_error', 'C17_counter_invariant', 'C17_no_panic',
            'C17_admits_spec', 'C17_model_listing_admitted', 'C17_model_failed_listing_admitted',
            'C17_walk_lists_the_visible_entries', 'C17_delivers_a_valid_listing', 'C17_every_run_ends_with_a_valid_listing']

THREADS = [1, 2, 4, 16]
WATCHDOG_S = 60


class Case:
    def __init__(self, kind, tree, mode='W', threads=None, slow=(0, 0), reps=1, root_kind='dir', longchain=None):
        self.kind, self.tree, self.mode = kind, tree, mode
        self.threads = threads or THREADS
        self.slow, self.reps = slow, reps
        self.root_kind = root_kind          # 'dir' | 'missing'  (a non-directory root is just a tree that is a leaf)
        self.longchain = longchain          # kwargs for wl.gen_longchain (the tree depends on the root path length)

    def to_json(self):
        return {'kind': self.kind, 'tree': self.tree, 'mode': self.mode, 'threads': self.threads, 'slow': list(self.slow),
                'reps': self.reps, 'root_kind': self.root_kind, 'longchain': self.longchain}

    @staticmethod
    def from_json(j):
        return Case(j['kind'], j.get('tree'), j.get('mode', 'W'), j.get('threads'), tuple(j.get('slow', (0, 0))),
                    j.get('reps', 1), j.get('root_kind', 'dir'), j.get('longchain'))


def run_one(binary, line, timeout=WATCHDOG_S):
    """One harness request in its own process under a watchdog. Returns the answer line or 'HANG'."""
    try:
        p = subprocess.run([binary, '--verif-harness', 'walk'], input=line + '\n', text=True, timeout=timeout,
                           stdout=subprocess.PIPE, stderr=subprocess.PIPE)
    except subprocess.TimeoutExpired:
        return 'HANG'
    if p.returncode != 0:
        return 'CRASH rc=%d %s' % (p.returncode, p.stderr[-300:].replace('\n', ' '))
    out = p.stdout.splitlines()
    return out[0] if out else 'CRASH no-output'


def run_case(run, binary, case, tmp, idx, pending):
    """Builds the tree, runs the implementation for every thread count, evaluates the oracle at once,
    and queues the judge lines (model verdict is compared after the batch)."""
    root = os.path.join(tmp, 'c%d' % idx, 'root')
    os.makedirs(os.path.dirname(root))
    tree = case.tree
    if case.longchain is not None:
        lc = dict(case.longchain)
        sib = lc.pop('siblings', [])
        tree = wl.gen_longchain(root, siblings=[tuple(s) for s in sib], **lc)
    try:
        if case.root_kind == 'missing':
            tree = wl.F               # the model: read_dir of the root fails
        else:
            wl.build(root, tree)
        tokens = wl.model_tokens(root, tree, case.mode)
        expected, exp_err = wl.py_walk(root, case.mode)
        run.count('kind:' + case.kind)
        run.count('expect:' + ('ERR' if exp_err else 'END'))
        for th in case.threads:
            for rep in range(case.reps):
                if case.mode == 'W':
                    line = 'W %d %d %d %s' % (th, case.slow[0], case.slow[1], wl.hexs(root))
                else:
                    line = 'G %d %s %s' % (th, wl.hexs(root), wl.hexs(wl.SKIP_REGEX))
                ans = run_one(binary, line)
                ents, rest = wl.parse_answer(ans) if not ans.startswith(('HANG', 'CRASH')) else ([], [ans.split()[0]])
                verdict = rest[0] if rest else 'NOVERDICT'
                run.count('threads:%d' % th)
                run.count('mode:' + case.mode)
                run.count('impl:' + verdict)
                nontrivial = len(expected) > 0 or exp_err
                run.case((case.kind, case.mode, th, tokens if len(tokens) < 400 else (len(tokens), hash(tuple(tokens))), case.slow), nontrivial,
                         sample={'kind': case.kind, 'mode': case.mode, 'threads': th, 'entries_expected': len(expected),
                                 'expect_error': exp_err, 'impl': ans[:200]})
                replay = dict(case.to_json(), threads=[th], impl=ans[:2000])
                bad = wl.oracle(ents, verdict, expected, exp_err)
                if bad is None and case.mode == 'G' and rest[1:] != ['LAST']:
                    bad = 'the %s message of the listing was not its last message (%s)' % (
                        'EndOfEntries' if verdict == 'END' else 'Error', ' '.join(rest))
                if bad:
                    run.fail('C17 oracle (%s, %d threads): %s' % (case.kind, th, bad), replay)
                else:
                    pending.append((wl.judge_line(ents, verdict == 'END', tokens),
                                    'END %d' % len(ents) if verdict == 'END' else 'ERR', replay))
    finally:
        wl.rmtree(os.path.dirname(root))


def gen_cases(run, tier):
    rng = run.rng
    quick = tier == 'quick'
    cases = []
    # hand-written shapes
    cases.append(Case('empty-root', wl.D()))
    cases.append(Case('empty-folders', wl.D(('a', wl.D()), ('b', wl.D(('c', wl.D()), ('d', wl.D()))), ('skipe', wl.D()))))
    cases.append(Case('excluded-with-content', wl.D(('skipd', wl.D(('in1', wl.F), ('sub', wl.D(('in2', wl.F))))), ('keep', wl.D(('skipf', wl.F), ('k', wl.F))),
                                                    ('a', wl.D(('skip', wl.D(('deep', wl.D(('x', wl.F))))))))))
    cases.append(Case('links', wl.D(('d', wl.D(('f', wl.F), ('up', wl.L('..')), ('self', wl.L('.')))), ('ld', wl.L('d')), ('lf', wl.L('d/f')),
                                    ('broken', wl.L('nowhere')), ('abs', wl.L('/')), ('loop1', wl.L('loop2')), ('loop2', wl.L('loop1')))))
    cases.append(Case('root-missing', None, root_kind='missing'))
    cases.append(Case('root-is-file', wl.F))
    cases.append(Case('filter-error', wl.D(('a', wl.D(('bad1', wl.F), ('f', wl.F))), ('b', wl.F)), mode='W'))
    cases.append(Case('filter-error-doer', wl.D(('a', wl.D(('b\\s', wl.F), ('f', wl.F))), ('b', wl.F)), mode='G'))
    cases.append(Case('fifo', wl.D(('p', wl.O), ('d', wl.D(('q', wl.O)))), mode='W'))
    # more entries than the result queue holds (1000), fast and slow consumer
    nwide = 5000
    cases.append(Case('wide-5000', wl.gen_wide(nwide), reps=1))
    cases.append(Case('wide-5000-slow-consumer', wl.gen_wide(nwide, n_dirs=20, per_dir=3), slow=(500, 2000), threads=[1, 4, 16]))
    cases.append(Case('wide-dirs', wl.gen_wide(10, n_dirs=400 if quick else 1500, per_dir=3), threads=[1, 2, 16] if quick else THREADS))
    # many sibling DIRECTORIES: every sub-folder of a listed directory is one pending job of the job queue, so these
    # shapes hold thousands of directory jobs at the same moment (6000 below one folder; 80 folders x 80 sub-folders,
    # all 6400 inner ones pending once the outer level is listed).  1 thread is what every unix build really uses:
    # the worker that pushes the jobs is then also the only one that pops them.  (seeded change C17-a)
    cases.append(Case('many-dirs-6000', wl.gen_many_dirs(6000, file_every=10, top_files=5), threads=[1, 4, 16] if quick else THREADS))
    cases.append(Case('dir-grid-80x80', wl.gen_dir_grid(80, 80, leaf_file_every=16), threads=[1, 2, 16] if quick else THREADS))
    cases.append(Case('many-dirs-6000-doer', wl.gen_many_dirs(6000), mode='G', threads=[1] if quick else [1, 4]))
    cases.append(Case('many-dirs-5000-slow-consumer', wl.gen_many_dirs(5000), slow=(500, 2000), threads=[1, 4]))
    cases.append(Case('deep-200', wl.gen_deep(200)))
    cases.append(Case('wide-5000-doer', wl.gen_wide(nwide, n_dirs=5, per_dir=2), mode='G', threads=[1, 4] if quick else THREADS))
    cases.append(Case('deep-200-doer', wl.gen_deep(200), mode='G', threads=[1, 16] if quick else THREADS))
    # unreadable directory (path >= PATH_MAX), alone and next to a lot of other work (workers blocked on a full
    # result queue when the consumer gives up; leaked workers)
    cases.append(Case('unreadable-dir', None, longchain={}))
    cases.append(Case('unreadable-dir-busy', None, longchain={'siblings': [('w%d' % i, wl.gen_wide(600)) for i in range(4)]}, slow=(100, 1000)))
    cases.append(Case('unreadable-dir-doer', None, longchain={'siblings': [('w', wl.gen_wide(1500))]}, mode='G', threads=[1, 4, 16]))
    # random trees
    n_rand = 100 if quick else 1500
    for i in range(n_rand):
        mode = 'G' if i % 4 == 3 else 'W'
        t = wl.gen_random(rng, mode, max_depth=rng.choice([2, 3, 5]), max_breadth=rng.choice([3, 5, 9]), p_err=0.5 if i % 3 == 2 else 0.0)
        cases.append(Case('random', t, mode=mode, threads=THREADS if not quick else [rng.choice([1, 2]), 4, 16],
                          reps=1 if quick else 2))
    if not quick:
        cases.append(Case('wide-20000', wl.gen_wide(20000, n_dirs=50, per_dir=10), slow=(1000, 500)))
        cases.append(Case('deep-400', wl.gen_deep(400)))
        cases.append(Case('many-dirs-20000', wl.gen_many_dirs(20000, file_every=7), threads=[1, 2, 16]))
        cases.append(Case('dir-grid-150x150', wl.gen_dir_grid(150, 150), threads=[1, 4]))
        for i in range(40):
            cases.append(Case('wide-dirs-rep', wl.gen_wide(5, n_dirs=300, per_dir=4), threads=[4, 16], reps=3))
    return cases


def judge_batch(run, jbin, pending):
    if not pending:
        return
    answers = vlib.judge(jbin, [p[0] for p in pending], timeout=1200)
    for (jl, impl_canon, replay), ans in zip(pending, answers):
        run.traces_validated += 1
        kv = dict(x.split('=', 1) for x in ans.replace('expect=END ', 'expect=END_').split() if '=' in x)
        model_canon = kv.get('expect', '?').replace('_', ' ')
        if kv.get('admits') != '1' or model_canon != impl_canon:
            run.broke('correspondence', 'walk', json.dumps({'model': ans, 'impl': impl_canon, 'case': replay})[:3000])


def corpus_cases():
    d = os.path.join(vlib.VERIF, 'corpus', 'C17')
    out = []
    for f in sorted(os.listdir(d)) if os.path.isdir(d) else []:
        if f.endswith('.json'):
            out.append(Case.from_json(json.load(open(os.path.join(d, f)))))
    return out


def setup(run):
    run.trusted = list(vlib.COMMON_TRUSTED) + [
        'modelled, not verified: crossbeam channels (FIFO, linearizable, send fails after the receiver is dropped, recv reports disconnect after the last sender is dropped and the queue is empty), std::thread, SeqCst atomics; one read_dir = one atomic snapshot of the directory',
        'the tie samples thread timings (1, 2, 4, 16 workers, fast and slow consumer); the theorems cover every interleaving of the model']
    run.assumptions = ['the directory tree does not change while it is walked (read_dir snapshot semantics under concurrent modification are out of scope)',
                       'an unreadable directory is obtained without a hook as a directory whose path is >= PATH_MAX bytes (ENAMETOOLONG), a missing root or a root that is a file']
    run.extra['rule'] = ('hand-written shapes (empty, excluded folders with content, links and loops, fifo, filter failure, missing root, 5000 and 20000 entries in one '
                         'directory with fast/slow consumer, hundreds of directories, 6000 (20000) sibling folders and 80x80 (150x150) nested folders = thousands of pending directory jobs, depth 200/400, unreadable directory alone and next to busy workers) and random trees over a '
                         '12-name alphabet; each with 1,2,4,16 walker threads through parallel_walk_dir directly (W) or the real doer handle_get_entries (G); a case is '
                         'non-trivial when the expected listing is non-empty or an error is expected; distinct by kind+mode+threads+tree tokens')
    binary = vlib.build_impl()
    vlib.regen_facts(binary)
    run.check_proofs('C17', THEOREMS, extra_targets=['theories/Extract/Ex_walker.vo'])
    jbin = vlib.build_judge('walker')
    return binary, jbin


def run_all(run, cases, binary, jbin):
    tmp = tempfile.mkdtemp(prefix='c17_', dir='/tmp')
    pending = []
    try:
        for i, c in enumerate(cases):
            if len(run.prop_failures) >= 3:      # enough to report; do not sit through more watchdog timeouts
                break
            run_case(run, binary, c, tmp, i, pending)
        judge_batch(run, jbin, pending)
    finally:
        wl.rmtree(tmp)


UNPRIV = ['setpriv', '--reuid', '65534', '--regid', '65534', '--clear-groups']


def unreadable_subfolder_family(run, binary):
    """A sub-folder that cannot be read for lack of PERMISSION (EACCES; modes 0311 and 0000), on the source or on the destination side, the
    sync run as an unprivileged user: "a read error on any directory surfaces as an error instead of a silently shorter listing".  Oracle:
    the run must not report success; nothing outside the destination, nothing on the source and nothing inside the unreadable folder
    changes (a boss that plans with an incomplete picture of the destination writes through the symlinks that are really there)."""
    import tempfile, shutil
    import e2e
    if os.geteuid() != 0 or not shutil.which('setpriv'):
        run.count('unreadable-subfolder:skipped(no root / setpriv)')
        return
    if e2e.run_cli(binary, ['--version'], prefix=UNPRIV, timeout=30)['exit'] != 0:
        run.count('unreadable-subfolder:skipped(binary not reachable for uid 65534)')
        return
    T = 1_700_000_000_000_000_000
    os.chmod(vlib.CACHE, 0o755)
    base = tempfile.mkdtemp(prefix='c17ur_', dir=vlib.CACHE)
    os.chmod(base, 0o755)
    try:
        for side in ('src', 'dest'):
            for mode in (0o311, 0o000):
                for depth in (1, 2):
                    root = tempfile.mkdtemp(prefix='u_', dir=base)
                    os.chmod(root, 0o777)
                    docs = 'docs' if depth == 1 else 'top/docs'
                    tree = {'': {'k': 'dir'}, 'a.txt': {'k': 'file', 'data': b'a', 'mtime_ns': T}}
                    if depth == 2:
                        tree['top'] = {'k': 'dir'}
                    tree[docs] = {'k': 'dir'}
                    tree[docs + '/report.txt'] = {'k': 'file', 'data': b'report', 'mtime_ns': T + 1}
                    tree[docs + '/notes.txt'] = {'k': 'file', 'data': b'notes', 'mtime_ns': T + 2}
                    e2e.build_tree(os.path.join(root, 'src'), tree)
                    dtree = {k: dict(v) for k, v in tree.items()}
                    # on the destination the folder holds links of the same names that point out of the destination
                    dtree[docs + '/report.txt'] = {'k': 'link', 'text': ('../' * (depth + 1)).encode() + b'decoy/precious.txt'}
                    dtree[docs + '/notes.txt'] = {'k': 'file', 'data': b'old notes', 'mtime_ns': T - 5}
                    e2e.build_tree(os.path.join(root, 'dest'), dtree)
                    e2e.build_tree(os.path.join(root, 'decoy'), {'': {'k': 'dir'}, 'precious.txt': {'k': 'file', 'data': b'precious', 'mtime_ns': T - 9}})
                    for dp, dn, fn in os.walk(root):
                        os.chown(dp, 65534, 65534)
                        for f in fn:
                            os.lchown(os.path.join(dp, f), 65534, 65534)
                    bad = os.path.join(root, side, docs)
                    before = {k: e2e.snapshot(os.path.join(root, k)) for k in ('src', 'dest', 'decoy')}
                    os.chmod(bad, mode)
                    r = e2e.run_cli(binary, [os.path.join(root, 'src') + '/', os.path.join(root, 'dest') + '/'], prefix=UNPRIV, timeout=60)
                    os.chmod(bad, 0o755)
                    after = {k: e2e.snapshot(os.path.join(root, k)) for k in ('src', 'dest', 'decoy')}
                    run.count('unreadable-subfolder:%s:%o:exit:%s' % (side, mode, r['exit']))
                    run.case(('unreadable-subfolder', side, mode, depth), True, sample={'side': side, 'mode': oct(mode), 'exit': r['exit']})
                    run.traces_validated += 1
                    why = None
                    if r['timed_out']:
                        why = 'the run did not finish'
                    elif r['exit'] == 0:
                        why = 'the run reported success although %s/%s could not be listed' % (side, docs)
                    elif after['decoy'] != before['decoy'] or after['src'] != before['src']:
                        why = 'a tree outside the destination changed: %s' % [k for k in ('decoy', 'src') if after[k] != before[k]]
                    elif any(after['dest'].get(k) != v for k, v in before['dest'].items() if k == docs or k.startswith(docs + '/')):
                        why = 'entries inside the folder that could not be listed were changed'
                    if why:
                        run.fail('C17 (a sub-folder without read permission, %s side, mode %o): %s' % (side, mode, why),
                                 {'kind': 'unreadable-subfolder', 'side': side, 'mode': oct(mode), 'depth': depth, 'exit': r['exit'], 'text': (r['stdout'] + r['stderr'])[-400:]})
                    shutil.rmtree(root, ignore_errors=True)
    finally:
        shutil.rmtree(base, ignore_errors=True)


def few_cpus_family(run, binary):
    """The walk with the process confined to 1, 2, 3 and 4 CPUs (taskset): the number of walker threads is chosen from the number of CPUs the
    process may use; whatever that number is, the listing must be complete (a choice of 0 threads ends the listing at once, empty and
    properly terminated)."""
    import shutil, tempfile
    import e2e
    if not shutil.which('taskset'):
        run.count('few-cpus:taskset-missing(skipped)')
        return
    try:
        avail = sorted(os.sched_getaffinity(0))
    except AttributeError:
        return
    T = 1_700_000_000_000_000_000
    base = tempfile.mkdtemp(prefix='c17cpu_', dir=vlib.CACHE)
    try:
        for ncpu in (1, 2, 3, 4):
            if ncpu > len(avail):
                continue
            root = os.path.join(base, 'n%d' % ncpu)
            os.makedirs(root)
            src = {'': {'k': 'dir'}}
            for i in range(4):
                src['d%d' % i] = {'k': 'dir'}
                for j in range(3):
                    src['d%d/f%d' % (i, j)] = {'k': 'file', 'data': b'x%d' % j, 'mtime_ns': T + j}
            e2e.build_tree(os.path.join(root, 's'), src)
            r = e2e.run_cli(binary, [os.path.join(root, 's') + '/', os.path.join(root, 'd') + '/'], timeout=60,
                            prefix=['taskset', '-c', ','.join(str(c) for c in avail[:ncpu])])
            s1, d1 = e2e.snapshot(os.path.join(root, 's')), e2e.snapshot(os.path.join(root, 'd'))
            run.count('few-cpus:%d:exit:%s' % (ncpu, r['exit']))
            run.case(('few-cpus', ncpu), True, sample={'cpus': ncpu, 'exit': r['exit'], 'entries_copied': len(d1) - 1})
            run.traces_validated += 1
            if r['timed_out']:
                run.fail('C17 (process confined to %d CPU(s)): the walk did not finish' % ncpu, {'kind': 'few-cpus', 'cpus': ncpu})
            elif r['exit'] == 0 and d1 != s1:
                run.fail('C17 (process confined to %d CPU(s)): the run reported success but only %d of %d entries were listed and copied' % (ncpu, len(d1) - 1, len(s1) - 1),
                         {'kind': 'few-cpus', 'cpus': ncpu, 'exit': r['exit'], 'text': (r['stdout'] + r['stderr'])[-300:]})
    finally:
        shutil.rmtree(base, ignore_errors=True)


def readdir_fault_family(run, binary):
    """A fault INSIDE the reading of a directory (the n-th getdents64 call of the process fails: EINTR, EIO - injected with strace), i.e.
    after some of the folder's entries have already been reported.  "A read error on any directory surfaces as an error instead of a
    silently shorter listing", and every entry is listed exactly once: a run that reports success must have produced the mirror - nothing
    missing (the rest of the folder dropped) and nothing planned twice (the folder read again from the start)."""
    import shutil, tempfile, re
    import e2e
    if not shutil.which('strace'):
        run.count('readdir-fault:strace-missing(skipped)')
        return
    T = 1_700_000_000_000_000_000
    base = tempfile.mkdtemp(prefix='c17rd_', dir=vlib.CACHE)
    try:
        probe = e2e.run_cli(binary, ['--version'], prefix=['strace', '-f', '-o', '/dev/null', '-e', 'trace=getdents64'], timeout=30)
        if probe['exit'] != 0:
            run.count('readdir-fault:strace-unusable(skipped)')
            return
        for errno_name in ('EINTR', 'EIO'):
            for when in (1, 2, 3, 4, 6):
                root = os.path.join(base, '%s%d' % (errno_name, when))
                os.makedirs(root)
                src = {'': {'k': 'dir'}}
                for i in range(3):
                    src['d%d' % i] = {'k': 'dir'}
                    src['d%d/sub' % i] = {'k': 'dir'}
                    for j in range(4):
                        src['d%d/f%d' % (i, j)] = {'k': 'file', 'data': b'x%d' % j, 'mtime_ns': T + j}
                    src['d%d/sub/g' % i] = {'k': 'file', 'data': b'g', 'mtime_ns': T}
                e2e.build_tree(os.path.join(root, 's'), src)
                r = e2e.run_cli(binary, [os.path.join(root, 's') + '/', os.path.join(root, 'd') + '/', '--dry-run'], timeout=60,
                                prefix=['strace', '-f', '-o', '/dev/null', '-e', 'trace=getdents64', '-e', 'inject=getdents64:error=%s:when=%d' % (errno_name, when)])
                text = r['stdout'] + r['stderr']
                would = [l.strip() for l in text.splitlines() if l.strip().startswith('Would ')]
                run.count('readdir-fault:%s:exit:%s' % (errno_name, r['exit']))
                run.case(('readdir-fault', errno_name, when), True, sample={'errno': errno_name, 'nth_getdents64': when, 'exit': r['exit'], 'would_lines': len(would)})
                run.traces_validated += 1
                bad = None
                if r['timed_out']:
                    bad = 'the walk did not finish'
                elif r['exit'] == 0:
                    per_entry = [l for l in would if re.match(r"Would (copy|create) ", l) and "'" in l]
                    if len(per_entry) != len(set(per_entry)):
                        dup = sorted(set(l for l in per_entry if per_entry.count(l) > 1))[:2]
                        bad = 'the run reported success and planned entries twice (a folder was read again after the fault): %s' % dup
                    elif len(per_entry) and len(per_entry) < len(src) - 1:
                        bad = 'the run reported success with %d of %d entries planned: the listing is silently short' % (len(per_entry), len(src) - 1)
                if bad:
                    run.fail('C17 (the %d-th getdents64 call fails with %s): %s' % (when, errno_name, bad),
                             {'kind': 'readdir-fault', 'errno': errno_name, 'when': when, 'exit': r['exit'], 'text': text[-500:]})
                shutil.rmtree(root, ignore_errors=True)
    finally:
        shutil.rmtree(base, ignore_errors=True)


def many_folders_few_fds_family(run, binary):
    """Thousands of small folders listed with a low limit on open files (ulimit -n 256): the walk holds a directory open only while entries
    of it are waiting in the bounded result queue, so the number of descriptors it needs is bounded whatever the tree shape - a fully readable
    tree must be listed to its end."""
    import shutil, tempfile
    import e2e
    base = tempfile.mkdtemp(prefix='c17fd_', dir=vlib.CACHE)
    try:
        root = os.path.join(base, 's')
        os.makedirs(root)
        os.symlink('nowhere', os.path.join(base, 'target'))
        n_dirs = 1500
        for i in range(n_dirs):
            d = os.path.join(root, 'g%02d' % (i % 30), 'd%04d' % i)
            os.makedirs(d)
            for j in range(16):
                os.symlink('../../../target', os.path.join(d, 'l%02d' % j))
        total = n_dirs * 17 + 30
        for limit in (1024, 256):
            r = e2e.run_cli(binary, [root + '/', os.path.join(base, 'out') + '/', '--dry-run', '--quiet'], timeout=120,
                            prefix=['sh', '-c', 'ulimit -n %d; exec "$@"' % limit, 'sh'])
            run.count('few-fds:%d:exit:%s' % (limit, 'hang' if r['timed_out'] else r['exit']))
            run.case(('few-fds', limit), True, sample={'folders': n_dirs + 30, 'entries': total, 'open_files_limit': limit, 'exit': r['exit']})
            run.traces_validated += 1
            if r['timed_out'] or r['exit'] != 0:
                run.fail('C17 (%d folders of 16 links each, at most %d open files): the listing of a fully readable tree did not reach its end: %s' % (
                    n_dirs, limit, 'hang' if r['timed_out'] else (r['stdout'] + r['stderr'])[-300:]), {'kind': 'few-fds', 'limit': limit, 'exit': r['exit']})
    finally:
        shutil.rmtree(base, ignore_errors=True)


def spawn_failure_family(run, binary):
    """A thread that cannot be started (pthread_create fails with EAGAIN: the process is at its thread or memory limit) at any of the
    thread creations of a local sync - the two doer threads, the walker threads of either side, the progress thread.  The property's
    clause: a listing is never silently shorter than the folder - a run that reports success must have seen everything.  Oracle: exit 0
    => the destination mirrors the source; any failure status is fine (the pinned tree panics with 'Failed to spawn thread', which is a
    resource failure, not an input); a hang is not.  The fault is delivered by a 25-line LD_PRELOAD shim (harness/shim/failspawn.c)."""
    import subprocess, tempfile, shutil
    cc = shutil.which('gcc') or shutil.which('cc') or shutil.which('clang')
    if cc is None:
        run.count('spawn-failure:no-C-compiler(skipped)')
        return
    src_c = os.path.join(vlib.VERIF, 'harness', 'shim', 'failspawn.c')
    so = os.path.join(vlib.BIN, 'failspawn.so')
    os.makedirs(vlib.BIN, exist_ok=True)
    if not os.path.exists(so) or os.path.getmtime(so) < os.path.getmtime(src_c):
        p = subprocess.run([cc, '-shared', '-fPIC', '-O1', '-o', so, src_c, '-ldl', '-lpthread'], stdout=subprocess.PIPE, stderr=subprocess.STDOUT, text=True)
        if p.returncode != 0:
            run.count('spawn-failure:shim-build-failed(skipped)')
            return
    import e2e
    T = 1_700_000_000_000_000_000
    base = tempfile.mkdtemp(prefix='c17sp_', dir=vlib.CACHE)
    try:
        for n in range(0, 10):
            root = os.path.join(base, 'n%d' % n)
            src = {'': {'k': 'dir'}, 'a.txt': {'k': 'file', 'data': b'a', 'mtime_ns': T}, 'sub': {'k': 'dir'}, 'sub/b.txt': {'k': 'file', 'data': b'bb', 'mtime_ns': T + 1},
                   'sub/deep': {'k': 'dir'}, 'sub/deep/c': {'k': 'file', 'data': b'c', 'mtime_ns': T + 2}}
            dest = {'': {'k': 'dir'}, 'a.txt': {'k': 'file', 'data': b'a', 'mtime_ns': T}, 'stale': {'k': 'file', 'data': b's', 'mtime_ns': T - 5},
                    'sub': {'k': 'dir'}, 'sub/b.txt': {'k': 'file', 'data': b'bb', 'mtime_ns': T + 1}}
            os.makedirs(root)
            e2e.build_tree(os.path.join(root, 's'), src)
            e2e.build_tree(os.path.join(root, 'd'), dest)
            log = os.path.join(root, 'spawn.log')
            r = e2e.run_cli(binary, [os.path.join(root, 's') + '/', os.path.join(root, 'd') + '/'], timeout=40,
                            env={'LD_PRELOAD': so, 'VERIF_SHIM_SPAWN_FAIL_NTH': str(n), 'VERIF_SHIM_SPAWN_LOG': log})
            fired = os.path.exists(log)
            run.count('spawn-failure:%s' % ('fault-delivered' if fired else 'fewer-threads-than-n'))
            run.case(('spawn-failure', n), fired, sample={'nth_thread': n, 'fault_delivered': fired, 'exit': r['exit']} if fired else None)
            run.traces_validated += 1
            s1, d1 = e2e.snapshot(os.path.join(root, 's')), e2e.snapshot(os.path.join(root, 'd'))
            bad = None
            if r['timed_out']:
                bad = 'the run did not finish (hang) after thread creation %d failed' % n
            elif r['exit'] == 0 and d1 != s1:
                bad = ('thread creation %d failed, the run reported success (exit 0) but the destination is not a mirror: a listing was silently short '
                       '(missing %s, extra %s)' % (n, sorted(set(s1) - set(d1))[:4], sorted(set(d1) - set(s1))[:4]))
            if bad:
                run.fail('C17 (thread cannot be started): ' + bad, {'kind': 'spawn-failure', 'nth': n, 'exit': r['exit'], 'stderr': r['stderr'][-400:]})
            shutil.rmtree(root, ignore_errors=True)
    finally:
        shutil.rmtree(base, ignore_errors=True)


def check(run):
    binary, jbin = setup(run)
    cases = corpus_cases() + gen_cases(run, run.tier)
    run_all(run, cases, binary, jbin)
    spawn_failure_family(run, binary)
    unreadable_subfolder_family(run, binary)
    few_cpus_family(run, binary)
    readdir_fault_family(run, binary)
    many_folders_few_fds_family(run, binary)
    return run.finish(search=None)     # every case already ran the property oracle on the implementation


def replay(run, path):
    r = json.load(open(path))
    print(json.dumps({k: v for k, v in r.items() if k != 'tree'}, indent=1)[:3000])
    binary, jbin = setup(run)
    if 'kind' in r:
        c = Case.from_json(r)
        c.reps = max(c.reps, 5)
        run_all(run, [c], binary, jbin)
    else:
        run_all(run, corpus_cases() + gen_cases(run, run.tier), binary, jbin)
    return run.finish(search=None)
