"""C18 - No input makes rjrssync crash.

Proof (Props/C18.v): for every plan and every chunking the progress accounting with its three debug
assertions never panics (Model/Progress.v); the histogram index is in bounds for every value and Display
divides by a positive maximum (Model/Histogram.v); every entry that entry_details_from_metadata lets through
has a computable serialized size, so the expect() of memory_bound_channel.rs cannot fire for listed entries and
the commands built from them (Model/Meta.v + Model/Bincode.v); every exit-status literal of the source text is a
documented one, except the doer-internal ones (Gen/Facts_exits.v).  That is a PARTIAL proof of the property:
clap, yaml-rust, regex, indicatif, env_logger and the operating system cannot be expressed by such a model.

Tie: harness sub-command `nopanic` drives the REAL Progress object with generated call sequences, the REAL sync()
with scripted doers (arbitrary chunk lists, visible / hidden bar, dry run), the REAL histogram and the REAL
entry_details_from_metadata on files created with chosen times and types - each under catch_unwind - and the
extracted model answers the same request lines.

Property oracle (tests, written from the property text, independent of the model): the real CLI on generated odd
trees, argument vectors and spec texts (local, through the fake ssh, on a pseudo terminal, doer mode by hand):
exit status in {0,2,10,11,12,18,19}, no signal, no panic text, an error message whenever the status is not 0."""
import os, sys, json, time, tempfile, hashlib, stat, socket
from concurrent.futures import ThreadPoolExecutor
import vlib
import crash_lib as cl

THEOREMS = ['C18_progress_no_panic', 'C18_progress_assertions_hold', 'C18_progress_all_sent', 'C18_real_reader_satisfies_premise',
            'C18_trailing_empty_chunk_refuted', 'C18_trailing_empty_chunk_marker_refuted', 'C18_byte_totals_no_panic',
            'C18_unfixed_totals_refuted', 'C18_progress_constants_match_code',
            'C18_hist_add_in_bounds', 'C18_hist_adds_no_panic', 'C18_hist_display_total', 'C18_hist_display_max_positive', 'C18_hist_bucket_bound',
            'C18_meta_ok_encodable', 'C18_listed_entry_never_panics_send', 'C18_root_never_panics_send', 'C18_commands_from_listed_never_panic',
            'C18_pre_epoch_unfixed_refuted',
            'C18_exit_codes_boss_documented', 'C18_exit_codes_doer_classified', 'C18_doer_status_refuted', 'C18_doer_os_status', 'C18_exits_outside_known']

MIN = 1048576
U64 = 2 ** 64 - 1
SIZES = [0, 1, 5, 10, 4095, 4096, 4097, MIN - 1, MIN, MIN + 1, 2 * MIN, 3 * MIN + 7, 2 ** 32, 2 ** 32 + 1, 2 ** 63 - 1, 2 ** 63, U64 - 1, U64]
SMALL_SIZES = [0, 0, 1, 10, 4096, 70000, MIN - 1, MIN, MIN + 1, 2 * MIN + 5, 3 * MIN]


# ------------------------------------------------------------------------------------------------
# correspondence: request generators (the same line goes to the harness and to the judge)
def ent(rng, sizes=SIZES):
    k = rng.randrange(4)
    return 'F%d' % rng.choice(sizes) if k < 2 else ('D' if k == 2 else 'L')


def ents(rng, lo, hi, sizes=SIZES):
    n = rng.randrange(lo, hi + 1)
    return ','.join(ent(rng, sizes) for _ in range(n)) or '-'


def gen_p_line(rng):
    """Progress::new on a plan, optional overrides of the private counters, an arbitrary call sequence."""
    det = rng.choice('01')
    dels, copies = ents(rng, 0, 4), ents(rng, 0, 5)
    ov = '-/-/-'
    r = rng.random()
    if r < 0.12:
        q = lambda: '%d,%d,%d,%d' % (rng.choice([0, MIN, U64 - MIN, U64 - 1, U64]), rng.choice([0, 1, 2 ** 32 - 2, 2 ** 32 - 1]),
                                     rng.choice([0, 1, 2 ** 32 - 2, 2 ** 32 - 1]), rng.choice([0, 5, U64 - 3, U64]))
        ov = '%s/%s/%s' % (q() if rng.random() < 0.6 else '-', q() if rng.random() < 0.8 else '-', rng.choice(['-', '0', str(MIN), str(U64)]))
    calls = []
    wild = rng.random() < 0.3
    for _ in range(rng.randrange(0, 16)):
        k = rng.randrange(10)
        if k < 2:
            calls.append('l')
        elif k == 2:
            calls.append('m')
        elif k == 3:
            calls.append('d')
        elif k == 4:
            calls.append('c' + ent(rng))
        elif wild:
            fs = rng.choice(SIZES)
            st = rng.choice([0, 0, fs // 2, fs, max(fs - 1, 0), rng.choice(SIZES)])
            sz = rng.choice([0, 1, max(fs - st, 0), rng.choice(SIZES)])
            calls.append('p%d:%d:%d' % (st, sz, fs))
        else:
            fs = rng.choice(SIZES)
            st = rng.choice([0, 0, fs // 2, fs, max(fs - 1, 0)])
            sz = rng.choice([0, 1, max(fs - st, 0), max(fs - st, 0) // 2])
            calls.append('p%d:%d:%d' % (st, sz, fs))
    if rng.random() < 0.3:
        calls.append('a')
    return 'P %s D%s C%s O%s K %s' % (det, dels, copies, ov, ' '.join(calls))


def split_chunks(rng, size):
    """A well-formed reply for a file of `size` bytes: chunk lengths summing to it, flags 1..1 0."""
    if size == 0:
        return [(0, 0)]
    k = rng.choice([1, 1, 2, 3, 5])
    cuts = sorted(rng.randrange(1, size) for _ in range(k - 1)) if size > 1 else []
    cuts = [c for i, c in enumerate(cuts) if i == 0 or c != cuts[i - 1]]
    bounds = [0] + cuts + [size]
    lens = [bounds[i + 1] - bounds[i] for i in range(len(bounds) - 1)]
    return [(n, 1) for n in lens[:-1]] + [(lens[-1], 0)]


def mutate_chunks(rng, cs, size):
    k = rng.randrange(9)
    cs = list(cs)
    if k == 0:
        cs.append((0, 0)); cs[-2] = (cs[-2][0], 1)                   # trailing empty chunk (the refuted premise)
    elif k == 1:
        cs.insert(0, (0, 1))                                         # empty first chunk
    elif k == 2 and len(cs) > 1:
        i = rng.randrange(1, len(cs)); cs.insert(i, (0, 1))           # empty chunk in the middle
    elif k == 3:
        cs[-1] = (cs[-1][0] + rng.choice([1, 5, 4096]), 0)            # the file grew
    elif k == 4:
        cs[-1] = (max(cs[-1][0] - 1, 0), 0)                           # the file shrank
    elif k == 5:
        cs[-1] = (cs[-1][0], 1)                                      # never says "last": the doer then hangs up
    elif k == 6:
        cs = cs + [(rng.choice([1, 10]), 0)]; cs[-2] = (cs[-2][0], 1)  # extra data after the end
    elif k == 7:
        cs = cs + [(0, 1), (0, 1), (0, 0)]; cs[-4] = (cs[-4][0], 1)    # several empty chunks after the end
    else:
        cs = [(0, 1)] * rng.choice([1, 3]) + cs
    return cs


def gen_b_line(rng, mode=None):
    """The real sync() with scripted doers."""
    det, dry = rng.choice('01'), ('1' if rng.random() < 0.2 else '0')
    dels = ents(rng, 0, 3, SMALL_SIZES)
    n = rng.randrange(0, 5)
    copies, answers = [], []
    bad = mode == 'bad' or (mode is None and rng.random() < 0.5)
    for _ in range(n):
        e = ent(rng, SMALL_SIZES)
        copies.append(e)
        if e[0] == 'F':
            size = int(e[1:])
            cs = split_chunks(rng, size)
            if bad and rng.random() < 0.6:
                cs = mutate_chunks(rng, cs, size)
            answers.append(','.join('%d:%d' % c for c in cs))
    if bad and answers and rng.random() < 0.15:
        answers = answers[:-1]                                        # the last request is never answered
    return 'B %s %s D%s C%s A%s' % (det, dry, dels, ','.join(copies) or '-', ';'.join(answers) or '-')


def ideal_bucket(v):
    return 0 if v == 0 else len(str(v)) - 1


HIST_VALUES = [0, 1, 9, 10, 11, 99, 100, 101, 999, 1000, 1001] + [10 ** k - 1 for k in range(2, 20)] + [10 ** k for k in range(2, 20)] + \
              [10 ** k + 1 for k in range(2, 20)] + [2 ** 32, 2 ** 53, 2 ** 53 + 1, 2 ** 63 - 1, 2 ** 63, U64 - 1, U64, 9007199254740993, 4 * 10 ** 18]


def gen_h_values(rng):
    n = rng.choice([0, 1, 2, 5, 12, 30])
    return [rng.choice(HIST_VALUES) if rng.random() < 0.7 else rng.randrange(0, rng.choice([100, 10 ** 6, 10 ** 12, U64])) for _ in range(n)]


def run_harness_batches(binary, lines, batch=150):
    out = []
    for i in range(0, len(lines), batch):
        out += vlib.harness(binary, 'nopanic', lines[i:i + batch], timeout=180)
    return out


def canon_b(ans):
    cls, _, ms = ans.partition(' ; ')
    return cls.strip(), ms.split()


def correspondence(run, binary, jbin, tier):
    rng = run.rng
    quick = tier == 'quick'
    # ---- ProgressValues constructors
    vlines = ['V F%d' % s for s in SIZES] + ['V D', 'V L', 'VD']
    for fs in SIZES:
        for st in [0, 1, fs // 2, max(fs - 1, 0), fs]:
            for sz in [0, 1, max(fs - st, 0), max(fs - st - 1, 0), U64]:
                vlines.append('VP %d %d %d' % (st, sz, fs))
    vlines = sorted(set(vlines))
    # ---- call sequences on the real Progress
    fixed_p = ['P 1 DD,F7 CD,L,F0,F10,F3145728 O-/-/- K l d l d m l cD l cL l l p0:0:0 l l p0:4:10 l p4:6:10 l l p0:1048576:3145728 l p1048576:2097152:3145728 a',
               'P 0 D- CF5 O-/-/- K m l p0:5:5 l p5:0:5 a',
               'P 1 D- CF10 O-/-/- K m l p0:10:10 l p10:0:10 l p10:0:10 a',
               'P 0 D- CF5 O-/1,2,4294967295,0/- K cD', 'P 0 DD C- O-/1,4294967295,0,0/- K d',
               'P 0 D- CF9223372036854775807,F9223372036854775807,F9223372036854775807 O-/-/- K m p0:9223372036854775807:9223372036854775807 p0:9223372036854775807:9223372036854775807 p0:9223372036854775807:9223372036854775807 a',
               'P 1 D- C- O-/5,0,0,0/9 K l', 'P 1 DD CD O-/-/- K a', 'P 0 D- C- O-/-/- K a m l']
    plines = fixed_p + [gen_p_line(rng) for _ in range(400 if quick else 6000)]
    # ---- the real boss with scripted doers
    fixed_b = ['B 1 0 DD,F7 CD,L,F0,F10,F3145728 A0:0;4:1,6:0;1048576:1,2097152:0', 'B 0 0 D- CF5 A5:1,0:0', 'B 1 0 D- CF10 A10:1,0:1,0:0',
               'B 0 1 DD CF5,D A-', 'B 0 0 D- CF5 A-', 'B 1 0 D- CF0 A0:0', 'B 1 0 D- CF0 A0:1,0:0', 'B 0 0 D- CF1048577 A1048576:1,1:0',
               'B 1 0 DD,D,D CF2097152,F1048576,F1048575 A1048576:1,1048576:0;1048576:0;1048575:0']
    blines = fixed_b + [gen_b_line(rng) for _ in range(160 if quick else 2500)]
    # ---- histogram
    hvals = [[0], [], [1], [U64], [10 ** 15 - 1], [10 ** 16 - 1], [0, 1, 9, 10, 99, 1500, 1500, 20000000, U64]] + [gen_h_values(rng) for _ in range(120 if quick else 2000)]
    hlines = ['H' + ''.join(' %d' % v for v in vs) for vs in hvals]
    lines = vlines + plines + blines + hlines
    t0 = time.time()
    real = run_harness_batches(binary, lines)
    model = vlib.judge(jbin, lines, timeout=1200)
    if len(real) != len(lines) or len(model) != len(lines):
        run.broke('correspondence', 'nopanic', 'answers missing: %d requests, %d real, %d model' % (len(lines), len(real), len(model)))
        return
    nv, np_, nb = len(vlines), len(plines), len(blines)
    for i, (l, r, m) in enumerate(zip(lines, real, model)):
        if i < nv + np_:
            kind = 'values' if i < nv else 'calls'
            run.count('tie:' + kind)
            if 'PANIC' in r:
                run.count('tie:%s:panic-outcomes' % kind)
            run.traces_validated += 1
            run.case(('tie', l), nontrivial=True, sample={'request': l[:200], 'impl': r[:200]} if i in (nv, nv + 1) else None)
            if r != m:
                run.broke('correspondence', 'progress-' + kind, json.dumps({'request': l, 'impl': r, 'model': m})[:2500])
        elif i < nv + np_ + nb:
            run.count('tie:boss')
            run.traces_validated += 1
            rc, rm = canon_b(r)
            mc, mm = canon_b(m)
            run.count('tie:boss:' + rc)
            run.case(('tie', l), nontrivial=True, sample={'request': l[:200], 'impl': r[:200]} if i == nv + np_ else None)
            ok = rc == mc and (rm == mm if rc != 'panic' else rm == mm[:len(rm)])
            if not ok:
                run.broke('correspondence', 'boss-progress', json.dumps({'request': l, 'impl': r, 'model': m})[:2500])
        else:
            vs = hvals[i - nv - np_ - nb]
            run.count('tie:histogram')
            run.traces_validated += 1
            run.case(('tie', l), nontrivial=bool(vs))
            check_hist(run, jbin, l, vs, r, m)
    run.notes.append('correspondence: %d requests in %.1fs' % (len(lines), time.time() - t0))


def check_hist(run, jbin, line, vs, real, model):
    if real == 'PANIC':
        run.broke('correspondence', 'histogram', json.dumps({'request': line[:300], 'impl': real, 'model': model})[:2500])
        return
    kv = dict(x.split('=', 1) for x in real.split(' ', 2))
    ridx = [] if kv['idx'] == '-' else [int(x) for x in kv['idx'].split(',')]
    midx_txt = dict(x.split('=', 1) for x in model.split(' ', 2))['idx']
    midx = [] if midx_txt == '-' else [int(x) for x in midx_txt.split(',')]
    # the model's index is the mathematical one (independent computation here)
    if midx != [ideal_bucket(v) for v in vs]:
        run.broke('correspondence', 'histogram-ideal-index', json.dumps({'values': vs[:20], 'model': midx[:20]}))
        return
    exact = True
    for v, ri, mi in zip(vs, ridx, midx):
        if ri == mi:
            continue
        exact = False
        # float rounding just below a power of ten: one bucket up, never beyond 19, never anything else
        near = ri == mi + 1 and ri <= 19 and v >= 10 ** 15 - 1 and (10 ** (mi + 1) - v) * 10 ** 15 <= 2 * 10 ** (mi + 1)
        run.count('tie:histogram:rounded-up')
        if not near:
            run.broke('correspondence', 'histogram-index', json.dumps({'value': v, 'impl_bucket': ri, 'ideal': mi}))
            return
    if len(ridx) != len(vs) or any(i > 19 for i in ridx):
        run.broke('correspondence', 'histogram-index', json.dumps({'values': vs[:20], 'impl': ridx[:20]}))
        return
    if exact:
        if real != model:
            run.broke('correspondence', 'histogram', json.dumps({'request': line[:300], 'impl': real, 'model': model})[:2500])
    else:
        # growth, counting and Display with the indices the real code used
        m2 = vlib.judge(jbin, ['HX' + ''.join(' %d' % i for i in ridx)])[0]
        if m2 != real:
            run.broke('correspondence', 'histogram-given-index', json.dumps({'request': line[:300], 'impl': real, 'model': m2})[:2500])


# ---- entry metadata on real files
def meta_correspondence(run, binary, jbin):
    rng = run.rng
    for where in ('/tmp', '/dev/shm'):
        d = tempfile.mkdtemp(prefix='c18meta_', dir=where)
        socks = []
        try:
            paths = []
            for i, ns in enumerate(cl.MTIMES_NS + [rng.randrange(-2 ** 40, 2 ** 40) for _ in range(10)]):
                p = os.path.join(d, 'f%d' % i)
                with open(p, 'wb') as f:
                    f.write(b'x' * (i % 5))
                try:
                    os.utime(p, ns=(ns, ns))
                except (OverflowError, OSError):
                    run.count('meta:time-refused-by-%s' % ('tmpfs' if where == '/dev/shm' else 'ext4'))
                paths.append(p)
            os.mkdir(os.path.join(d, 'dir')); paths.append(os.path.join(d, 'dir'))
            try:
                os.utime(os.path.join(d, 'dir'), ns=(-10 ** 18, -10 ** 18))
            except (OverflowError, OSError):
                pass
            os.mkfifo(os.path.join(d, 'fifo')); paths.append(os.path.join(d, 'fifo'))
            s = socket.socket(socket.AF_UNIX); s.bind(os.path.join(d, 'sock')); socks.append(s); paths.append(os.path.join(d, 'sock'))
            os.mknod(os.path.join(d, 'cdev'), 0o644 | stat.S_IFCHR, os.makedev(1, 3)); paths.append(os.path.join(d, 'cdev'))
            os.mknod(os.path.join(d, 'bdev'), 0o644 | stat.S_IFBLK, os.makedev(7, 250)); paths.append(os.path.join(d, 'bdev'))
            for nm, target in (('l_file', 'f3'), ('l_dir', 'dir'), ('l_dangling', 'nowhere'), ('l_loop', 'l_loop'), ('l_fifo', 'fifo'), ('l_abs', '/'), ('l_nonutf8', b't\xffx')):
                os.symlink(target, os.path.join(os.fsencode(d), os.fsencode(nm)))
                try:
                    os.utime(os.path.join(d, nm), ns=(-5 * 10 ** 9, -5 * 10 ** 9), follow_symlinks=False)
                except (OSError, NotImplementedError):
                    pass
                paths.append(os.path.join(d, nm))
            big = os.path.join(d, 'big')
            with open(big, 'wb') as f:
                f.truncate(2 ** 63 - 1 if where == '/dev/shm' else 2 ** 40)
            paths.append(big)
            paths.append(os.path.join(d, 'missing'))
            real = vlib.harness(binary, 'nopanic', ['M ' + os.fsencode(p).hex() for p in paths])
            mlines, expect_noent = [], []
            for p in paths:
                try:
                    st = os.lstat(p)
                except FileNotFoundError:
                    mlines.append(None)
                    continue
                if stat.S_ISDIR(st.st_mode):
                    mlines.append('M D')
                elif stat.S_ISREG(st.st_mode):
                    mlines.append('M F %d %d %d' % (st.st_mtime_ns // 10 ** 9, st.st_mtime_ns % 10 ** 9, st.st_size))
                elif stat.S_ISLNK(st.st_mode):
                    try:
                        t = os.stat(p)
                        k = 'f' if stat.S_ISREG(t.st_mode) else ('d' if stat.S_ISDIR(t.st_mode) else 'u')
                    except OSError:
                        k = 'u'
                    mlines.append('M L ' + k)
                else:
                    mlines.append('M O')
            model = vlib.judge(jbin, [m for m in mlines if m is not None])
            mi = 0
            for p, r, ml in zip(paths, real, mlines):
                run.traces_validated += 1
                run.count('tie:meta')
                if ml is None:
                    exp = 'NOENT'
                else:
                    exp = model[mi]; mi += 1
                rr = r
                if r.startswith('L '):                      # the link text is C12's business
                    f = r.split()
                    rr = ' '.join([f[0], f[1]] + f[3:])
                run.count('tie:meta:' + rr.split()[0] + (':' + rr.split()[1] if rr.startswith('ERR') else ''))
                run.case(('meta', where, os.path.basename(p), ml), nontrivial=True)
                if rr != exp:
                    run.broke('correspondence', 'entry-metadata', json.dumps({'path': p, 'lstat': ml, 'impl': r, 'model': exp}))
        finally:
            for s in socks:
                s.close()
            cl.rmtree(d)


# ------------------------------------------------------------------------------------------------
# end to end
def corpus_cases():
    d = os.path.join(vlib.VERIF, 'corpus', 'C18')
    out = []
    for f in sorted(os.listdir(d)) if os.path.isdir(d) else []:
        if f.endswith('.json'):
            j = json.load(open(os.path.join(d, f)))
            c = j.get('case', j)
            c['_corpus'] = f
            out.append(c)
    return out


def gen_cases(rng, tier):
    q = tier == 'quick'
    cases = []
    for k in ['huge-dry', 'huge-delete', 'huge-equal', 'huge-dry-stats']:
        cases.append(cl.gen_huge_case(rng, k[5:]))
    n = {'tree': 500, 'args': 600, 'spec': 500, 'doer': 80, 'remote': 110, 'pty': 36, 'huge': 8} if q else \
        {'tree': 9000, 'args': 12000, 'spec': 9000, 'doer': 1000, 'remote': 1500, 'pty': 500, 'huge': 60}
    for text in cl.SPEC_HANDMADE:
        cases.append(cl.gen_spec_case(rng, text))
    key = b'00112233445566778899aabbccddeeff\n'
    for argv, stdin, listen in ([[b'--doer', b'--port', b'@PORT@'], key, True], [[b'--doer'], key, False], [[b'--doer'], b'', False],
                                [[b'--doer', b'--port', b'0'], key, False], [[b'--doer', b'--log-filter', b'trace'], key, False],
                                [[b'--doer', b'--dump-memory-usage'], key, False], [[b'--doer', b'--port', b'70000'], key, False]):
        cases.append({'family': 'doer', 'kind': 'direct', 'setup': [], 'argv': [cl.hx(a) for a in argv], 'stdin': cl.hx(stdin), 'place': 'LL',
                      'listen': listen, 'timeout': 20})
    # argument values that are not valid Unicode, in every position where a value is taken (a path-like option may accept them: then every
    # later use of the value - an error message about a missing or malformed file included - must cope)
    for argv in ([b'--spec', b'caf\xe9.yaml'], [b'--spec=caf\xe9.yaml'], [b'--spec', b'\xff\xfe'], [b'--spec', b'dir.yaml/\x80'], [b'--spec', b's/\xe9'],
                 [b's', b'd', b'--filter', b'-\xff'], [b's', b'd', b'--filter', b''], [b's', b'd', b'--filter', b'\xc3\xa9tude.*'], [b's', b'd', b'--filter', b'\xe2\x82\xac'],
                 [b's\xff', b'd'], [b's', b'd\xfe/'], [b's', b'd', b'--log-filter', b'\xff'], [b's', b'd', b'--remote-port', b'\xff']):
        cases.append({'family': 'args', 'kind': 'boss', 'setup': cl.ARGS_SETUP, 'argv': [cl.hx(a) for a in argv], 'place': 'LL', 'listen': False, 'timeout': 20})
    for kind in ['names', 'times', 'special', 'roots', 'deep', 'mixed', 'longnames']:
        for _ in range(6):
            cases.append(cl.gen_tree_case(rng, kind))
    gens = {'tree': cl.gen_tree_case, 'args': cl.gen_args_case, 'spec': cl.gen_spec_case, 'doer': cl.gen_doer_case,
            'remote': cl.gen_remote_case, 'pty': cl.gen_pty_case, 'huge': cl.gen_huge_case}
    for fam in ['tree', 'args', 'spec', 'doer', 'remote', 'pty', 'huge']:
        for _ in range(n[fam]):
            cases.append(gens[fam](rng))
    return cases


def case_key(c):
    return hashlib.sha1(json.dumps({k: v for k, v in c.items() if not k.startswith('_')}, sort_keys=True).encode()).hexdigest()


class E2E:
    def __init__(self, run, binary, tag):
        self.run, self.binary, self.tag = run, binary, tag
        self.base = tempfile.mkdtemp(prefix='c18e2e_', dir='/tmp')
        self.fakebin = cl.install_fake_tools(self.base)
        self.counter = 0
        self.known = {e['id']: e for e in vlib.known_findings('C18')}

    def close(self):
        cl.rmtree(self.base)

    def one(self, case):
        self.counter += 1
        return cl.run_case(self.binary, case, self.base, self.counter, self.fakebin)

    def run_all(self, cases, workers=8):
        run = self.run
        idx = list(range(len(cases)))
        def job(i):
            try:
                return cl.run_case(self.binary, cases[i], self.base, 100000 + i, self.fakebin)
            except Exception as e:                         # sandbox construction trouble is not the CLI's fault
                return {'exit': 0, 'stdout': '', 'stderr': '', 'timed_out': False, 'wall_s': 0, 'harness_error': repr(e)}
        t0 = time.time()
        with ThreadPoolExecutor(max_workers=workers) as ex:
            obs = list(ex.map(job, idx))
        wall = time.time() - t0
        fam_time = {}
        for c, o in zip(cases, obs):
            fam = c['family']
            fam_time[fam] = fam_time.get(fam, 0) + o['wall_s']
            if o.get('harness_error'):
                run.count('%s:sandbox-error' % self.tag)
                run.notes.append('sandbox error: ' + o['harness_error'][:200])
                continue
            verdict, text = cl.oracle(c, o)
            run.count('%s:%s:%s' % (self.tag, fam, c.get('kind') or '-'))
            run.count('%s:exit:%s' % (self.tag, 'hang' if o['timed_out'] else o['exit']))
            if c.get('place', 'LL') != 'LL':
                run.count('%s:place:%s' % (self.tag, c['place']))
            run.case((self.tag, case_key(c)), nontrivial=verdict != 'hang',
                     sample={'build': self.tag, 'case': cl.describe(c), 'exit': o['exit'], 'stderr': o['stderr'][-160:]} if fam in ('args', 'spec') and o['exit'] not in (0, 2) else None)
            if verdict == 'ok':
                continue
            if verdict == 'hang':
                run.count('%s:hang-not-judged' % self.tag)
                hs = run.extra.setdefault('hangs_not_judged', [])
                if len(hs) < 5:
                    hs.append({'build': self.tag, 'case': cl.describe(c), 'raw_case': {k: v for k, v in c.items() if not k.startswith('_')} if len(json.dumps(c)) < 20000 else 'too large',
                               'output_tail': (o['stdout'] + o['stderr'])[-400:]})
                continue
            if verdict.startswith('known:'):
                fid = verdict.split(':', 1)[1]
                if fid in self.known:
                    run.known(fid, self.known[fid]['what'])
                    run.count('%s:known-%s' % (self.tag, fid))
                    continue
                text = text + ' (class %s is not a listed known finding)' % fid
            self.report(c, o, text)
            if len(run.prop_failures) >= 3:
                break
        self.fam_time = fam_time
        run.extra.setdefault('e2e_timing', {})[self.tag] = {'cases': len(cases), 'wall_s': round(wall, 1),
                                                            'cpu_s_by_family': {k: round(v, 1) for k, v in fam_time.items()}}

    def report(self, case, obs, text):
        run = self.run
        # confirm (not a one-off), then shrink
        def still_fails(c):
            o = self.one(c)
            v, _ = cl.oracle(c, o)
            return v == 'fail'
        confirmed = still_fails(case)
        small = case
        if confirmed and '_corpus' not in case:
            small = cl.shrink(case, still_fails)
            o2 = self.one(small)
            v2, t2 = cl.oracle(small, o2)
            if v2 == 'fail':
                obs, text = o2, t2
            else:
                small = case
        body = {k: v for k, v in small.items() if not k.startswith('_')}
        replay = {'case': body, 'build': self.tag, 'exit': obs['exit'], 'stdout_tail': obs['stdout'][-1500:], 'stderr_tail': obs['stderr'][-2500:],
                  'readable': cl.describe(small), 'confirmed_on_rerun': confirmed}
        if '_corpus' not in case:
            try:
                d = os.path.join(vlib.VERIF, 'corpus', 'C18')
                os.makedirs(d, exist_ok=True)
                with open(os.path.join(d, 'found-%s.json' % case_key(body)[:10]), 'w') as f:
                    json.dump({'case': body, 'what': text, 'build': self.tag, 'readable': cl.describe(small)}, f, indent=1)
            except OSError:
                pass
        run.fail('C18 oracle (%s build, %s/%s): %s' % (self.tag, case['family'], case.get('kind'), text), replay)


def setup(run):
    run.trusted = list(vlib.COMMON_TRUSTED) + [
        'modelled, not verified: u64 / u32 arithmetic of rustc (checked `+` in a debug build, saturating_add), the order of the boss\'s calls into Progress (tied by the scripted-doer runs), `as usize` of a float (saturating), serde\'s refusal of a SystemTime before the epoch (Model/Bincode.v, tied byte-for-byte by C14)',
        'the exit-status list is a syntactic scan of src/**/*.rs (comments and string literals removed); statuses produced inside libraries (clap: 2 and 0; a panic: 101; abort: SIGABRT) are seen by the end-to-end runs only']
    run.assumptions = [
        'PARTIAL PROOF: the theorems cover the modelled panic sites (progress accounting, histogram, entry metadata -> serialized_size, exit literals); clap, yaml-rust, regex, indicatif, dialoguer, env_logger and OS-specific behaviour are covered by the end-to-end runs only (tests)',
        'the checks run as root: permission-denied conditions (unreadable files / directories) cannot be provoked here',
        'fewer than 2^32 entries per plan list / values per histogram bucket (u32 counters); not reachable with the inodes of this host',
        'environment variables (RUST_LOG, RJRSSYNC_TEST_PROMPT_RESPONSE) and the terminal size are not inputs named by the property; they are fixed (unset, 80x24)',
        'a run that does not end within its timeout is counted and left to C09']
    run.extra['rule'] = ('tie: ProgressValues constructors on the boundary sizes; random call sequences (with counter overrides up to u32/u64 limits) on the real Progress; the real sync() with '
                         'scripted doers over plans of files/folders/symlinks with sizes around MIN_FILE_SIZE, well-formed and malformed chunk lists (empty first / middle / trailing chunk, grown, shrunk, '
                         'unanswered), hidden and visible bar, dry run; histogram value lists over 0, 10^k-1, 10^k, 10^k+1, 2^53.., u64::MAX, random; entry metadata on real files with 19 + 10 chosen times on '
                         'ext4 and tmpfs, fifo, socket, char/block device, 7 symlinks, folder, sparse file.  e2e: generated odd trees (names, long names, times, special files, odd roots, nesting beyond PATH_MAX, '
                         'sparse files up to 2^63-1 bytes on tmpfs), argument vectors (all real flags incl. doer-mode ones, good/bad/empty/huge/non-UTF-8 values, 0-4 positionals of 16 kinds), spec texts (130 '
                         'hand-written + mutated valid spec), remote placements through a fake ssh, doer mode by hand, pseudo-terminal runs; distinct = distinct request line / distinct case per build')
    binary = vlib.build_impl()
    vlib.regen_facts(binary)
    run.check_proofs('C18', THEOREMS, extra_targets=['theories/Extract/Ex_progress.vo'])
    run.check_path_translation()      # is_same_or_inside as regenerated from the source text never panics on well-formed UTF-8
    jbin = vlib.build_judge('progress')
    return binary, jbin


def adversarial_cases(rng):
    """Families aimed at the mechanisms of the anchors (used by the search when a proof or the tie broke)."""
    out = corpus_cases()
    for _ in range(40):
        out.append(cl.gen_tree_case(rng, 'times'))
        out.append(cl.gen_tree_case(rng, 'roots'))
    for k in ['dry', 'delete', 'equal', 'dry-stats'] * 3:
        out.append(cl.gen_huge_case(rng, k))
    for _ in range(150):
        out.append(cl.gen_args_case(rng))
    for _ in range(40):
        out.append(cl.gen_remote_case(rng))
    return out


def check(run):
    binary, jbin = setup(run)
    t0 = time.time()
    correspondence(run, binary, jbin, run.tier)
    meta_correspondence(run, binary, jbin)
    run.extra['tie_wall_s'] = round(time.time() - t0, 1)
    cases = corpus_cases() + gen_cases(run.rng, run.tier)
    e = E2E(run, binary, 'debug')
    try:
        e.run_all(cases)
    finally:
        e.close()
    if run.tier == 'thorough' and not run.prop_failures:
        rbin = vlib.build_impl(release=True)
        # the release build aborts on a panic (panic = "abort"): a crash shows up as SIGABRT
        sub = corpus_cases() + [c for i, c in enumerate(cases) if i % 3 == 0]
        e2 = E2E(run, rbin, 'release')
        try:
            e2.run_all(sub)
        finally:
            e2.close()

    def search():
        rng = run.rng
        e3 = E2E(run, binary, 'debug')
        try:
            e3.run_all(adversarial_cases(rng))
        finally:
            e3.close()
        return run.prop_failures[0] if run.prop_failures else None
    return run.finish(search=search)


def replay(run, path):
    r = json.load(open(path))
    print(json.dumps({k: v for k, v in r.items() if k not in ('case',)}, indent=1)[:3000])
    binary, jbin = setup(run)
    if 'case' in r:
        if r.get('build') == 'release':
            binary = vlib.build_impl(release=True)
        e = E2E(run, binary, r.get('build', 'debug'))
        try:
            c = dict(r['case']); c['_corpus'] = 'replay'
            e.run_all([c] * 3, workers=1)
        finally:
            e.close()
        return run.finish(search=None)
    return check(run)
