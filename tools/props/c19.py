"""C19 - A deployed binary is a faithful, runnable, self-propagating copy.

Proof: Props/C19.v over Model/LE.v, Model/Elf.v, Model/Pe.v (exe_utils.rs modelled on byte lists with
explicit overflow / index panics per build mode; `fx` selects the pinned code or the code after the
`fix:` commit).  Tie: harness sub-command `exe` calls the real add_section_to_* / extract_section_from_*
inside catch_unwind (debug build; thorough: also the release build, which aborts on panic) on synthetic
ELF64 / PE files over all section-table layouts, payload sizes, truncations and field corruptions; the
extracted model answers the same lines and must agree byte for byte.  The property oracle is written
in python from the property text (tools/exe_lib.py parsers) and looks only at what the implementation
did.  Real-binary leg: the freshly built rjrssync is augmented by the real code and executed.
Deployment leg (both tiers): the real CLI deploys through a fake ssh/scp (tools/deploy_lib.py: OpenSSH mode
semantics, a real shell on the remote side) to sandboxed remotes that report the native or another platform, so
both staging paths of create_binary_for_target run; the deployed file must be executable, start, announce the
parent's version, list the parent's embedded binaries and be byte for byte what the specification says; the
commands and file modes the fake tools saw are compared with Model/DeployFile.v (extracted)."""
import os, sys, json, struct, tempfile, shutil, subprocess, hashlib, glob, time
import vlib
import exe_lib as X
import deploy_lib as D

THEOREMS = ['C19_no_panic', 'C19_total', 'C19_no_panic_refuted', 'C19_no_panic_refuted_release',
            'C19_le_roundtrip', 'C19_field_roundtrip', 'C19_field_frame', 'C19_section_name_is_code',
            'C19_elf_roundtrip', 'C19_elf_preserves', 'C19_pe_roundtrip', 'C19_pe_sections',
            'C19_example_elf', 'C19_example_pe',
            'C19_deployed_file_executable', 'C19_deploy_steps', 'C19_chmod_needed', 'C19_copyself_hides_chmod', 'C19_example_deploy']

NAME = X.NAME


# ------------------------------------------------------------------------------------------------
def pl_bytes(pl):
    return X.gen_payload(pl[1], pl[2]) if pl[0] == 'G' else pl[1]


def pl_tok(pl):
    if pl is None:
        return '-'
    return 'G:%d:%d' % (pl[1], pl[2]) if pl[0] == 'G' else 'H:' + X.hexs(pl[1]) if pl[1] else '-'


def case(op, exe, name, payload, kind, **kw):
    c = {'op': op, 'exe': exe, 'name': name, 'payload': payload, 'kind': kind}
    c.update(kw)
    return c


def req(c):
    return '%s H:%s %s %s' % (c['op'], c['exe'].hex() if c['exe'] else '', X.hexs(c['name']), pl_tok(c['payload']))


def describe(c):
    d = {k: v for k, v in c.items() if k not in ('exe', 'name', 'payload', 'parent')}
    d['exe_len'] = len(c['exe'])
    d['name'] = c['name'].decode('latin1')
    d['payload'] = (['G', c['payload'][1], c['payload'][2]] if c['payload'] and c['payload'][0] == 'G'
                    else (c['payload'][1].hex()[:64] if c['payload'] else None))
    return d


def replay_of(c):
    return {'op': c['op'], 'exe': c['exe'].hex(), 'name': c['name'].hex(),
            'payload': pl_bytes(c['payload']).hex() if c['payload'] and len(pl_bytes(c['payload'])) <= 65536 else None,
            'payload_gen': list(c['payload']) if c['payload'] and c['payload'][0] == 'G' else None, 'kind': c['kind']}


# ------------------------------------------------------------------------------------------------
# generators
ELF_FIELDS = [(0, 4), (4, 1), (5, 1), (6, 1), (0x28, 8), (0x3A, 2), (0x3C, 2), (0x3E, 2)]
ELF_SH_FIELDS = [(0, 4), (0x18, 8), (0x20, 8)]
PE_SH_FIELDS = [(0, 8), (8, 4), (12, 4), (16, 4), (20, 4)]


def corrupt_values(width, orig, flen, rng, n):
    top = (1 << (8 * width)) - 1
    vals = [0, 1, 2, 0x3F, 0x40, 0x41, flen - 1, flen, flen + 1, orig + 1, max(orig - 1, 0), orig ^ 1, orig + 40, orig + 0x40,
            top, top - 1, top - 7, top // 2, top // 2 + 1, 0xFFFF, 0x10000, 0xFFFFFFFF, 0x100000000]
    vals = sorted(set(v & top for v in vals if v != orig))
    if len(vals) > n:
        vals = rng.sample(vals, n)
    return vals


def set_field(b, off, width, v):
    bb = bytearray(b)
    if off + width <= len(bb):
        bb[off:off + width] = v.to_bytes(width, 'little')
    return bytes(bb)


def fa_ok(b):
    fa = X.pe_fa(b)
    return fa is None or fa <= X.MAX_FA


def gen_cases(run, tier):
    rng = run.rng
    thorough = tier == 'thorough'
    cases = []
    small_payloads = [('G', 0, 1), ('G', 1, 2), ('G', 7, 3), ('G', 100, 4), ('G', 511, 5), ('G', 512, 6), ('G', 513, 7), ('G', 4096, 8)]
    big_payloads = [('G', 65536, 9), ('G', 1 << 20, 10), ('G', 3 * (1 << 20), 11)] if thorough else [('G', 65536, 9), ('G', 3 * (1 << 20) + 5, 11)]
    # ---------------- ELF layouts
    elf_layouts = []
    allnames = [b'.text', b'.data', b'.bss', b'.symtab', b'.strtab']
    for nsec in range(0, 6):
        for pos in sorted(set([0, nsec // 2, nsec])):
            for entsize in (0x40, 0x48) + ((0x60, 0x1000) if thorough else ()):
                for rep in range(3 if thorough else 1):
                    elf_layouts.append(X.ElfLayout(allnames[:nsec], pos, entsize=entsize, phdr_gap=rng.choice([0, 56, 112, 300]),
                                                   null_first=rng.random() < 0.8))
    elf_small = None
    for lay in elf_layouts:
        e, info = lay.build(rng)
        if elf_small is None and len(lay.names) == 2 and lay.names_pos == 1:
            elf_small = (e, info)
        pls = rng.sample(small_payloads, 3 if not thorough else 5) + ([rng.choice(big_payloads if thorough else big_payloads[:1])] if rng.random() < 0.08 else [])
        for pl in pls:
            cases.append(case('add-elf', e, NAME, pl, 'elf-layout', valid=True, layout=lay.describe()))
        for nm in [b'.shstrtab', NAME, b'.nope'] + lay.names[:1]:
            cases.append(case('extract-elf', e, nm, None, 'elf-extract-plain'))
    # other names (length around the 32-byte read_string cap, NUL inside, name already present, multibyte)
    e0, _ = X.ElfLayout([b'.text', b'.data'], 2).build(rng)
    for nm in [b'', b'a', b'x' * 31, b'x' * 32, b'x' * 33, b'x' * 40, b'ab\0cd', b'.text', b'.shstrtab', '.résumé'.encode()]:
        cases.append(case('add-elf', e0, nm, ('G', 50, 12), 'elf-names', valid=False))
    # layouts outside wf_elf: unterminated name table, file order different from table order
    for k in range(6 if not thorough else 40):
        lay = X.ElfLayout(allnames[:rng.randrange(1, 5)], 0, unterminated=(k % 2 == 0), out_of_order=(k % 2 == 1))
        lay.names_pos = rng.randrange(0, len(lay.names) + 1)
        e, info = lay.build(rng)
        cases.append(case('add-elf', e, NAME, ('G', 33, k), 'elf-odd-layout', valid=False))
    # big payload on one layout each
    for pl in big_payloads:
        cases.append(case('add-elf', e0, NAME, pl, 'elf-big', valid=True))
    # ---------------- PE layouts
    pe_layouts = []
    fas = [1, 2, 3, 16, 100, 512, 513, 1000, 4096] if not thorough else [1, 2, 3, 7, 16, 64, 100, 255, 256, 512, 513, 1000, 1024, 4095, 4096]
    gaps = [0, 1, 39, 40, 41, 80] if not thorough else [0, 1, 2, 20, 38, 39, 40, 41, 42, 60, 79, 80]
    for fa in fas:
        for gap in gaps:
            for nsec in ([1, 3] if not thorough else [1, 2, 3, 5]):
                pe_layouts.append(X.PeLayout(nsec, fa, gap, sa=rng.choice([0x1000, 0x1000, 0x200, 1, 4096 * 4, 3]),
                                             soh=rng.choice([0xF0, 0xF0, 0xE0, 64, 0x100]), extra_hdr_pad=rng.choice([0, 0, 0, 1]),
                                             bss=rng.random() < 0.2, sig_base=rng.choice([0x40, 0x40, 0x80, 0xE8])))
    pe_small = None
    for lay in pe_layouts:
        e, info = lay.build(rng)
        if pe_small is None and lay.nsec == 1 and lay.fa == 16 and lay.gap >= 40:
            pe_small = (e, info)
        pls = rng.sample(small_payloads, 2 if not thorough else 4) + ([rng.choice(big_payloads if thorough else big_payloads[:1])] if rng.random() < 0.05 else [])
        for pl in pls:
            cases.append(case('add-pe', e, NAME, pl, 'pe-layout', valid=True, layout=lay.describe()))
        for nm in [b'.s0', NAME, b'.nope']:
            cases.append(case('extract-pe', e, nm, None, 'pe-extract-plain'))
    p0, _ = X.PeLayout(2, 512, 100).build(rng)
    for nm in [b'', b'a', b'1234567', b'12345678', b'123456789', b'ab\0cd', b'.s0', b'.s1']:
        cases.append(case('add-pe', p0, nm, ('G', 50, 12), 'pe-names', valid=False))
    for pl in big_payloads:
        cases.append(case('add-pe', p0, NAME, pl, 'pe-big', valid=True))
    p8, _ = X.PeLayout(2, 512, 100, names=[b'12345678', b'.rjembed']).build(rng)
    cases.append(case('add-pe', p8, NAME, ('G', 10, 1), 'pe-names', valid=False))
    cases.append(case('extract-pe', p8, b'12345678', None, 'pe-extract-plain'))
    # ---------------- malformed: truncations, field corruptions, random strings
    if elf_small is None:
        elf_small = X.ElfLayout([b'.text', b'.data'], 1).build(rng)
    if pe_small is None:
        pe_small = X.PeLayout(1, 16, 60).build(rng)
    trunc_sets = [(elf_small[0], 'elf'), (pe_small[0], 'pe')]
    for e, fmt in trunc_sets:
        step = 1 if thorough else 3
        for L in list(range(0, len(e), step)) + [len(e) - 1]:
            t = e[:L]
            cases.append(case('add-' + fmt, t, NAME, ('G', 20, L), fmt + '-trunc', valid=False))
            if thorough or L % 2 == 0:
                cases.append(case('extract-' + fmt, t, b'.text' if fmt == 'elf' else b'.s0', None, fmt + '-trunc', valid=False))
    nlay = 50 if thorough else 3
    nvals = 23 if thorough else 6
    for k in range(nlay):
        lay = rng.choice(elf_layouts)
        e, info = lay.build(rng)
        p = X.elf_parse(e)
        fields = list(ELF_FIELDS)
        for i in range(p['shnum'] if p else 0):
            fields += [(p['shoff'] + i * p['entsize'] + o, w) for (o, w) in ELF_SH_FIELDS]
        for (off, w) in fields:
            orig = int.from_bytes(e[off:off + w], 'little')
            for v in corrupt_values(w, orig, len(e), rng, nvals):
                m = set_field(e, off, w, v)
                cases.append(case('add-elf', m, NAME, ('G', 9, 1), 'elf-corrupt', valid=False, field=[off, w, v]))
                cases.append(case('extract-elf', m, rng.choice([b'.text', b'.shstrtab', b'.data']), None, 'elf-corrupt', valid=False, field=[off, w, v]))
    for k in range(nlay):
        lay = rng.choice(pe_layouts)
        e, info = lay.build(rng)
        sig = info['sig']
        fields = [(0x3c, 4), (sig, 4), (sig + 6, 2), (sig + 20, 2), (sig + 24 + 32, 4), (sig + 24 + 36, 4), (sig + 24 + 56, 4), (sig + 24 + 60, 4)]
        for i in range(info['nsec']):
            fields += [(sig + 24 + info['soh'] + i * 40 + o, w) for (o, w) in PE_SH_FIELDS]
        for (off, w) in fields:
            orig = int.from_bytes(e[off:off + w], 'little')
            for v in corrupt_values(w, orig, len(e), rng, nvals):
                if off == sig + 24 + 36 and v > X.MAX_FA:
                    continue
                m = set_field(e, off, w, v)
                if not fa_ok(m):
                    continue
                cases.append(case('add-pe', m, NAME, rng.choice([('G', 9, 1), ('G', 0, 1)]), 'pe-corrupt', valid=False, field=[off, w, v]))
                cases.append(case('extract-pe', m, rng.choice([b'.s0', b'.s1']), None, 'pe-corrupt', valid=False, field=[off, w, v]))
    nrand = 2000 if thorough else 150
    for k in range(nrand):
        n = rng.choice([0, 1, 10, 63, 64, 65, 100, 200, 400])
        r = bytearray(X.rnd_bytes(rng, n))
        which = rng.choice(['elf', 'pe'])
        if which == 'elf':
            r[:7] = b'\x7fELF\x02\x01\x01'[:len(r)] if len(r) >= 7 else r[:7]
            if len(r) >= 0x40 and rng.random() < 0.7:
                struct.pack_into('<Q', r, 0x28, rng.choice([0, 0x40, len(r), len(r) - 64, rng.randrange(0, len(r) + 1)]))
                struct.pack_into('<HHH', r, 0x3A, rng.choice([0, 1, 0x40, 64, 0xFFFF]), rng.choice([0, 1, 2, 3]), rng.choice([0, 1, 2]))
        else:
            if len(r) >= 0x40:
                so = rng.choice([0, 4, 0x38, 0x40, 0x41, len(r) - 4, len(r)])
                struct.pack_into('<I', r, 0x3c, so)
                if 0 <= so <= len(r) - 4 and rng.random() < 0.8 and not (so <= 0x3c < so + 4):
                    r[so:so + 4] = b'PE\0\0'
        r = bytes(r)
        if which == 'pe' and not fa_ok(r):
            continue
        cases.append(case('add-' + which, r, NAME, ('G', rng.choice([0, 5]), k), which + '-random', valid=False))
        cases.append(case('extract-' + which, r, NAME, None, which + '-random', valid=False))
    # random byte mutations of valid files
    nmut = 1500 if thorough else 150
    for k in range(nmut):
        which = rng.choice(['elf', 'pe'])
        e, info = (rng.choice(elf_layouts) if which == 'elf' else rng.choice(pe_layouts)).build(rng)
        m = bytearray(e)
        for _ in range(rng.choice([1, 1, 2, 4])):
            if which == 'elf':
                pos = rng.choice([rng.randrange(0, 0x40), rng.randrange(info['shoff'], len(m)) if info['shoff'] < len(m) else 0])
            else:
                pos = rng.randrange(0x3c, min(len(m), info['hend']))
            m[pos] = rng.choice([0, 1, 0xFF, 0x80, m[pos] ^ (1 << rng.randrange(8)), rng.randrange(256)])
        m = bytes(m)
        if which == 'pe' and not fa_ok(m):
            continue
        cases.append(case('add-' + which, m, NAME, ('G', rng.choice([0, 30]), k), which + '-mutated', valid=False))
        cases.append(case('extract-' + which, m, rng.choice([NAME, b'.text', b'.s0']), None, which + '-mutated', valid=False))
    return cases


def corpus_cases():
    out = []
    for p in sorted(glob.glob(os.path.join(vlib.VERIF, 'corpus', 'C19', '*.json'))):
        r = json.load(open(p))
        pl = bytes.fromhex(r['payload']) if r.get('payload') else b''
        out.append(case(r['op'], bytes.fromhex(r['exe']), bytes.fromhex(r['name']),
                        ('H', pl) if r['op'].startswith('add') else None, 'corpus', valid=False, corpus_id=r.get('id', os.path.basename(p)),
                        original_debug=r.get('original_debug'), original_release=r.get('original_release')))
    return out


# ------------------------------------------------------------------------------------------------
# property oracle (python, from the property text; looks at the implementation's answers only)
def al(x, m):
    return ((x + m - 1) // m) * m


def elf_oracle(c, out):
    """c: add-elf case whose implementation answer is OK with bytes `out`. Returns error text or None."""
    e, name, p = c['exe'], c['name'], pl_bytes(c['payload'])
    w = X.elf_wellformed(e)
    if w is None or not (0 < len(name) <= 32) or b'\0' in name or any(s['name'] == name for s in w['sections']):
        return None
    for s in w['sections']:       # names cut by the 32-byte cap do not count as equal
        if s['name'] is not None and len(s['name']) > 32 and s['name'][:32] == name:
            return None
    c['wf'] = True
    q = X.elf_parse(out)
    if q is None:
        return 'result is not a readable ELF'
    ins = w['names_off'] + w['names_size']
    k = len(name) + 1
    if q['shnum'] != w['shnum'] + 1 or q['entsize'] != w['entsize'] or q['shstrndx'] != w['shstrndx']:
        return 'section count / entry size / names index wrong in the result'
    pre_e, pre_o = bytearray(e[:ins]), bytearray(out[:ins])
    for lo, hi in ((0x28, 0x30), (0x3C, 0x3E)):
        pre_e[lo:hi] = b'\0' * (hi - lo); pre_o[lo:hi] = b'\0' * (hi - lo)
    if pre_e != pre_o:
        return 'bytes below the insertion point changed (other than e_shoff, e_shnum)'
    if out[ins:ins + k] != name + b'\0' or out[ins + k: w['shoff'] + k] != e[ins:w['shoff']]:
        return 'bytes between the name table and the old section header table were not kept'
    if out[w['shoff'] + k: w['shoff'] + k + len(p)] != p or q['shoff'] != w['shoff'] + k + len(p):
        return 'payload is not placed before the new section header table'
    new = q['sections'][-1]
    if new['name'] != name or new['off'] != w['shoff'] + k or new['size'] != len(p):
        return 'new section header does not describe the payload'
    order = X.elf_in_file_order(w)
    for i, (a, b) in enumerate(zip(w['sections'], q['sections'])):
        if a['name'] != b['name']:
            return 'section %d changed its name' % i
        if a['hdr'][:0x18] != b['hdr'][:0x18] or a['hdr'][0x28:] != b['hdr'][0x28:]:
            return 'section header %d changed outside sh_offset/sh_size' % i
        want_off = a['off'] + (k if i > w['shstrndx'] else 0)
        want_size = a['size'] + (k if i == w['shstrndx'] else 0)
        if b['off'] != want_off or b['size'] != want_size:
            return 'section %d offset/size wrong' % i
        if order and i != w['shstrndx'] and not a['nobits'] and a['off'] + a['size'] <= w['shoff'] and a['off'] >= 0x40:
            if out[b['off']:b['off'] + b['size']] != e[a['off']:a['off'] + a['size']]:
                return 'contents of section %d are not found at its new offset' % i
    if order:
        c['preserved'] = True
    return None


def pe_wf(e, name):
    w = X.pe_parse(e)
    if w is None or w['sig'] < 0x40 or w['soh'] < 64 or w['n'] < 1 or w['fa'] < 1 or w['sa'] < 1:
        return None
    if not (0 < len(name) <= 8) or b'\0' in name:
        return None
    for s in w['sections']:
        if s['hdr'][:8].split(b'\0')[0] == name:
            return None
    return w


def pe_oracle(c, out):
    e, name, p = c['exe'], c['name'], pl_bytes(c['payload'])
    w = pe_wf(e, name)
    if w is None:
        return None
    c['wf'] = True
    q = X.pe_parse(out)
    if q is None or q['n'] != w['n'] + 1 or q['sig'] != w['sig'] or q['soh'] != w['soh'] or q['fa'] != w['fa'] or q['sa'] != w['sa']:
        return 'result is not a readable PE with one more section'
    fa, hend = w['fa'], w['hend']
    shift = al(40, fa) if al(hend, fa) - hend < 40 else 0
    c['pe_shift'] = shift
    new = q['sections'][-1]
    if new['name'] != name:
        return 'new section header has the wrong name'
    if new['raw'] < len(p) or new['raw'] - len(p) >= fa or new['ptr'] + new['raw'] != len(out):
        return 'new section raw size %d for a payload of %d with alignment %d' % (new['raw'], len(p), fa)
    if out[new['ptr']:new['ptr'] + len(p)] != p or any(out[new['ptr'] + len(p):]):
        return 'payload not found at PointerToRawData (followed by zero padding)'
    if new['ptr'] % fa or new['raw'] % fa:
        return 'new section is not aligned to FileAlignment'
    # section data lies after the headers (a valid PE has PointerToRawData >= SizeOfHeaders >= align(hend, fa)) and inside the file
    first = hend if shift else hend + 40
    inside = all(s['raw'] == 0 or (s['ptr'] >= first and s['ptr'] + s['raw'] <= len(e)) for s in w['sections'])
    for i, (a, b) in enumerate(zip(w['sections'], q['sections'])):
        if a['hdr'][:20] != b['hdr'][:20] or a['hdr'][24:] != b['hdr'][24:]:
            return 'section header %d changed outside PointerToRawData' % i
        if b['ptr'] != a['ptr'] + shift:
            return 'section %d PointerToRawData is %d, expected %d' % (i, b['ptr'], a['ptr'] + shift)
        if inside and a['raw'] and out[b['ptr']:b['ptr'] + b['raw']] != e[a['ptr']:a['ptr'] + a['raw']]:
            return 'contents of section %d are not found at its PointerToRawData' % i
    # headers: only NumberOfSections, SizeOfImage, SizeOfHeaders and the PointerToRawData fields may differ
    he, ho = bytearray(e[:hend]), bytearray(out[:hend])
    holes = [(w['fh'] + 2, 2), (w['oh'] + 56, 8)] + [(w['sh'] + i * 40 + 20, 4) for i in range(w['n'])]
    for off, n in holes:
        he[off:off + n] = b'\0' * n; ho[off:off + n] = b'\0' * n
    if he != ho:
        return 'header bytes changed (other than NumberOfSections, SizeOfImage, SizeOfHeaders, PointerToRawData)'
    if inside and out[hend + 40 + shift: len(e) + shift] != e[hend + 40:] and shift == 0:
        return 'bytes after the new section header changed'
    if inside and shift and out[hend + shift: len(e) + shift] != e[hend:]:
        return 'file contents were not moved up by exactly one FileAlignment'
    if inside:
        c['preserved'] = True
    return None


# ------------------------------------------------------------------------------------------------
def detect_fixed(binary, corpus):
    """The pinned code panics on every F9 witness (debug build); if it still does, the model variant to
    compare with is the original one (fx=0), otherwise the fixed one (fx=1)."""
    ws = [c for c in corpus if c.get('original_debug', '') and c['original_debug'].startswith('PANIC')]
    if not ws:
        return True
    out = X.run_impl(binary, [req(c) for c in ws])
    panics = sum(1 for o in out if o.startswith('PANIC'))
    return panics < len(ws)


def run_batch(run, cases, binary, jbin, mode, fx, follow=True):
    if not cases:
        return []
    lines = [req(c) for c in cases]
    t0 = time.time()
    impl = X.run_impl(binary, lines, abort_ok=(mode == 'release'))
    model = X.run_judge(jbin, ['%s %d %s %s' % (l.split(' ', 1)[0], 1 if fx else 0, mode, l.split(' ', 1)[1]) for l in lines])
    vlib.log('batch %s: %d cases, impl+model %.1fs' % (mode, len(cases), time.time() - t0))
    if len(impl) != len(cases) or len(model) != len(cases):
        run.broke('correspondence', 'exe-batch', 'answer counts differ: %d requests, %d impl, %d model' % (len(cases), len(impl), len(model)))
        return []
    followups = []
    for c, il, ml in zip(cases, impl, model):
        ci, cm = X.canon(il), X.canon(ml)
        cls = ci.split()[0]
        run.count('%s:%s' % (mode, c['kind']))
        run.count('%s:impl:%s:%s' % (mode, c['op'], ' '.join(ci.split()[:2]) if cls != 'OK' else 'OK'))
        run.traces_validated += 1
        bad = None
        out = X.ok_bytes(il)
        if cls == 'PANIC':
            bad = 'the real %s panicked (%s build): %s' % (c['op'], mode, ci)
        elif cls == 'BADREQ' or cls == 'EMPTY':
            run.broke('correspondence', 'exe-harness', 'harness answered %r' % il[:100])
        elif c['op'] == 'add-elf' and cls == 'OK':
            bad = elf_oracle(c, out)
        elif c['op'] == 'add-pe' and cls == 'OK':
            bad = pe_oracle(c, out)
        if bad is None and c.get('valid') and c['op'].startswith('add') and cls != 'OK':
            bad = 'a valid executable (generated layout %s) was rejected: %s' % (json.dumps(c.get('layout')), ci)
        if bad is None and 'expect' in c:      # follow-up extraction of an augmented file
            exp = c['expect']
            if cls != 'OK':
                bad = 'payload cannot be read back from the augmented file: ' + ci
            elif c['op'] == 'extract-elf' and out != exp:
                bad = 'payload read back from the augmented ELF differs (%d bytes, expected %d)' % (len(out), len(exp))
            elif c['op'] == 'extract-pe' and not (out[:len(exp)] == exp and not any(out[len(exp):]) and len(out) - len(exp) < max(c['fa'], 1)):
                bad = 'payload read back from the augmented PE is not payload ++ zeros(< FileAlignment): %d bytes for %d' % (len(out), len(exp))
        nontrivial = (cls == 'OK' and (c['op'].startswith('add') or 'expect' in c)) or c['kind'] not in ('elf-layout', 'pe-layout')
        run.case((mode, c['op'], hashlib.sha1(c['exe']).hexdigest(), c['name'], pl_tok(c['payload'])[:80]), nontrivial,
                 sample={'case': describe(c), 'mode': mode, 'impl': ci, 'model': cm} if c['kind'] in ('elf-layout', 'pe-layout', 'pe-corrupt') and len(run.samples) < 6 and run.evaluations % 97 == 0 else None)
        if bad:
            r = replay_of(c); r.update({'mode': mode, 'impl': ci, 'model': cm})
            run.fail('C19 oracle: ' + bad, r)
        elif ci != cm:
            run.broke('correspondence', 'exe-' + c['op'], json.dumps({'case': describe(c), 'mode': mode, 'impl': ci, 'model': cm,
                                                                      'exe': c['exe'].hex()[:4000]})[:6000])
        if follow and cls == 'OK' and c['op'].startswith('add'):
            fmt = c['op'][4:]
            f = case('extract-' + fmt, out, c['name'], None, fmt + '-readback', valid=False)
            if c.get('wf'):
                f['expect'] = pl_bytes(c['payload'])
                f['fa'] = X.pe_fa(c['exe']) if fmt == 'pe' else 1
            followups.append(f)
            # and the augmented file can be augmented again (self-propagation keeps working on its own output)
            if c['kind'] in ('elf-layout', 'pe-layout') and len(out) < 20000 and run.rng.random() < 0.15:
                followups.append(case('add-' + fmt, out, b'.again', ('G', 17, 5), fmt + '-twice', valid=False))
    return followups


# ------------------------------------------------------------------------------------------------
def bincode_embedded(entries, compressed=False):
    b = bytes([1 if compressed else 0]) + struct.pack('<Q', len(entries))
    for triple, data in entries:
        b += struct.pack('<Q', len(triple)) + triple + struct.pack('<Q', len(data)) + data
    return b


def runp(cmd, env=None, timeout=120, cwd=None):
    e = dict(os.environ); e.pop('RUST_LOG', None); e['NO_COLOR'] = '1'
    if env:
        e.update(env)
    p = subprocess.run(cmd, stdout=subprocess.PIPE, stderr=subprocess.PIPE, text=True, timeout=timeout, env=e, cwd=cwd,
                       stdin=subprocess.DEVNULL)
    return p.returncode, p.stdout, p.stderr


def real_binary_leg(run, binary, tmp, label):
    """Augment the freshly built rjrssync itself through the real add_section_to_elf and run the result."""
    lite = open(binary, 'rb').read()
    payload = bincode_embedded([(b'x86_64-pc-windows-gnu', X.gen_payload(3000, 1)), (b'aarch64-unknown-linux-musl', X.gen_payload(70000, 2))])
    pf = os.path.join(tmp, 'payload_%s.bin' % label)
    open(pf, 'wb').write(payload)
    big = os.path.join(tmp, 'rjrssync_big_%s' % label)
    out = X.run_impl(binary, ['add-elf F:%s %s F:%s O:%s' % (binary, NAME.hex(), pf, big)])
    run.count('real-binary:' + label)
    run.case(('real', label, 'add'), True)
    if not out or not out[0].startswith('OK'):
        run.fail('C19 real binary: add_section_to_elf failed on the built rjrssync: %s' % (out[:1],), {'real_binary': label, 'answer': out[:1]})
        return None
    os.chmod(big, 0o755)
    aug = open(big, 'rb').read()
    # python reading of the result
    c = case('add-elf', lite, NAME, ('H', payload), 'real-binary')
    bad = elf_oracle(c, aug)
    w = X.elf_wellformed(lite)
    if bad is None and not c.get('wf'):
        bad = 'the built binary is not within the layouts the theorem talks about (wf_elf)'
    if bad is None and not c.get('preserved'):
        bad = 'the built binary lists sections out of file order'
    if bad is None:
        # loader-relevant: every program header lies below the insertion point, so no segment moved
        phoff, = struct.unpack_from('<Q', lite, 0x20)
        phentsize, phnum = struct.unpack_from('<HH', lite, 0x36)
        ins = w['names_off'] + w['names_size']
        if phoff + phentsize * phnum > ins:
            bad = 'program header table is not below the insertion point'
        for i in range(phnum):
            p_off, = struct.unpack_from('<Q', lite, phoff + i * phentsize + 8)
            p_filesz, = struct.unpack_from('<Q', lite, phoff + i * phentsize + 32)
            if p_off + p_filesz > ins:
                bad = 'segment %d reaches beyond the insertion point' % i
    if bad:
        run.fail('C19 real binary: ' + bad, {'real_binary': label})
        return None
    back = os.path.join(tmp, 'back_%s.bin' % label)
    out = X.run_impl(binary, ['extract-elf F:%s %s - O:%s' % (big, NAME.hex(), back)])
    run.case(('real', label, 'extract'), True)
    if not out or not out[0].startswith('OK') or open(back, 'rb').read() != payload:
        run.fail('C19 real binary: payload not read back unaltered from the augmented binary', {'real_binary': label, 'answer': out[:1]})
        return None
    v0, v1 = runp([binary, '--version']), runp([big, '--version'])
    run.case(('real', label, 'version'), True)
    if v1[0] != 0 or v0[:2] != v1[:2]:
        run.fail('C19 real binary: augmented binary --version differs: %r vs %r' % (v1, v0), {'real_binary': label})
    l0, l1 = runp([binary, '--list-embedded-binaries']), runp([big, '--list-embedded-binaries'])
    run.case(('real', label, 'list'), True)
    want = ['x86_64-pc-windows-gnu', 'aarch64-unknown-linux-musl']
    got = [ln.split()[0] for ln in l1[1].splitlines() if ln.strip()]
    if l1[0] != 0 or got != want:
        run.fail('C19 real binary: augmented binary lists %r (exit %d), expected %r' % (got, l1[0], want), {'real_binary': label, 'stderr': l1[2][-300:]})
    if l0[0] == 0:
        run.notes.append('the built binary already lists embedded binaries (not a lite build)')
    # behaves like the original: a small local sync gives the same tree and the same exit status
    res = []
    for i, exe in enumerate([binary, big]):
        d = os.path.join(tmp, 'sync_%s_%d' % (label, i))
        os.makedirs(os.path.join(d, 'src', 'sub'))
        open(os.path.join(d, 'src', 'a.txt'), 'w').write('hello')
        open(os.path.join(d, 'src', 'sub', 'b.bin'), 'wb').write(X.gen_payload(5000, 3))
        rc, so, se = runp([exe, os.path.join(d, 'src') + '/', os.path.join(d, 'dest') + '/'])
        tree = sorted((os.path.relpath(os.path.join(r, f), os.path.join(d, 'dest')), open(os.path.join(r, f), 'rb').read())
                      for r, _, fs in os.walk(os.path.join(d, 'dest')) for f in fs)
        res.append((rc, tree))
    run.case(('real', label, 'sync'), True)
    if res[0] != res[1] or res[0][0] != 0 or len(res[0][1]) != 2:
        run.fail('C19 real binary: augmented binary does not sync like the original (exit %d vs %d)' % (res[1][0], res[0][0]), {'real_binary': label})
    return big


# ------------------------------------------------------------------------------------------------
# Deployment leg: "The binary that deployment places on a remote starts, passes the version handshake and
# reports the same embedded binaries as its parent."  The real CLI deploys through a fake ssh/scp
# (tools/deploy_lib.py) to a sandboxed remote whose reported OS / architecture is set per scenario, so that
# both staging paths of create_binary_for_target run: copy of the running program (remote = native triple)
# and a generated big binary (create_big_binary: embedded lite binary + the parent's table).
def native_triple():
    try:
        out = subprocess.run(['rustc', '-vV'], stdout=subprocess.PIPE, stderr=subprocess.DEVNULL, text=True, timeout=30).stdout
        for l in out.splitlines():
            if l.startswith('host:'):
                return l.split()[1]
    except (OSError, subprocess.SubprocessError):
        pass
    return os.uname().machine + '-unknown-linux-gnu'


def build_parents(run, lite, tmp, label, rng):
    """lite: the built rjrssync.  Returns {name: parent dict}; the augmented parents are made by the real
    add_section_to_elf (harness) from a table written by python from the struct definition."""
    litebytes = open(lite, 'rb').read()
    pe, _ = X.PeLayout(3, 512, 100).build(rng)            # a lite "Windows binary": cannot run here, its bytes can be checked
    parents = {'lite': {'name': 'lite', 'path': lite, 'table': None, 'entries': [], 'compressed': False,
                        'desc': 'the built binary itself (no embedded binaries)'}}
    specs = [('big', False, [(b'x86_64-pc-windows-gnu', pe), (b'aarch64-unknown-linux-musl', litebytes)]),
             ('bigz', True, [(b'aarch64-unknown-linux-gnu', litebytes), (b'x86_64-pc-windows-msvc', pe)])]
    for name, comp, entries in specs:
        table = D.table_bytes(entries, compressed=comp)
        pf = os.path.join(tmp, 'table_%s_%s.bin' % (label, name))
        open(pf, 'wb').write(table)
        path = os.path.join(tmp, 'parent_%s_%s' % (label, name), 'rjrssync')
        os.makedirs(os.path.dirname(path))
        out = X.run_impl(lite, ['add-elf F:%s %s F:%s O:%s' % (lite, NAME.hex(), pf, path)])
        run.case(('deploy', label, 'parent', name), True)
        if not out or not out[0].startswith('OK'):
            run.fail('C19 deploy: add_section_to_elf cannot add the embedded-binaries table to the built rjrssync: %s' % (out[:1],),
                     {'deploy_parent': name, 'answer': out[:1]})
            continue
        os.chmod(path, 0o755)
        parents[name] = {'name': name, 'path': path, 'table': table, 'entries': entries, 'compressed': comp,
                         'desc': 'built binary + %s table %s' % ('compressed' if comp else 'uncompressed', [t.decode() for t, _ in entries])}
    for p in parents.values():
        p['mode'] = D.mode_of(p['path'])
        p['probe'] = probe_binary(p['path'])
    return parents


def probe_binary(path):
    """What the property says a deployed binary must do like its parent: start, announce its version for
    the handshake, list its embedded binaries.  -> dict of canonical observations."""
    r = {}
    v = runp([path, '--version'], timeout=60)
    r['version'] = (v[0], v[1].strip())
    l = runp([path, '--list-embedded-binaries'], timeout=120)
    r['list'] = (l[0], l[1])
    try:
        p = subprocess.Popen([path, '--doer'], stdin=subprocess.PIPE, stdout=subprocess.PIPE, stderr=subprocess.PIPE)
        try:
            line = p.stdout.readline().decode('utf-8', 'replace').rstrip('\n')
        finally:
            p.stdin.close()
            try:
                p.wait(timeout=20)
            except subprocess.TimeoutExpired:
                p.kill(); p.wait()
            p.stdout.close(); p.stderr.close()
        r['doer_announce'] = line
    except OSError as e:
        r['doer_announce'] = 'cannot start: %s' % e.strerror
    return r


HOST_NAMES = ['localhost', '127.0.0.1']


def sc_describe(sc):
    hs = ', '.join('%s side: fake %s remote "%s" (rjrssync %s, umask %03o)' % (h['side'], h['kind'], h['uname'], h['state'], h['rumask'])
                   for h in sc['hosts'])
    return 'parent=%s (%s build) --deploy %s, %s, boss umask %03o, TMPDIR %s' % (sc['parent'], sc.get('build', 'debug'), sc['deploy'], hs,
                                                                              sc['bumask'], sc['tmpdir'] or 'default')


def mk_sc(parent, kind, state='absent', deploy='ok', uname=None, rumask=0o22, bumask=0o22, tmpdir=None, side='dest', second=None, tree=1):
    hosts = [{'side': side, 'kind': kind, 'uname': uname or (kind if kind != 'windows' else 'windows'), 'state': state, 'rumask': rumask}]
    if second:
        hosts.append(second)
    return {'parent': parent, 'deploy': deploy, 'bumask': bumask, 'tmpdir': tmpdir, 'hosts': hosts, 'tree': tree}


def deploy_scenarios(run, tier):
    rng = run.rng
    core = [
        mk_sc('big', 'aarch64'),                                               # generated binary, nothing on the remote
        mk_sc('big', 'x86_64'),                                                # copy of the running program
        mk_sc('lite', 'x86_64', uname='x86_64-alpine'),                        # a lite binary can deploy itself to the same platform
        mk_sc('big', 'aarch64', state='other-version'),                        # version mismatch: the old program is replaced
        mk_sc('big', 'aarch64', state='same-noexec', deploy='force'),          # earlier deployment interrupted before its chmod
        mk_sc('big', 'x86_64', state='other-version', deploy='prompt'),
        mk_sc('bigz', 'aarch64', state='empty-dir', uname='aarch64-alpine', rumask=0o77, bumask=0o77, tmpdir='stag ing'),
        mk_sc('big', 'windows'),                                               # generated PE: bytes only
        mk_sc('bigz', 'x86_64', state='same', deploy='force', rumask=0o02),
    ]
    space = []
    for parent in ('big', 'bigz', 'lite'):
        for kind in ('aarch64', 'x86_64', 'windows'):
            if parent == 'lite' and kind != 'x86_64':
                continue
            for state, deploy in (('absent', 'ok'), ('absent', 'prompt'), ('empty-dir', 'ok'), ('other-version', 'ok'), ('other-version', 'force'),
                                  ('same', 'force'), ('same-noexec', 'force'), ('absent', 'force')):
                if kind == 'windows' and state in ('other-version', 'same', 'same-noexec'):
                    continue
                for side in ('dest', 'src'):
                    space.append((parent, kind, state, deploy, side))
    n = 30 if tier == 'thorough' else 3
    for (parent, kind, state, deploy, side) in rng.sample(space, n):
        unames = [kind, kind + '-alpine'] if kind != 'windows' else [None]
        core.append(mk_sc(parent, kind, state=state, deploy=deploy, side=side, uname=rng.choice(unames), rumask=rng.choice([0o22, 0o22, 0o02, 0o77, 0o27]),
                          bumask=rng.choice([0o22, 0o22, 0o02, 0o77, 0]), tmpdir=rng.choice([None, None, 'stag ing', 'a/b/c', 'ünï']), tree=rng.randrange(1, 1000)))
    # both sides remote, two hosts of different kinds: two deployments in one run
    core.append(mk_sc('big', 'x86_64', side='src', second={'side': 'dest', 'kind': 'aarch64', 'uname': 'aarch64', 'state': 'absent', 'rumask': 0o22}))
    if tier == 'thorough':
        core.append(mk_sc('bigz', 'aarch64', side='src', state='other-version',
                          second={'side': 'dest', 'kind': 'aarch64', 'uname': 'aarch64-alpine', 'state': 'same-noexec', 'rumask': 0o27}, deploy='force'))
        core.append(mk_sc('big', 'windows', side='src', second={'side': 'dest', 'kind': 'x86_64', 'uname': 'x86_64', 'state': 'absent', 'rumask': 0o22}))
    return core


def sync_tree(seed):
    r = __import__('random').Random(seed)
    t = {'': {'k': 'dir'}, 'a.txt': {'k': 'file', 'data': b'deployed %d' % seed, 'mtime_ns': 1600000000 * 10**9},
         'sub': {'k': 'dir'}, 'sub/b.bin': {'k': 'file', 'len': r.choice([0, 1, 5000, 70000]), 'fill': seed, 'mtime_ns': 1500000000 * 10**9}}
    if r.random() < 0.5:
        t['sub/deeper'] = {'k': 'dir'}
        t['sub/deeper/c'] = {'k': 'file', 'len': r.randrange(0, 300), 'fill': seed + 1, 'mtime_ns': 1400000000 * 10**9}
    return t


def snap_content(s):
    return {k: v[:3] if v[0] == 'file' else v for k, v in s.items()}


def expected_deployed(parent, kind, ctx):
    """What the property text and the doc comment of create_binary_for_target say is placed on the remote:
    native target -> the running program itself; otherwise Big_p = Lite_p + Embed(table of the parent)."""
    if ctx['native'] in D.COMPATIBLE[kind]:
        return 'self', None
    cands = [(t, d) for (t, d) in parent['entries'] if t.decode() in D.COMPATIBLE[kind]]
    if not cands:
        return 'none', None
    return 'generated', cands


def check_deployed_bytes(parent, kind, ctx, deployed):
    """-> error text or None.  `deployed`: bytes of the file found on the remote."""
    how, cands = expected_deployed(parent, kind, ctx)
    if how == 'self':
        if 'sha' not in parent:
            parent['sha'] = D.sha_file(parent['path'])
        if D.sha(deployed) != parent['sha']:
            return 'the remote platform is the native one, but the deployed file is not a copy of the running program'
        return None
    if how == 'none':
        return 'a file was deployed although the parent has no binary for this platform'
    errs = []
    for triple, data in cands:              # any compatible entry is acceptable
        if kind == 'windows':
            c = case('add-pe', data, NAME, ('H', parent['table']), 'deploy')
            bad = pe_oracle(c, deployed)
            if bad is None and not c.get('wf'):
                bad = 'the lite PE is outside the layouts the oracle knows'
            if bad is None:
                q = X.pe_parse(deployed); new = q['sections'][-1]
                got = deployed[new['ptr']:new['ptr'] + new['raw']]
                if got[:len(parent['table'])] != parent['table'] or any(got[len(parent['table']):]):
                    bad = 'the embedded table read back from the deployed PE is not the parent\'s table (++ zeros)'
        else:
            c = case('add-elf', data, NAME, ('H', parent['table']), 'deploy')
            bad = elf_oracle(c, deployed)
            if bad is None and not c.get('wf'):
                bad = 'the lite ELF is outside the layouts the oracle knows'
            if bad is None:
                q = X.elf_parse(deployed); new = q['sections'][-1]
                if deployed[new['off']:new['off'] + new['size']] != parent['table']:
                    bad = 'the embedded table read back from the deployed ELF is not the parent\'s table'
        if bad is None:
            return None
        errs.append('%s: %s' % (triple.decode(), bad))
    return 'the deployed file is not <embedded lite binary for the remote platform> + <the parent\'s table>: ' + '; '.join(errs)


def run_deploy_scenario(run, ctx, sc, idx):
    """Runs one scenario on the real CLI, evaluates the property oracle and the model correspondence."""
    from e2e import build_tree, snapshot, tree_to_snapshot
    parent = ctx['parents'].get(sc['parent'])
    if parent is None:
        return
    desc = sc_describe(dict(sc, build=ctx['label']))
    replay = {'deploy_scenario': sc, 'build': ctx['label'], 'description': desc}
    root = os.path.join(ctx['tmp'], 'dep_%s_%d' % (ctx['label'], idx))
    os.makedirs(root)
    hosts, existing = {}, {}
    for i, h in enumerate(sc['hosts']):
        name = HOST_NAMES[i]
        hosts[name] = D.make_host(root, name, h['kind'], h['uname'], h['rumask'], h['state'], same_binary=ctx['lite'])
        existing[name] = D.mode_of(D.remote_bin_path(root, name, h['kind'] == 'windows'))
    env, logf = D.fake_env(root, ctx['fakebin'], hosts)
    env['RJRSSYNC_TEST_PROMPT_RESPONSE'] = '2:needs to be deployed:Deploy' if sc['deploy'] == 'prompt' else ''
    if sc['tmpdir']:
        td = os.path.join(root, 'tmp', sc['tmpdir'])
        os.makedirs(td)
        env['TMPDIR'] = td
    tree = sync_tree(sc['tree'])
    srcdir, destdir = os.path.join(root, 'tree_src'), os.path.join(root, 'tree_dest')
    build_tree(srcdir, tree)
    spec = {'src': srcdir + '/', 'dest': destdir + '/'}
    for i, h in enumerate(sc['hosts']):
        spec[h['side']] = HOST_NAMES[i] + ':' + spec[h['side']]
    cmd = [parent['path'], '--deploy', 'ok' if sc['deploy'] == 'prompt' else sc['deploy']]
    if sc['deploy'] == 'prompt':
        cmd = [parent['path'], '--deploy', 'prompt']
    cmd += [spec['src'], spec['dest']]
    e = dict(os.environ); e.pop('RUST_LOG', None); e['NO_COLOR'] = '1'; e.update(env)
    bumask = sc['bumask']
    t0 = time.time()
    p = subprocess.Popen(cmd, stdout=subprocess.PIPE, stderr=subprocess.PIPE, stdin=subprocess.DEVNULL, env=e, start_new_session=True,
                         preexec_fn=lambda: os.umask(bumask))
    try:
        so, se = p.communicate(timeout=300)
        timed_out = False
    except subprocess.TimeoutExpired:
        timed_out = True
        try:
            os.killpg(p.pid, 9)
        except ProcessLookupError:
            pass
        so, se = p.communicate()
    rc = p.returncode
    ctx['t_cli'] = ctx.get('t_cli', 0) + time.time() - t0
    so, se = so.decode('utf-8', 'replace'), se.decode('utf-8', 'replace')
    log = D.read_log(logf)
    run.count('deploy:%s:%s' % (ctx['label'], '+'.join('%s/%s/%s' % (sc['parent'], h['kind'], h['state']) for h in sc['hosts'])))
    run.count('deploy-scenarios')
    run.case(('deploy', ctx['label'], json.dumps(sc, sort_keys=True)), True,
             sample={'deploy_scenario': desc, 'exit': rc, 'steps': [d.get('kind') for d in log]} if idx == 0 else None)
    replay.update({'exit': rc, 'stdout': so[-1200:], 'stderr': se[-1200:],
                   'fake_log': [{k: v for k, v in d.items() if k != 't'} for d in log][-12:]})
    any_windows = any(h['kind'] == 'windows' for h in sc['hosts'])
    synced = snap_content(snapshot(destdir)) == snap_content(tree_to_snapshot(tree))
    fails = []
    if timed_out:
        fails.append('the run did not finish within 300 s')
    for i, h in enumerate(sc['hosts']):
        name, windows = HOST_NAMES[i], h['kind'] == 'windows'
        hlog = [d for d in log if d.get('host') == name]
        tr = D.observed_trace(hlog, windows)
        rfile = D.remote_bin_path(root, name, windows)
        how, _ = expected_deployed(parent, h['kind'], ctx)
        who = '%s side (fake %s remote, rjrssync %s)' % (h['side'], h['kind'], h['state'])
        if tr is None or 'scp' not in [k for k, _ in tr['tokens']]:
            # a later host is never reached when an earlier one failed or was the fake Windows host (nothing starts there)
            if i == 0 or not (fails or any(x['kind'] == 'windows' for x in sc['hosts'][:i])):
                fails.append('%s: no deployment happened (exit %d)' % (who, rc))
            continue
        run.count('deploy-path:' + how)
        # --- correspondence: mode trace of the model vs what the fake tools saw
        started = 1 if (rc == 0 and synced) else 0
        obs = 'STEPS staged=%s %s' % (tr['staged_mode'], ' '.join('%s=%s' % (k, ('-' if v is None else v) if k != 'launch' else started)
                                                                      for k, v in tr['tokens']))
        line = 'deploy %d %d %d %d %d %d %s' % (1 if windows else 0, 1 if how == 'self' else 0, 1 if os.geteuid() == 0 else 0, parent['mode'],
                                                bumask, h['rumask'], '-' if existing[name] is None else existing[name])
        model = X.run_judge(ctx['jbin'], [line])[0]
        if windows or any_windows and rc != 0:      # nothing can be started on / after the fake Windows host
            obs, model = obs.rsplit(' launch=', 1)[0], model.rsplit(' launch=', 1)[0]
        run.traces_validated += 1
        corr_bad = obs != model
        # --- property oracle
        if not os.path.isfile(rfile):
            fails.append('%s: after the deployment there is no program file on the remote' % who)
            continue
        deployed = open(rfile, 'rb').read()
        bad = check_deployed_bytes(parent, h['kind'], ctx, deployed)
        if bad:
            fails.append('%s: %s' % (who, bad))
        if windows:
            if corr_bad:
                run.broke('correspondence', 'deploy-steps', json.dumps({'scenario': desc, 'request': line, 'model': model, 'observed': obs}))
            continue
        m = D.mode_of(rfile)
        if not (m & 0o100) or not os.access(rfile, os.X_OK):
            fails.append('%s: the deployed program file is not executable (mode %04o; staged with mode %s, commands after the upload: %s)'
                         % (who, m, 'unknown' if tr['staged_mode'] is None else '%04o' % tr['staged_mode'], [k for k, _ in tr['tokens']][1:]))
        else:
            key = D.sha(deployed)
            if key not in ctx['probes']:
                ctx['probes'][key] = probe_binary(rfile)
            pr = ctx['probes'][key]
            for what, k in (('--version', 'version'), ('the version it announces for the handshake (first line of --doer)', 'doer_announce'),
                            ('--list-embedded-binaries', 'list')):
                if pr[k] != parent['probe'][k]:
                    fails.append('%s: the deployed binary differs from its parent in %s: %r vs %r' % (who, what, pr[k], parent['probe'][k]))
        if corr_bad and not fails:
            run.broke('correspondence', 'deploy-steps', json.dumps({'scenario': desc, 'request': line, 'model': model, 'observed': obs}))
        elif corr_bad:
            replay['model_trace'], replay['observed_trace'] = model, obs
    if not any_windows:
        if rc != 0:
            fails.insert(0, 'the sync through the freshly deployed binary failed with exit %d (%s)' % (rc, ' | '.join(
                l.strip() for l in (so + se).splitlines() if 'ERROR' in l or 'denied' in l)[-300:]))
        elif not synced:
            fails.append('exit 0 but the destination does not mirror the source')
    if fails:
        run.fail('C19 deploy [%s]: %s' % (desc, '; '.join(fails)), replay)
    shutil.rmtree(root, ignore_errors=True)


def deploy_leg(run, lite, jbin, tmp, label, only=None):
    ctx = {'lite': lite, 'jbin': jbin, 'tmp': tmp, 'label': label, 'native': native_triple(), 'probes': {},
           'fakebin': D.install_tools(os.path.join(tmp, 'fake_' + label))}
    t0 = time.time()
    ctx['parents'] = build_parents(run, lite, tmp, label, __import__('random').Random(7))
    t_par = time.time() - t0
    scs = only if only is not None else deploy_scenarios(run, run.tier)
    for i, sc in enumerate(scs):
        run_deploy_scenario(run, ctx, sc, i)
    vlib.log('deploy leg %s: %d scenarios %.1fs (parents %.1fs, CLI runs %.1fs; native triple %s)' % (label, len(scs), time.time() - t0, t_par, ctx.get('t_cli', 0), ctx['native']))
    run.notes.append('deploy leg (%s build): %d scenarios through fake ssh/scp; native triple %s' % (label, len(scs), ctx['native']))


# ------------------------------------------------------------------------------------------------
def check(run, only=None, deploy_only=None):
    run.trusted = list(vlib.COMMON_TRUSTED) + [
        'modelled, not verified: the ELF and PE loaders (the theorems state which bytes and headers are preserved; that the augmented program runs is checked by executing the augmented rjrssync itself), memory exhaustion (generated FileAlignment values stay below 1 MiB)',
        'deployment leg: ssh, scp, chmod +x and execve are not code of the repository; Model/DeployFile.v models their documented permission-bit behaviour (scp without -p: new file = source mode masked by the remote umask, existing file keeps its mode; chmod +x adds the unmasked x bits; exec needs an x bit) and tools/deploy_lib.py implements the same (python scp, real bash/chmod/exec under the remote umask). No real remote, no Windows/PE execution (a generated PE is checked byte-wise only)',
        'python readers of ELF64/PE in tools/exe_lib.py (property oracle)']
    run.assumptions = ['usize is 64 bit (the model uses 2^64 for usize arithmetic; the harness runs on x86_64)',
                       'Vec lengths stay below 2^63, so read_string cannot overflow its index']
    run.extra['rule'] = ('synthetic ELF64 files: 0..5 sections + names section at first/middle/last table position, section header entry sizes 0x40/0x48 (thorough: also 0x60, 0x1000), '
                         'with/without null section, varying gaps; PE files: FileAlignment in {1..4096 incl. non powers of two} x header gap {0..80} x 1..5 sections, varying SectionAlignment / optional header size / e_lfanew; '
                         'payloads 0 B .. 3 MiB; every add that succeeds is followed by an extraction from the produced file and sometimes a second add; names around the 8/32 byte caps; '
                         'malformed: truncations at every (quick: every third) length, single-field corruptions with boundary values, random strings with valid magic, random byte mutations; '
                         'a case is non-trivial when it is malformed or the implementation produced a file / read a payload back; distinct by (mode, op, sha1 of the file, name, payload); '
                         'deployment scenarios: parent {built binary, + uncompressed table, + compressed table} x remote {x86_64 = native: copy of the running program; aarch64: generated ELF; Windows AMD64: generated PE, bytes only} '
                         'x remote state {absent, empty folder, other version, same version, same version without x bit} x --deploy {ok, force, prompt answered} x remote side {dest, src, both on two hosts} '
                         'x umasks of boss and remote x TMPDIR (default, with a space, nested, non-ASCII): 9 fixed + 3 random + 1 two-host scenario (thorough: 9 + 30 + 3, debug and release builds)')
    binary = vlib.build_impl()
    vlib.regen_facts(binary)
    run.check_proofs('C19', THEOREMS, extra_targets=['theories/Extract/Ex_exe.vo'])
    jbin = vlib.build_judge('exe')
    tmp = tempfile.mkdtemp(prefix='c19_', dir=vlib.CACHE)
    try:
        corpus = only if only is not None else corpus_cases()
        fixed = detect_fixed(binary, corpus_cases())
        run.extra['tree_is_fixed'] = fixed
        run.notes.append('model variant compared: ' + ('fixed code (fx=1)' if fixed else 'pinned code (fx=0) - the F9 witnesses still panic'))
        cases = corpus + (gen_cases(run, run.tier) if only is None else [])
        modes = [('debug', binary)]
        if run.tier == 'thorough' or (deploy_only is not None and deploy_only[0] == 'release'):
            modes.append(('release', vlib.build_impl(release=True)))
        for mode, b in modes:
            fol = run_batch(run, cases, b, jbin, mode, fixed)
            run_batch(run, fol, b, jbin, mode, fixed, follow=False)
        if only is None:
            for mode, b in modes:
                real_binary_leg(run, b, tmp, mode)
        if only is None or deploy_only is not None:
            for mode, b in modes:
                if deploy_only is None or deploy_only[0] == mode:
                    deploy_leg(run, b, jbin, tmp, mode, only=None if deploy_only is None else [deploy_only[1]])
        run.extra['notes'] = run.notes
    finally:
        shutil.rmtree(tmp, ignore_errors=True)
    return run.finish(search=None)   # every case already ran the property oracle on the implementation


def replay(run, path):
    r = json.load(open(path))
    print(json.dumps({k: (v if not isinstance(v, str) or len(v) < 200 else v[:200] + '...') for k, v in r.items()}, indent=1))
    if 'deploy_scenario' in r:
        return check(run, only=[], deploy_only=(r.get('build', 'debug'), r['deploy_scenario']))
    if 'op' not in r:
        return check(run)
    pl = None
    if r['op'].startswith('add'):
        pl = ('G', r['payload_gen'][1], r['payload_gen'][2]) if r.get('payload_gen') else ('H', bytes.fromhex(r.get('payload') or ''))
    c = case(r['op'], bytes.fromhex(r['exe']), bytes.fromhex(r['name']), pl, r.get('kind', 'replay'), valid=False)
    return check(run, only=[c])
