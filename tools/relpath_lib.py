"""RootRelativePath::is_same_or_inside: the real function (harness sub-command `relpath`) against the Coq model evaluated INSIDE Coq
(one coqc run over a generated cases file: `Eval vm_compute in spec_sois ...`, Proofs/TransPathEq.v) and against the meaning the
callers rely on (component-wise prefix).  Paths are built from components that are byte-prefixes of one another, multi-byte
characters whose encodings share leading bytes, and the root."""
import os, subprocess, tempfile, shutil
import vlib

NAMES = ['a', 'ab', 'abc', 'b', 'a.b', 'é', 'ét', 'été', 'è', '日', '日本', 'x y', 'A', '-', '€', '\U0001F600', 'é']


def gen_pairs(rng, n):
    pairs = [([], []), (['a'], []), ([], ['a']), (['a'], ['a']), (['a', 'b'], ['a']), (['ab'], ['a']), (['a'], ['ab']), (['a', 'b'], ['a', 'b']),
             (['été', 'x'], ['ét']), (['été', 'x'], ['été']), (['é'], ['è']), (['日本'], ['日']), (['日', '本'], ['日']), (['a', 'b', 'c'], ['a', 'b']),
             (['a', 'bc'], ['a', 'b']), (['é'], ['e'])]
    while len(pairs) < n:
        a = [rng.choice(NAMES) for _ in range(rng.randrange(0, 4))]
        r = rng.random()
        if r < 0.4:
            b = a[:rng.randrange(0, len(a) + 1)]
        elif r < 0.6 and a:
            b = a[:-1] + [a[-1][:max(1, len(a[-1]) - 1)]]         # last component cut short (a character-level prefix)
        elif r < 0.7:
            b = a + [rng.choice(NAMES)]
        else:
            b = [rng.choice(NAMES) for _ in range(rng.randrange(0, 4))]
        pairs.append((a, b))
    return pairs


def coq_bytes(bs):
    return '[' + '; '.join('ascii_of_nat %d' % x for x in bs) + ']'


def model_answers(pairs):
    """evaluates spec_sois inside Coq for every pair; returns a list of '1' / '0' / 'PANIC'"""
    d = tempfile.mkdtemp(prefix='relpath_', dir=vlib.CACHE)
    try:
        lines = ['From RJ Require Import Base.Prelude Model.TransSupport Model.RelPath Gen.FactsTransPath Proofs.TransPathEq.',
                 'From Coq Require Import Ascii.',
                 'Definition show (r : tres bool) : nat := match r with TVal true => 1 | TVal false => 0 | TPanic => 2 end.',
                 'Definition cases : list (list ascii * list ascii) := [']
        rows = []
        for a, b in pairs:
            rows.append('  (%s, %s)' % (coq_bytes('/'.join(a).encode()), coq_bytes('/'.join(b).encode())))
        lines.append(';\n'.join(rows))
        lines.append('].')
        lines.append('Eval vm_compute in map (fun p => (show (T_is_same_or_inside (fst p) (snd p)), show (spec_sois (fst p) (snd p)))) cases.')
        f = os.path.join(d, 'cases.v')
        open(f, 'w').write('\n'.join(lines) + '\n')
        p = subprocess.run(['coqc', '-noglob', '-Q', os.path.join(vlib.COQ, 'theories'), 'RJ', f], stdout=subprocess.PIPE, stderr=subprocess.STDOUT, text=True, timeout=600, cwd=d)
        if p.returncode != 0:
            raise vlib.BrokenTie('coqc on the relpath cases failed: ' + p.stdout[-800:])
        import re
        out = re.findall(r'\(\s*(\d),\s*(\d)\s*\)', p.stdout)
        if len(out) != len(pairs):
            raise vlib.BrokenTie('relpath: %d answers for %d cases' % (len(out), len(pairs)))
        return [({'1': '1', '0': '0', '2': 'PANIC'}[x], {'1': '1', '0': '0', '2': 'PANIC'}[y]) for x, y in out]
    finally:
        shutil.rmtree(d, ignore_errors=True)


def family(run, binary, n=260):
    ok, out = vlib.build_coq(['theories/Proofs/TransPathEq.vo'])
    if not ok:
        return          # reported by check_translation
    pairs = gen_pairs(run.rng, n)
    impl = vlib.harness(binary, 'relpath', ['%s %s' % ('/'.join(a).encode().hex() or '-', '/'.join(b).encode().hex() or '-') for a, b in pairs])
    model = model_answers(pairs)
    for (a, b), im, (mt, ms) in zip(pairs, impl, model):
        run.count('relpath:' + im)
        run.case(('relpath', tuple(a), tuple(b)), True)
        run.traces_validated += 1
        want = '1' if a[:len(b)] == b else '0'
        rep = {'driver': 'unit-relpath', 'self': a, 'other': b, 'impl': im, 'model_translated': mt, 'model_spec': ms}
        if im != want:
            run.fail('is_same_or_inside(%r, %r) answered %s: the path %s the other one (component-wise)' % (
                '/'.join(a), '/'.join(b), im, 'is the same as or inside' if want == '1' else 'is neither the same as nor inside'), rep)
        elif im != mt or im != ms:
            run.broke('correspondence', 'unit-relpath', str(rep))
