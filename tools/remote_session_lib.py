#!/usr/bin/env python3
"""Remote-session family of C09 (tie of Model/RemoteSession.v to the real binary).

Two roles:

(1) `python3 remote_session_lib.py --ssh <host> <remote command>`: a fault-injecting stand-in for `ssh`
    (installed as a tiny `ssh` script first on PATH).  It runs the remote command locally (binary path replaced
    by $FAKE_SSH_BINARY), OWNS the doer's stdin (so it can close it early), relays stdout/stderr, and follows the
    plan in $REMOTE_PLAN (JSON keyed by host):
       "env":    {...}                               extra environment of this doer
       "cut":    {"dir","frames","bytes","stats"}    TCP cut through tools/cut_proxy.Proxy
       "kill":   {"log": path, "lines": k}           SIGKILL of the doer's process group once its command log has k lines
       "stdin":  {"log": path, "lines": k}           close the doer's stdin once its command log has k lines
       "launch": {"when": "before"|"after", "line": n}   the doer dies (SIGKILL) before / after its n-th (1-based)
                                                     handshake line on stdout is forwarded
       "status": path                                where to write {"rc", "killed", "stdin_closed", "log_at_fault"}
    The doer's exit status is ALWAYS logged there.

(2) imported by tools/props/c09.py: `family(run, binary, jbin, tmp)` runs the real CLI with one remote side under
    the watchdog over fault positions, asks the extracted model (judge_remote) for the outcomes it admits on the
    same fault plan, and reports  run.broke('correspondence', ...) / run.fail(...).
"""
import os, sys, json, socket, struct, subprocess, threading, time, signal, tempfile, shutil, uuid

HERE = os.path.dirname(os.path.abspath(__file__))
HS = b'Waiting for incoming network connection on port '


# =================================================================================================
# role 1: the fake ssh
def ssh_main(host, cmd):
    sys.path.insert(0, HERE)
    import cut_proxy
    plan = {}
    try:
        plan = json.loads(os.environ.get('REMOTE_PLAN', '{}')).get(host.split('@')[-1], {})
    except ValueError:
        pass
    binary = os.environ['FAKE_SSH_BINARY']
    cmd = cmd.replace('/var/tmp/rjrssync/rjrssync', binary)
    env = dict(os.environ)
    env.update(plan.get('env', {}))
    child = subprocess.Popen(['sh', '-c', cmd], stdin=subprocess.PIPE, stdout=subprocess.PIPE, stderr=subprocess.PIPE, env=env,
                             process_group=0)
    proxy = [None]
    plock = threading.Lock()
    state = {'killed_by_us': False, 'stdin_closed': False, 'log_at_fault': None, 'launch_fault': False}
    slock = threading.Lock()

    def close_child_stdin():
        with slock:
            try:
                child.stdin.close()
            except OSError:
                pass

    def pump_stdin():
        try:
            while True:
                data = os.read(0, 4096)
                if not data:
                    break
                with slock:
                    if child.stdin.closed:
                        continue
                    try:
                        child.stdin.write(data)
                        child.stdin.flush()
                    except (OSError, ValueError):
                        pass
        except OSError:
            pass
        close_child_stdin()

    def kill_child():
        try:
            os.killpg(child.pid, signal.SIGKILL)
        except ProcessLookupError:
            pass

    launch = plan.get('launch')
    seen_out = [0]

    def relay(src, dst, is_out):
        while True:
            line = src.readline()
            if not line:
                break
            if is_out and launch:
                seen_out[0] += 1
                if seen_out[0] == int(launch['line']) and launch['when'] == 'before':
                    state['launch_fault'] = True
                    kill_child()
                    break
            if line.startswith(HS) and plan.get('badport'):
                # the handshake succeeds but nobody listens where the boss is told to connect (a firewalled port, a host alias that does
                # not resolve for TCP): a port that was bound and closed again
                import socket as _s
                tmp_sock = _s.socket()
                tmp_sock.bind(('127.0.0.1', 0))
                dead = tmp_sock.getsockname()[1]
                tmp_sock.close()
                state['launch_fault'] = True
                line = HS + str(dead).encode() + b'\n'
            if line.startswith(HS) and plan.get('cut'):
                port = int(line[len(HS):].strip())
                with plock:
                    if proxy[0] is None:
                        proxy[0] = cut_proxy.Proxy(port, plan['cut'])
                line = HS + str(proxy[0].port).encode() + b'\n'
            try:
                dst.write(line)
                dst.flush()
            except OSError:
                break
            if is_out and launch and seen_out[0] == int(launch['line']) and launch['when'] == 'after':
                state['launch_fault'] = True
                kill_child()
                break
        try:
            dst.close()
        except OSError:
            pass

    def watcher(what):
        k = plan[what]
        path, want = k['log'], int(k['lines'])
        while child.poll() is None:
            try:
                with open(path, 'rb') as f:
                    text = f.read()
            except OSError:
                text = b''
            if text.count(b'\n') >= want:
                state['log_at_fault'] = text.decode('utf-8', 'replace')
                if what == 'kill':
                    state['killed_by_us'] = True
                    kill_child()
                else:
                    state['stdin_closed'] = True
                    close_child_stdin()
                return
            time.sleep(0.0005)

    ts = [threading.Thread(target=relay, args=(child.stdout, sys.stdout.buffer, True)),
          threading.Thread(target=relay, args=(child.stderr, sys.stderr.buffer, False))]
    for t in ts:
        t.start()
    if plan.get('nokey'):
        # the session is dropped before the key is handed over (the boss gave up, ssh lost the connection): the doer's stdin reaches its
        # end while the doer is still waiting for the key - it must give up, not wait or spin
        state['launch_fault'] = True
        state['stdin_closed'] = True
        close_child_stdin()
    else:
        threading.Thread(target=pump_stdin, daemon=True).start()
    for what in ('kill', 'stdin'):
        if plan.get(what):
            threading.Thread(target=watcher, args=(what,), daemon=True).start()
    rc = child.wait()
    for t in ts:
        t.join()
    if proxy[0] is not None:
        try:
            proxy[0].close_both()
        except AttributeError:
            pass
        if plan['cut'].get('stats'):
            with open(plan['cut']['stats'], 'w') as f:
                json.dump({'frames': proxy[0].frames, 'did_cut': proxy[0].did_cut}, f)
    if plan.get('status'):
        tmpf = plan['status'] + '.tmp'
        with open(tmpf, 'w') as f:
            json.dump({'rc': rc, 'killed': bool(state['killed_by_us'] and rc == -signal.SIGKILL),
                       'stdin_closed': state['stdin_closed'], 'launch_fault': state['launch_fault'],
                       'log_at_fault': state['log_at_fault']}, f)
        os.replace(tmpf, plan['status'])
    os._exit(255 if rc < 0 else rc)


if __name__ == '__main__' and len(sys.argv) >= 4 and sys.argv[1] == '--ssh':
    ssh_main(sys.argv[2], sys.argv[3])


# =================================================================================================
# role 2: the family
import e2e                       # noqa: E402
import shutdown_lib as L         # noqa: E402

SSH_WRAPPER = '#!/bin/sh\nexec python3 %s --ssh "$1" "$2"\n' % os.path.abspath(__file__)
HOST = '127.0.0.1'
FILES = [40000, 5000]            # 40000 B = chunks 4096, 8192, 16384, 11328 ; 5000 B = 4096, 904
WATCHDOG = 40.0
CAPS = (None, 9000)              # the real 100 MiB / about one chunk: "more than capacity queued" with kilobyte files
RESP_OVH, CMD_OVH = 13, 60


def scenario_build(sc, base):
    """sandbox for one scenario; returns (argv, env, fake_ssh_dir)"""
    os.makedirs(os.path.join(base, 'src'))
    for i, n in enumerate(sc['files']):
        p = os.path.join(base, 'src', 'f%02d' % i)
        with open(p, 'wb') as f:
            f.write(e2e.file_bytes({'len': n, 'fill': i}))
        os.utime(p, ns=(10 ** 18 + i, 10 ** 18 + i))
    side = sc['side']                                   # which doer is remote: 'src' | 'dest'
    src = ('%s:' % HOST if side == 'src' else '') + os.path.join(base, 'src') + '/'
    dest = ('%s:' % HOST if side == 'dest' else '') + os.path.join(base, 'dest') + '/'
    env = {'C09_RUN_TAG': 'c09r-' + uuid.uuid4().hex}
    if sc.get('capacity') is not None:
        env['RJRSSYNC_VERIF_CAPACITY'] = str(sc['capacity'])
    log = os.path.join(base, 'cmd.log')
    plan = {'env': {'RJRSSYNC_VERIF_CMD_LOG': log}, 'status': os.path.join(base, 'status.json')}
    fl = sc['fault']
    k = fl['kind']
    if k == 'err':
        plan['env']['RJRSSYNC_VERIF_FAULTS'] = ('get:%d:error' if side == 'src' else 'cmd:%d:error') % fl['k']
    elif k == 'cut':
        plan['cut'] = {'dir': fl['dir'], 'frames': fl['frames'], 'bytes': 0, 'stats': os.path.join(base, 'cut_stats.json')}
    elif k == 'kill':
        plan['kill'] = {'log': log, 'lines': fl['k']}
    elif k == 'stdin':
        plan['stdin'] = {'log': log, 'lines': fl['k']}
    elif k == 'launch':
        plan['launch'] = {'when': fl['when'], 'line': fl['line']}
    elif k == 'connect':
        plan['badport'] = True
    elif k == 'nokey':
        plan['nokey'] = True
    env['REMOTE_PLAN'] = json.dumps({HOST: plan})
    return [src, dest], env, e2e.fake_ssh_dir(base, SSH_WRAPPER)


def count_doers(tag):
    """rjrssync --doer processes that carry this run's tag in their environment and are still alive"""
    n = 0
    for pid in os.listdir('/proc'):
        if not pid.isdigit():
            continue
        try:
            with open('/proc/%s/cmdline' % pid, 'rb') as f:
                cl = f.read()
            if b'--doer' not in cl or b'rjrssync' not in cl:
                continue
            with open('/proc/%s/stat' % pid) as f:
                if f.read().split(') ', 1)[1].split()[0] == 'Z':
                    continue
            with open('/proc/%s/environ' % pid, 'rb') as f:
                if tag.encode() in f.read():
                    n += 1
        except (OSError, IndexError):
            pass
    return n


def run_real(binary, sc, base, watchdog=WATCHDOG):
    argv, env, fake = scenario_build(sc, base)
    r = e2e.run_cli(binary, argv, env=env, timeout=watchdog, fake_ssh=fake)
    # a doer the boss has let go of (stdin closed, connection gone) ends by itself: give it a few seconds, then count what is still there
    orphans = 0
    if not r['timed_out']:
        t_end = time.time() + 6.0
        while True:
            orphans = count_doers(env['C09_RUN_TAG'])
            if orphans == 0 or time.time() > t_end:
                break
            time.sleep(0.1)
    leftovers = L.reap(env['C09_RUN_TAG'])
    obs = {'exit': r['exit'], 'timed_out': r['timed_out'], 'wall_s': round(r['wall_s'], 3), 'orphan_doers': orphans,
           'stderr_tail': e2e.ANSI.sub('', r['stderr'])[-500:], 'leftover_processes': leftovers, 'watchdog': watchdog}
    try:
        obs['cmd_lines'] = [cmd_rest(l) for l in open(os.path.join(base, 'cmd.log')).read().splitlines() if l.strip()]
    except OSError:
        obs['cmd_lines'] = []
    obs['cmds'] = [l.split(' ', 1)[0] for l in obs['cmd_lines']]
    st = None
    for _ in range(200):            # the fake ssh writes the status right before it exits; the boss waits for it,
        try:                        # except when the boss gave up on the launch
            st = json.load(open(os.path.join(base, 'status.json')))
            break
        except (OSError, ValueError):
            if not r['timed_out'] and sc['fault']['kind'] not in ('launch', 'connect', 'nokey'):
                time.sleep(0.01)
            else:
                time.sleep(0.005)
    obs['status'] = st
    if sc['fault']['kind'] == 'cut':
        try:
            obs['cut_stats'] = json.load(open(os.path.join(base, 'cut_stats.json')))
        except (OSError, ValueError):
            obs['cut_stats'] = None
    return obs


def cmd_rest(line):
    """'"thread" Kind args...' -> 'Kind args...'"""
    return line.split('" ', 1)[-1] if line.startswith('"') else line


def cmd_kind(line):
    return cmd_rest(line).split(' ', 1)[0]


def doer_status(obs):
    """exit status of the doer as the model names it: 0 / 20 / 65 / 137 (killed) / other; None when unknown"""
    st = obs.get('status')
    if not st:
        return None
    rc = st['rc']
    if rc == -signal.SIGKILL:
        return 137
    return rc


# -------------------------------------------------------------------------------------------------
# the model's view of a run
def file_index(line):
    """index i of the source file fNN a GetFileContent / CreateOrUpdateFile log line names (listing order is not sorted)"""
    try:
        name = bytes.fromhex(line.split(' ')[1]).decode()
        return int(name.rsplit('f', 1)[-1])
    except (ValueError, IndexError):
        return 0


def responses_of(kind, sc, idx_file):
    """(number of responses, accounted size of each) of a command in a fault-free run"""
    if kind == 'SetRoot':
        return 1, 40
    if kind == 'GetEntries':
        return len(sc['files']) + 1, 70          # every file, EndOfEntries (the root itself is SetRoot's answer)
    if kind == 'GetFileContent':
        ch = L.chunk_ladder(sc['files'][idx_file])
        return len(ch), max(ch) + RESP_OVH
    if kind == 'Marker':
        return 1, 12
    return 0, 0


def model_ops(sc, clean_cmds):
    """boss application protocol on this connection, reconstructed from the commands a fault-free run delivered:
    a command with responses is followed by the blocking receives of its responses, one without by a poll.
    Returns (ops string, list of command kinds in order, index list of commands that the error hook can hit)."""
    ops, kinds = [], []
    last_marker = max([i for i, l in enumerate(clean_cmds) if l.split(' ', 1)[0] == 'Marker'] or [-1])
    for pos, line in enumerate(clean_cmds):
        kind = line.split(' ', 1)[0]
        if kind == 'Shutdown':
            continue
        cid = len(kinds) + 1
        k, rsz = responses_of(kind, sc, file_index(line) if kind == 'GetFileContent' else 0)
        csz = 60
        if kind == 'CreateOrUpdateFile':
            try:
                csz = int(line.split(' ')[2]) + CMD_OVH
            except (ValueError, IndexError):
                csz = CMD_OVH
        ops.append('S%d:%d:%d:%d' % (cid, k, csz, rsz))
        # a progress marker is not waited for (its echo is picked up by a later poll); the last marker is the Done
        # marker: process_dest_responses(block_until_done)
        ops.extend(['R'] * k if (k and not (kind == 'Marker' and pos != last_marker)) else ['T'])
        kinds.append(kind)
    return ','.join(ops) if ops else '-', kinds


MUTATING = ('CreateRootAncestors', 'CreateOrUpdateFile', 'CreateSymlink', 'CreateFolder', 'DeleteFile', 'DeleteFolder', 'DeleteSymlink')


def model_lines(sc, clean_cmds):
    """request lines for judge_remote whose union of outcomes is what the model admits for the scenario; [] when the
    fault lies outside the modelled session (launch)."""
    ops, kinds = model_ops(sc, clean_cmds)
    fl = sc['fault']
    k = fl['kind']
    cap = sc['capacity'] if sc.get('capacity') is not None else 100 * 1024 * 1024
    n = len(kinds)
    eplan, plans = '-', ['-']
    if k in ('launch', 'connect', 'nokey'):
        return []
    if k == 'err':
        pos = None
        seen = -1
        for i, kd in enumerate(kinds):
            if (sc['side'] == 'src' and kd == 'GetFileContent') or (sc['side'] == 'dest' and kd in MUTATING):
                seen += 1
                if seen == fl['k']:
                    pos = i
        if pos is not None and not (sc['side'] == 'dest' and kinds[pos] == 'CreateOrUpdateFile'):
            eplan = ''.join('1' if i == pos else '0' for i in range(n))
    elif k == 'cut':
        # the proxy stops forwarding in direction d after frame i and closes both sockets some time later: frame i+1
        # of that direction never arrives (= bad), the other direction goes on until the cut takes effect
        d = 0 if fl['dir'] == 'b2d' else 1
        plans = ['f%d:%d/cut' % (d, fl['frames'])]
        plans += ['f%d:%d/bad%d;s:%d/cut' % (d, fl['frames'], d, j) for j in (8, 16, 32, 64, 128, 256, 512)]
        plans += ['f%d:%d/bad%d;x:%d/cut' % (d, fl['frames'], d, j) for j in range(n + 1)]
    elif k in ('kill', 'stdin'):
        # the watcher polls the command log: the fault lands at or after the k-th command
        plans = ['x:%d/%s' % (j, k) for j in range(max(fl['k'] - 1, 0), n + 2)] + ['s:100000/' + k]
    out = []
    for sck in (0, 3, 63):
        for p in plans:
            out.append('R cap=%d sck=%d ops=%s eplan=%s plan=%s' % (cap, sck, ops, eplan, p))
    return out


def parse_answer(a):
    t = a.split()
    if not t or t[0] != 'M':
        raise ValueError('judge answered %r' % a)
    outs = []
    for o in t[1].split('=', 1)[1].split(';'):
        if o:
            b, d, n = o.split(':')
            outs.append((int(b), None if d == '-' else int(d), int(n)))
    return outs, t[2] == 'stuck=1'


# -------------------------------------------------------------------------------------------------
def gen(tier, clean):
    """scenarios of the family; clean = {side: {'cmds': [...], 'frames': {...}}} of fault-free runs"""
    thorough = tier == 'thorough'
    for side in ('dest', 'src'):
        cmds = clean[side]['cmds']
        n = len(cmds)
        fr = clean[side]['frames'] or {'b2d': n, 'd2b': n}
        for cap in CAPS:
            base = {'side': side, 'files': FILES, 'capacity': cap}
            yield dict(base, fault={'kind': 'none'})
            ks = range(1, n + 1) if (thorough or cap is not None) else range(1, n + 1, 3)
            for k in ks:
                yield dict(base, fault={'kind': 'kill', 'k': k})
                yield dict(base, fault={'kind': 'stdin', 'k': k})
            for d in ('b2d', 'd2b'):
                idx = range(fr[d] + 1) if (thorough or cap is not None) else range(0, fr[d] + 1, 3)
                for i in idx:
                    yield dict(base, fault={'kind': 'cut', 'dir': d, 'frames': i, 'of': fr[d]})
            nerr = len(FILES) if side == 'src' else 2
            for k in range(nerr + 1):
                yield dict(base, fault={'kind': 'err', 'k': k})
        for when in ('before', 'after'):
            for line in (1, 2):
                yield {'side': side, 'files': FILES, 'capacity': None, 'fault': {'kind': 'launch', 'when': when, 'line': line}}
        # the launch succeeds but the TCP connection to the announced port cannot be made (the doer sits in accept(), its stdin held by the boss)
        yield {'side': side, 'files': FILES, 'capacity': None, 'fault': {'kind': 'connect'}}
        # the doer's stdin ends before the key arrives
        yield {'side': side, 'files': FILES, 'capacity': None, 'fault': {'kind': 'nokey'}}


def work_done_before(obs, sc):
    """True when the doer's command log at the moment of the fault already holds everything but Shutdown (then a
    complete, correctly reported sync is a legitimate outcome)."""
    st = obs.get('status') or {}
    text = st.get('log_at_fault')
    if text is None:
        return None
    # The fault is delivered a moment AFTER the log was seen to reach the chosen length: the doer may have executed more commands in
    # between (false alarm seen once: SIGKILL 'after command k' landed after the final marker had been echoed - a complete, correctly
    # reported sync).  What counts is what the doer had executed when it really stopped: its command log as it is after the run.
    final = [l for l in (obs.get('cmd_lines') or []) if l.strip()]
    kinds = [cmd_kind(l) for l in text.splitlines() if l.strip()]
    if len(final) > len(kinds):
        kinds = [cmd_kind(l) for l in final]
    if 'Shutdown' in kinds:
        return True
    if sc['side'] == 'dest':
        return bool(kinds) and kinds[-1] == 'Marker' and kinds.count('Marker') >= 2
    # source doer: every file has been asked for (its answers may still be in flight: undecided)
    return None if kinds.count('GetFileContent') >= len(sc['files']) else False


def fault_surely_happened(sc, obs):
    """True / False / None (= cannot be decided from outside).  Decided from the fake ssh's record and the doer's
    command log, never from what the boss printed."""
    fl = sc['fault']
    k = fl['kind']
    st = obs.get('status') or {}
    if k == 'none':
        return False
    if k in ('launch', 'connect', 'nokey'):
        return True if st.get('launch_fault') else None
    if k == 'kill':
        if not st.get('killed'):
            return False
        w = work_done_before(obs, sc)
        return True if w is False else None
    if k == 'stdin':
        if not st.get('stdin_closed') or st.get('rc') != 65:
            return None if st.get('stdin_closed') else False
        # Closing the doer's stdin does not stop it at once: its watchdog THREAD notices the end of file and exits the process a
        # moment later, while the main thread keeps executing what is queued.  Whether the remaining commands (at least the final
        # marker) still complete - and the sync is then complete and correctly reported with status 0 - cannot be decided from
        # outside (false alarm seen once: stdin closed after the last file command, the marker echo still made it).
        return None
    if k == 'cut':
        cs = obs.get('cut_stats')
        if not cs or not cs.get('did_cut'):
            return False if cs else None
        return True if fl['frames'] <= fl.get('of', 0) - 3 else None
    if k == 'err':
        if sc['side'] == 'src':
            return True if fl['k'] < len(sc['files']) and obs['cmds'].count('GetFileContent') > fl['k'] else None
        mut = [c for c in obs['cmds'] if c in MUTATING]
        return True if (fl['k'] < len(mut) and mut[fl['k']] != 'CreateOrUpdateFile') else (False if fl['k'] >= len(mut) else None)
    return None


def oracle(sc, obs):
    """The property, judged on what the implementation did: hands control back within bounded time, with a non-zero
    status when a fault happened; never hangs."""
    if obs['timed_out']:
        return 'the run did not hand control back within the watchdog (%.0f s): hang' % obs['watchdog']
    if obs.get('orphan_doers'):
        return 'the boss returned (exit %s) but %d doer process(es) it had launched were still running 6 s later' % (obs['exit'], obs['orphan_doers'])
    if fault_surely_happened(sc, obs) is True and obs['exit'] == 0:
        return 'a fault happened (%s) but the exit status is 0' % sc['fault']['kind']
    return None


def correspond(sc, obs, answers):
    """None, or a description of the difference between the implementation and what the model admits."""
    if not answers:
        return None
    outs, stuck = set(), False
    for a in answers:
        o, s = parse_answer(a)
        outs.update(o)
        stuck = stuck or s
    if stuck:
        return 'the model has a stuck run on this fault plan'
    if obs['timed_out']:
        return 'implementation hung, the model always terminates'
    cls = lambda e: 0 if e == 0 else 1
    if cls(obs['exit']) not in set(cls(b) for b, _, _ in outs):
        return 'boss exit class %d not among the model\'s %s' % (cls(obs['exit']), sorted(set(b for b, _, _ in outs)))
    ds = doer_status(obs)
    if ds is not None and ds not in set(d for _, d, _ in outs):
        return 'doer exit status %r not among the model\'s %s' % (ds, sorted(set(str(d) for _, d, _ in outs)))
    nexec = len([c for c in obs['cmds'] if c != 'Shutdown'])
    ns = [n for _, _, n in outs]
    if not (min(ns) <= nexec <= max(ns)):
        return 'the doer executed %d commands, the model admits %d..%d' % (nexec, min(ns), max(ns))
    return None


def fresh(tmp, prefix):
    base = tempfile.mkdtemp(prefix=prefix, dir=tmp)
    shutil.rmtree(base)
    os.makedirs(base)
    return base


def clean_runs(binary, tmp):
    out = {}
    for side in ('dest', 'src'):
        base = fresh(tmp, 'rclean_')
        o = run_real(binary, {'side': side, 'files': FILES, 'capacity': None, 'fault': {'kind': 'none'}}, base)
        shutil.rmtree(base, ignore_errors=True)
        base = fresh(tmp, 'rclean_')
        o2 = run_real(binary, {'side': side, 'files': FILES, 'capacity': None,
                               'fault': {'kind': 'cut', 'dir': 'b2d', 'frames': 10 ** 9}}, base)
        shutil.rmtree(base, ignore_errors=True)
        out[side] = {'cmds': o['cmds'], 'lines': o['cmd_lines'], 'frames': (o2.get('cut_stats') or {}).get('frames'), 'exit': o['exit'],
                     'status': doer_status(o)}
    return out


def family(run, binary, jbin, tmp, only=None, workers=6):
    """Runs the family; returns the number of property failures."""
    import concurrent.futures as cf
    import vlib
    t0 = time.time()
    clean = clean_runs(binary, tmp)
    run.extra['remote_clean'] = {s: {'cmds': len(v['cmds']), 'frames': v['frames'], 'exit': v['exit'], 'doer': v['status']} for s, v in clean.items()}
    for side, v in clean.items():
        if v['exit'] != 0 or not v['cmds'] or v['cmds'][-1] != 'Shutdown':
            run.broke('correspondence', 'remote-session', 'fault-free run with a remote %s doer: exit %r, commands %r' % (side, v['exit'], v['cmds'][-3:]))
            return 0
        # the protocol reconstruction is checked against the frames the proxy counted: one frame per command
        # (Shutdown included) boss -> doer, one per response plus the final message doer -> boss
        ops, kinds = model_ops({'side': side, 'files': FILES}, v['lines'])
        nresp = sum(int(o.split(':')[1]) for o in ops.split(',') if o.startswith('S'))
        if v['frames'] and (v['frames']['b2d'] != len(v['cmds']) or v['frames']['d2b'] != nresp + 1):
            run.broke('correspondence', 'remote-session', 'remote %s doer: %d commands / %d frames boss->doer, %d responses + final / %d frames doer->boss'
                      % (side, len(v['cmds']), v['frames']['b2d'], nresp, v['frames']['d2b']))
            return 0
    scs = [only] if only is not None else list(gen(run.tier, clean))
    lines, spans = [], []
    for sc in scs:
        ls = model_lines(sc, clean[sc['side']]['lines'])
        spans.append((len(lines), len(lines) + len(ls)))
        lines.extend(ls)
    answers = vlib.judge(jbin, lines) if lines else []
    nfail = 0

    def void(sc, obs):
        # the launch itself did not come about (status 10 / 11 with not a single command logged, no fault of ours delivered): the machine was
        # too busy for the fake ssh or the connection - the scenario did not take place
        return (sc['fault']['kind'] not in ('launch', 'connect', 'nokey') and obs['exit'] in (10, 11) and not obs['cmds'] and not obs['timed_out']
                and not (obs.get('status') or {}).get('killed') and not (obs.get('status') or {}).get('stdin_closed'))

    def one(sc):
        for attempt in range(3):
            base = fresh(tmp, 'r_')
            try:
                obs = run_real(binary, sc, base)
            finally:
                shutil.rmtree(base, ignore_errors=True)
            if not void(sc, obs):
                return obs
            time.sleep(0.5)
        obs['void'] = True
        return obs

    with cf.ThreadPoolExecutor(max_workers=workers) as ex:
        futs = {ex.submit(one, sc): i for i, sc in enumerate(scs)}
        for f in cf.as_completed(futs):
            i = futs[f]
            sc, obs = scs[i], f.result()
            a, b = spans[i]
            fl = sc['fault']
            if obs.get('void'):
                run.count('remote:launch-did-not-come-about(skipped)')
                continue
            run.count('remote:fault:' + fl['kind'])
            run.count('remote:side:' + sc['side'])
            run.count('remote:doer_status:' + str(doer_status(obs)))
            run.count('remote:exit:' + ('timeout' if obs['timed_out'] else str(obs['exit'])))
            canon = json.dumps(sc, sort_keys=True)
            run.case('remote ' + canon, fl['kind'] != 'none',
                     sample={'scenario': sc, 'exit': obs['exit'], 'doer': doer_status(obs), 'cmds': len(obs['cmds'])})
            run.traces_validated += 1
            bad = oracle(sc, obs)
            if bad:
                nfail += 1
                run.fail('C09 oracle (remote session): ' + bad, {'scenario': sc, 'remote_family': True, 'observation': obs})
            diff = correspond(sc, obs, answers[a:b])
            if diff:
                run.broke('correspondence', 'remote-session', json.dumps({'scenario': sc, 'difference': diff, 'impl': {
                    'exit': obs['exit'], 'doer': doer_status(obs), 'cmds': obs['cmds']}, 'model': sorted(set(answers[a:b]))[:6]})[:1800])
    run.extra['remote_family_wall_s'] = round(time.time() - t0, 1)
    run.extra['remote_family_runs'] = len(scs)
    run.extra['remote_model_requests'] = len(lines)
    return nfail
