#!/usr/bin/env python3
"""rs2coq.py - a translator from a small subset of Rust to Gallina, run on every check.

It reads the SOURCE TEXT of /repo/src/boss_sync.rs as it is now, takes the four functions that decide what a sync
deletes and copies

    needs_delete, needs_copy                 (pure decision functions over two EntryDetails)
    process_src_entry, process_dest_entry    (the incremental planner steps over four OrderedMaps)

and writes coq/theories/Gen/FactsTransPlan.v: one Gallina function per Rust function, in the shape of the source
(same matches, same ifs, same order of map operations).  Proofs/TransPlanEq.v then proves these generated
functions EQUAL to the hand-written model (Model/Core.v needs_delete / needs_copy, Base/OrderedPlan.v process_src /
process_dest) for all arguments.  An edit to those functions therefore changes the Gallina the equalities are checked
against: a behaviour-preserving edit inside the subset keeps them provable, a behaviour-changing one breaks them.

The subset (anything else raises NotInSubset, and the caller falls back to the differential tie alone):
  items       fn name(params) [-> T] { block }
  statements  let [mut] x = e;   e;   x.method(args);   ctx.stats... (ignored: statistics only)   trace!/debug!(..);
              match / if / if let as statements
  expressions match e { pat [| pat] => e, .. }   if c { } [else if ..] [else { }]   if let PAT = e { } else { }
              paths A::B, calls Some(e) / f(args) of a translated function, tuples (a, b), method calls
              .clone() .cmp(&e) .lookup(&k) .add(k, v) .update(&k, v) .remove(&k), field access ctx.f,
              == != && || !, & and &mut (dropped), true false, panic!(..)
  patterns    _   x   A::B   A::B { f, g: pat, .. }   A::B(pat, ..)   &pat

Translation scheme.  Every Rust function becomes a Gallina function returning `tres T` (TVal v | TPanic).  The body is
translated in continuation-passing style so that a `let x = match .. { .. => panic!() }` or an `update` of a missing
key (a panic in ordered_map.rs) short-circuits to TPanic.  `&mut` parameters are threaded: the function returns the
tuple of the final values of its `&mut` parameters (in parameter order); a statement `m.add(k, v);` becomes
`let m := t_add k v m in ...`.  A `&SyncContext` parameter is replaced by one parameter per field that is read
(`ctx.files_same_time_behaviour` -> ctx_files_same_time_behaviour); `ctx.stats` is write-only and dropped.
"""
import re, sys, os


class NotInSubset(Exception):
    pass


# ------------------------------------------------------------------------------------------------ configuration
# Rust enum variant -> (Gallina constructor, field names in constructor order, type name)
CTORS = {
    'EntryDetails::File': ('EFile', ['modified_time', 'size'], 'entry'),
    'EntryDetails::Folder': ('EFolder', [], 'entry'),
    'EntryDetails::Symlink': ('ESymlink', ['kind', 'target'], 'entry'),
    'Ordering::Equal': ('Eq', [], 'comparison'),
    'Ordering::Less': ('Lt', [], 'comparison'),
    'Ordering::Greater': ('Gt', [], 'comparison'),
    'CopyReason::NotOnDest': ('NotOnDest', [], 'creason'),
    'CopyReason::DestNewer': ('DestNewer', [], 'creason'),
    'CopyReason::DestOlder': ('DestOlder', [], 'creason'),
    'CopyReason::SameTimeAndNotSkipped': ('SameTime', [], 'creason'),
    'DeleteReason::NotOnSource': ('NotOnSource', [], 'dreason'),
    'DeleteReason::Incompatible': ('Incompatible', [], 'dreason'),
    'DestFileUpdateBehaviour::Prompt': ('BPrompt', [], 'beh'),
    'DestFileUpdateBehaviour::Error': ('BError', [], 'beh'),
    'DestFileUpdateBehaviour::Skip': ('BSkip', [], 'beh'),
    'DestFileUpdateBehaviour::Overwrite': ('BAct', [], 'beh'),
    'SymlinkKind::File': ('SKFile', [], 'skind'),
    'SymlinkKind::Folder': ('SKFolder', [], 'skind'),
    'SymlinkKind::Unknown': ('SKUnknown', [], 'skind'),
    'Some': ('Some', ['0'], 'option'),
    'None': ('None', [], 'option'),
}
FIELD_TYPES = {'modified_time': 'time', 'size': 'size', 'kind': 'skind', 'target': 'target'}
CTX_FIELD_TYPES = {'files_same_time_behaviour': 'beh', 'dest_file_newer_behaviour': 'beh', 'dest_file_older_behaviour': 'beh'}
EQ = {'str': 'str_eqb', 'target': 'target_eqb', 'skind': 'skind_eqb', 'beh': 'beh_eqb', 'time': 'time_eqb', 'size': 'size_eqb', 'bool': 'Bool.eqb'}
CMP = {'time': 'time_cmp'}
COQ_TYPE = {'str': 'str', 'entry': 'entry', 'bool': 'bool', 'beh': 'beh', 'path': 'path', 'creason': 'creason', 'dreason': 'dreason',
            'map_entry': 'tmap entry', 'map_del': 'tmap (entry * dreason)', 'map_copy': 'tmap (entry * creason)',
            'option_creason': 'option creason', 'unit': 'unit'}
# Rust parameter type text (whitespace removed, & / &mut / lifetimes dropped) -> type name
PARAM_TYPES = {'EntryDetails': 'entry', 'bool': 'bool', 'RootRelativePath': 'path', 'EntriesList': 'map_entry',
               'ToDelete': 'map_del', 'ToCopy': 'map_copy', 'SyncContext': 'ctx'}
RET_TYPES = {'bool': 'bool', 'Option<CopyReason>': 'option_creason', '': 'unit'}
MAP_VALUE_TYPES = {'map_entry': 'entry', 'map_del': 'pair_del', 'map_copy': 'pair_copy'}
IGNORED_MACROS = {'trace', 'debug', 'info', 'profile_this'}
FUNCTIONS = ['needs_delete', 'needs_copy', 'process_src_entry', 'process_dest_entry']


# ------------------------------------------------------------------------------------------------ lexer
def strip_comments(src):
    out, i, n = [], 0, len(src)
    while i < n:
        c = src[i]
        if src.startswith('//', i):
            j = src.find('\n', i)
            i = n if j < 0 else j
        elif src.startswith('/*', i):
            j = src.find('*/', i + 2)
            i = n if j < 0 else j + 2
        elif c == '"':
            j = i + 1
            while j < n and src[j] != '"':
                j += 2 if src[j] == '\\' else 1
            out.append(src[i:j + 1])
            i = j + 1
        else:
            out.append(c)
            i += 1
    return ''.join(out)


TOKEN = re.compile(r'''\s*(?:(?P<chr>'(?:\\.|[^'\\])')|(?P<str>"(?:\\.|[^"\\])*")|(?P<num>\d[\d_]*)|(?P<id>[A-Za-z_][A-Za-z0-9_]*)|(?P<op>::|=>|==|!=|&&|\|\||\.\.|->|\+=|-=|[{}()\[\],;:&!|.=<>_+\-*'#?]))''')


def lex(text):
    toks, i = [], 0
    text = text.rstrip()
    while i < len(text):
        m = TOKEN.match(text, i)
        if not m or m.end() == i:
            if text[i:].strip() == '':
                break
            raise NotInSubset('cannot tokenize near %r' % text[i:i + 30])
        i = m.end()
        if m.group('chr') is not None:
            toks.append(('chr', m.group('chr')))
        elif m.group('str') is not None:
            toks.append(('str', m.group('str')))
        elif m.group('num') is not None:
            toks.append(('num', m.group('num')))
        elif m.group('id') is not None:
            toks.append(('id', m.group('id')))
        else:
            toks.append(('op', m.group('op')))
    return toks


def find_fn(src, name):
    """(params_text, ret_text, body_text) of `fn name` in comment-stripped source."""
    m = re.search(r'\bfn\s+%s\s*(<[^>]*>)?\s*\(' % re.escape(name), src)
    if not m:
        raise NotInSubset('fn %s not found' % name)
    i = m.end()
    depth, j = 1, i
    while depth:
        depth += {'(': 1, ')': -1}.get(src[j], 0)
        j += 1
    params = src[i:j - 1]
    k = src.index('{', j)
    ret = src[j:k].strip()
    ret = ret[2:].strip() if ret.startswith('->') else ''
    depth, e = 1, k + 1
    while depth:
        depth += {'{': 1, '}': -1}.get(src[e], 0)
        e += 1
    return params, ret, src[k:e]


# ------------------------------------------------------------------------------------------------ parser
class P:
    def __init__(self, toks):
        self.t, self.i = toks, 0

    def peek(self, k=0):
        return self.t[self.i + k] if self.i + k < len(self.t) else ('eof', '')

    def at(self, v, k=0):
        return self.peek(k)[1] == v and self.peek(k)[0] in ('op', 'id')

    def eat(self, v):
        if not self.at(v):
            raise NotInSubset('expected %r, found %r' % (v, self.peek()))
        self.i += 1

    def ident(self):
        k, v = self.peek()
        if k != 'id':
            raise NotInSubset('identifier expected, found %r' % (self.peek(),))
        self.i += 1
        return v

    def skip_balanced(self, o, c):
        self.eat(o)
        d = 1
        while d:
            k, v = self.peek()
            if k == 'eof':
                raise NotInSubset('unbalanced')
            if k == 'op' and v == o:
                d += 1
            if k == 'op' and v == c:
                d -= 1
            self.i += 1

    # ---- patterns
    def pattern(self):
        if self.at('&'):
            self.i += 1
            if self.at('mut'):
                self.i += 1
            return self.pattern()
        if self.at('_'):
            self.i += 1
            return ('pwild',)
        path = [self.ident()]
        while self.at('::'):
            self.i += 1
            path.append(self.ident())
        name = '::'.join(path)
        if self.at('{'):
            self.i += 1
            fields, rest = [], False
            while not self.at('}'):
                if self.at('..'):
                    self.i += 1
                    rest = True
                else:
                    f = self.ident()
                    if self.at(':'):
                        self.i += 1
                        fields.append((f, self.pattern()))
                    else:
                        fields.append((f, ('pvar', f)))
                if self.at(','):
                    self.i += 1
            self.eat('}')
            return ('pstruct', name, fields, rest)
        if self.at('('):
            self.i += 1
            ps = []
            while not self.at(')'):
                ps.append(self.pattern())
                if self.at(','):
                    self.i += 1
            self.eat(')')
            return ('ptuple', name, ps)
        if len(path) == 1 and name not in CTORS:
            return ('pvar', name)
        return ('ppath', name)

    # ---- expressions
    def expr(self):
        return self.binary(0)

    LEVELS = [['||'], ['&&'], ['==', '!=']]

    def binary(self, lvl):
        if lvl == len(self.LEVELS):
            return self.unary()
        l = self.binary(lvl + 1)
        while self.peek()[0] == 'op' and self.peek()[1] in self.LEVELS[lvl]:
            op = self.peek()[1]
            self.i += 1
            r = self.binary(lvl + 1)
            l = ('bin', op, l, r)
        return l

    def unary(self):
        if self.at('!'):
            self.i += 1
            return ('not', self.unary())
        if self.at('&'):
            self.i += 1
            if self.at('mut'):
                self.i += 1
            return self.unary()
        if self.at('*'):
            self.i += 1
            return self.unary()
        return self.postfix(self.atom())

    def postfix(self, e):
        while self.at('.') or self.at('['):
            if self.at('['):
                self.i += 1
                start = self.expr()
                self.eat('..')
                self.eat(']')
                e = ('slice_from', e, start)        # e[start..]
                continue
            self.i += 1
            name = self.ident()
            if self.at('('):
                e = ('method', e, name, self.args())
            else:
                e = ('field', e, name)
        return e

    def args(self):
        self.eat('(')
        a = []
        while not self.at(')'):
            a.append(self.expr())
            if self.at(','):
                self.i += 1
        self.eat(')')
        return a

    def atom(self):
        k, v = self.peek()
        if k == 'id' and v == 'match':
            return self.match()
        if k == 'id' and v == 'if':
            return self.if_()
        if k == 'op' and v == '{':
            return self.block()
        if k == 'op' and v == '(':
            self.i += 1
            es = []
            while not self.at(')'):
                es.append(self.expr())
                if self.at(','):
                    self.i += 1
            self.eat(')')
            return es[0] if len(es) == 1 else ('tuple', es)
        if k == 'id' and v in ('true', 'false'):
            self.i += 1
            return ('lit', v)
        if k in ('num', 'str'):
            self.i += 1
            return ('const', v)
        if k == 'chr':
            self.i += 1
            return ('char', v)
        if k == 'id':
            path = [self.ident()]
            if self.at('!'):                                   # macro
                self.i += 1
                if self.at('('):
                    self.skip_balanced('(', ')')
                elif self.at('['):
                    self.skip_balanced('[', ']')
                else:
                    self.skip_balanced('{', '}')
                return ('macro', path[0])
            while self.at('::'):
                self.i += 1
                path.append(self.ident())
            name = '::'.join(path)
            if self.at('('):
                return ('call', name, self.args())
            if len(path) == 1 and name not in CTORS:
                return ('var', name)
            return ('path', name)
        raise NotInSubset('unexpected token %r' % (self.peek(),))

    def match(self):
        self.eat('match')
        scrut = self.expr()
        self.eat('{')
        arms = []
        while not self.at('}'):
            pats = [self.pattern()]
            while self.at('|'):
                self.i += 1
                pats.append(self.pattern())
            if self.at('if'):
                raise NotInSubset('match guards')
            self.eat('=>')
            body = self.expr_or_assign()
            if self.at(','):
                self.i += 1
            arms.append((pats, body))
        self.eat('}')
        return ('match', scrut, arms)

    def if_(self):
        self.eat('if')
        if self.at('let'):
            self.i += 1
            pat = self.pattern()
            self.eat('=')
            scrut = self.expr()
            then = self.block()
            els = ('block', [], None)
            if self.at('else'):
                self.i += 1
                els = self.if_() if self.at('if') else self.block()
            return ('match', scrut, [([pat], then), ([('pwild',)], els)])
        c = self.expr()
        then = self.block()
        els = ('block', [], None)
        if self.at('else'):
            self.i += 1
            els = self.if_() if self.at('if') else self.block()
        return ('if', c, then, els)

    def expr_or_assign(self):
        e = self.expr()
        if self.peek()[0] == 'op' and self.peek()[1] in ('=', '+=', '-='):
            self.i += 1
            r = self.expr()
            return ('assign', e, r)
        return e

    def block(self):
        self.eat('{')
        stmts, final = [], None
        while not self.at('}'):
            if self.at('let'):
                self.i += 1
                if self.at('mut'):
                    self.i += 1
                pat = self.pattern()
                if self.at(':'):
                    raise NotInSubset('typed let')
                self.eat('=')
                init = self.expr()
                self.eat(';')
                stmts.append(('let', pat, init))
                continue
            e = self.expr_or_assign()
            if self.at(';'):
                self.i += 1
                stmts.append(('expr', e))
            elif self.at('}'):
                final = e
            elif e[0] in ('match', 'if', 'block'):
                stmts.append(('expr', e))
            else:
                raise NotInSubset('statement not terminated: %r' % (self.peek(),))
        self.eat('}')
        return ('block', stmts, final)


# ------------------------------------------------------------------------------------------------ translation
def root_of(e):
    while e[0] in ('field', 'method'):
        e = e[1]
    return e


def is_stats(e):
    """an expression rooted at ctx.stats (statistics: write-only, never read by the planner)"""
    chain = []
    while e[0] in ('field', 'method'):
        chain.append(e[2])
        e = e[1]
    return e == ('var', 'ctx') and chain and chain[-1] == 'stats'


def ignorable(e):
    k = e[0]
    if k == 'macro':
        return e[1] in IGNORED_MACROS
    if k == 'assign':
        return is_stats(e[1])
    if k == 'method':
        return is_stats(e)
    if k == 'block':
        return all(ignorable(s[1] if s[0] == 'expr' else ('no',)) for s in e[1]) and (e[2] is None or ignorable(e[2]))
    if k == 'match':
        return all(ignorable(b) for _, b in e[2])
    if k == 'if':
        return ignorable(e[2]) and ignorable(e[3])
    return False


class Fn:
    def __init__(self, name, params, ret, body):
        self.name, self.params, self.ret, self.body = name, params, ret, body
        self.ctx_fields = []          # ctx fields read, in order of first use
        self.muts = [p for p, t, m in params if m]


class Translator:
    def __init__(self, fns):
        self.fns = fns               # name -> Fn (already parsed)
        self.fresh = 0

    def gensym(self, base='v'):
        self.fresh += 1
        return '%s%d' % (base, self.fresh)

    # ---- types of pure expressions (only what == / != / cmp need)
    def typeof(self, e, env):
        k = e[0]
        if k == 'var':
            return env.get(e[1])
        if k == 'field' and e[1] == ('var', 'ctx'):
            return CTX_FIELD_TYPES.get(e[2])
        if k == 'field' and e[1][0] == 'var' and env.get(e[1][1]) == 'rrp' and e[2] == 'inner':
            return 'str'
        if k == 'slice_from':
            return self.typeof(e[1], env)
        if k == 'path':
            return CTORS[e[1]][2] if e[1] in CTORS else None
        if k == 'lit':
            return 'bool'
        if k == 'method' and e[2] == 'clone':
            return self.typeof(e[1], env)
        return None

    # ---- pure expressions
    def pure(self, e, env, fn):
        k = e[0]
        if k == 'lit':
            return e[1]
        if k == 'var':
            if e[1] not in env:
                raise NotInSubset('unknown variable %s in %s' % (e[1], fn.name))
            return e[1]
        if k == 'path':
            if e[1] not in CTORS:
                raise NotInSubset('unknown path %s' % e[1])
            return CTORS[e[1]][0]
        if k == 'tuple':
            return '(' + ', '.join(self.pure(x, env, fn) for x in e[1]) + ')'
        if k == 'call':
            if e[1] in CTORS:
                return '(%s %s)' % (CTORS[e[1]][0], ' '.join(self.pure(a, env, fn) for a in e[2]))
            raise NotInSubset('call of %s in a pure position' % e[1])
        if k == 'field':
            if e[1] == ('var', 'ctx'):
                if e[2] not in CTX_FIELD_TYPES:
                    raise NotInSubset('ctx field %s' % e[2])
                if e[2] not in fn.ctx_fields:
                    fn.ctx_fields.append(e[2])
                return 'ctx_' + e[2]
            if e[1][0] == 'var' and env.get(e[1][1]) == 'rrp' and e[2] == 'inner':
                return e[1][1] + '_inner'
            raise NotInSubset('field access %s' % e[2])
        if k == 'char':
            c = e[1][1:-1]
            if len(c) != 1 or c in '"\\':
                raise NotInSubset('character literal %s' % e[1])
            return '"%s"%%char' % c
        if k == 'method':
            recv, name, args = e[1], e[2], e[3]
            if name == 'is_root' and not args and recv[0] == 'var' and env.get(recv[1]) == 'rrp':
                return '(str_is_empty %s_inner)' % recv[1]
            if name == 'is_empty' and not args and self.typeof(recv, env) == 'str':
                return '(str_is_empty %s)' % self.pure(recv, env, fn)
            if name == 'len' and not args and self.typeof(recv, env) == 'str':
                return '(str_len %s)' % self.pure(recv, env, fn)
            if name == 'starts_with' and len(args) == 1 and self.typeof(recv, env) == 'str':
                if args[0][0] == 'char':
                    return '(str_starts_with_char %s %s)' % (self.pure(args[0], env, fn), self.pure(recv, env, fn))
                if self.typeof(args[0], env) == 'str':
                    return '(str_starts_with %s %s)' % (self.pure(args[0], env, fn), self.pure(recv, env, fn))
            if name == 'clone' and not args:
                return self.pure(recv, env, fn)
            if name == 'cmp' and len(args) == 1:
                t = self.typeof(recv, env) or self.typeof(args[0], env)
                if t not in CMP:
                    raise NotInSubset('cmp on type %s' % t)
                return '(%s %s %s)' % (CMP[t], self.pure(recv, env, fn), self.pure(args[0], env, fn))
            if name == 'lookup' and len(args) == 1:
                return '(t_lookup %s %s)' % (self.pure(args[0], env, fn), self.pure(recv, env, fn))
            raise NotInSubset('method %s in a pure position' % name)
        if k == 'bin':
            op, l, r = e[1], e[2], e[3]
            if op in ('&&', '||'):
                return '(%s %s %s)' % ('andb' if op == '&&' else 'orb', self.pure(l, env, fn), self.pure(r, env, fn))
            t = self.typeof(l, env) or self.typeof(r, env)
            if t not in EQ:
                raise NotInSubset('== / != on type %s' % t)
            s = '(%s %s %s)' % (EQ[t], self.pure(l, env, fn), self.pure(r, env, fn))
            return s if op == '==' else '(negb %s)' % s
        if k == 'not':
            return '(negb %s)' % self.pure(e[1], env, fn)
        raise NotInSubset('expression form %s in a pure position' % k)

    def has_call(self, e):
        if e[0] == 'call' and e[1] in self.fns:
            return True
        return False

    def may_panic(self, e):
        """the expression contains a construct that can panic (a slice, a call of a translated function, panic!) and so needs the CPS path"""
        if not isinstance(e, tuple):
            return False
        if e[0] == 'slice_from' or (e[0] == 'macro' and e[1] in ('panic', 'unreachable')) or self.has_call(e):
            return True
        return any(self.may_panic(x) for x in e[1:] if isinstance(x, tuple)) or \
            any(self.may_panic(y) for x in e[1:] if isinstance(x, list) for y in x if isinstance(y, tuple))

    # ---- a value with possible effects (a call of a translated function), bound for the continuation
    def value(self, e, env, fn, k):
        """k(term, env) -> text"""
        if self.has_call(e):
            callee = self.fns[e[1]]
            args = []
            for (pname, ptype, pmut), a in zip(callee.params, e[2]):
                if ptype == 'ctx':
                    for f in callee.ctx_fields:
                        if f not in fn.ctx_fields:
                            fn.ctx_fields.append(f)
                        args.append('ctx_' + f)
                else:
                    args.append(self.pure(a, env, fn))
            if callee.muts:
                raise NotInSubset('call of %s (which has &mut parameters) as a value' % e[1])
            v = self.gensym('r')
            return 'match T_%s %s with TPanic => TPanic | TVal %s => %s end' % (e[1], ' '.join(args), v, k(v, dict(env, **{v: RET_TYPES.get(callee.ret)})))
        if e[0] in ('match', 'if', 'block'):
            return self.tr(e, env, fn, k)
        if e[0] == 'bin' and e[1] in ('&&', '||') and (self.may_panic(e[2]) or self.may_panic(e[3])):
            # short-circuit evaluation: the right operand is only evaluated (and can only panic) when the left one does not decide
            if e[1] == '&&':
                return self.value(e[2], env, fn, lambda a, env2: '(if %s then %s else %s)' % (a, self.value(e[3], env2, fn, k), k('false', env2)))
            return self.value(e[2], env, fn, lambda a, env2: '(if %s then %s else %s)' % (a, k('true', env2), self.value(e[3], env2, fn, k)))
        if e[0] == 'slice_from':
            # s[n..] panics when n is beyond the end or not on a character boundary
            v = self.gensym('s')
            return self.value(e[2], env, fn, lambda n, env2: self.value(e[1], env2, fn, lambda sv, env3:
                '(match str_skip %s %s with None => TPanic | Some %s => %s end)' % (n, sv, v, k(v, dict(env3, **{v: 'str'})))))
        if e[0] == 'method' and self.may_panic(e[1]) and e[2] == 'starts_with' and len(e[3]) == 1 and e[3][0][0] == 'char':
            return self.value(e[1], env, fn, lambda r, env2: k('(str_starts_with_char %s %s)' % (self.pure(e[3][0], env2, fn), r), env2))
        if e[0] == 'macro':
            if e[1] == 'panic' or e[1] == 'unreachable':
                return 'TPanic'
            raise NotInSubset('macro %s! as a value' % e[1])
        return k(self.pure(e, env, fn), env)

    # ---- patterns
    def pat(self, p, env, scrut_type):
        """-> (coq pattern text, env additions)"""
        k = p[0]
        if k == 'pwild':
            return '_', {}
        if k == 'pvar':
            return p[1], {p[1]: scrut_type}
        if k == 'ppath':
            if p[1] not in CTORS:
                raise NotInSubset('unknown pattern path %s' % p[1])
            c, fields, _ = CTORS[p[1]]
            return (c if not fields else '(%s %s)' % (c, ' '.join('_' for _ in fields))), {}
        if k == 'pstruct':
            if p[1] not in CTORS:
                raise NotInSubset('unknown struct pattern %s' % p[1])
            c, fields, _ = CTORS[p[1]]
            given = dict(p[2])
            for f in given:
                if f not in fields:
                    raise NotInSubset('unknown field %s of %s' % (f, p[1]))
            if not p[3] and set(given) != set(fields):
                raise NotInSubset('struct pattern without .. must name all fields')
            parts, add = [], {}
            for f in fields:
                if f in given:
                    s, a = self.pat(given[f], env, FIELD_TYPES.get(f))
                    parts.append(s)
                    add.update(a)
                else:
                    parts.append('_')
            return ('(%s %s)' % (c, ' '.join(parts)) if fields else c), add
        if k == 'ptuple':
            if p[1] not in CTORS:
                raise NotInSubset('unknown tuple pattern %s' % p[1])
            c = CTORS[p[1]][0]
            inner = None
            if p[1] == 'Some' and scrut_type and scrut_type.startswith('option_'):
                inner = scrut_type[len('option_'):]
            parts, add = [], {}
            for q in p[2]:
                s, a = self.pat(q, env, inner)
                parts.append(s)
                add.update(a)
            return '(%s %s)' % (c, ' '.join(parts)), add
        raise NotInSubset('pattern form %s' % k)

    def scrut_type(self, e, env):
        if e[0] == 'method' and e[2] == 'lookup':
            mt = self.typeof(e[1], env)
            return 'option_' + MAP_VALUE_TYPES.get(mt, '?')
        if e[0] == 'method' and e[2] == 'cmp':
            return 'comparison'
        return self.typeof(e, env)

    # ---- general expressions / statements in CPS
    def tr(self, e, env, fn, k):
        kind = e[0]
        if kind == 'block':
            return self.stmts(list(e[1]), e[2], env, fn, k)
        if kind == 'if':
            return self.value(e[1], env, fn, lambda c, env2:
                              '(if %s then %s else %s)' % (c, self.tr(e[2], env2, fn, k), self.tr(e[3], env2, fn, k)))
        if kind == 'match':
            st = self.scrut_type(e[1], env)

            def arms(s, env2, st=st):
                if self.has_call(e[1]):
                    callee = self.fns[e[1][1]]
                    st2 = RET_TYPES.get(callee.ret)
                else:
                    st2 = st
                out = []
                for pats, body in e[2]:
                    texts, add = [], {}
                    for p in pats:
                        t, a = self.pat(p, env2, st2)
                        texts.append(t)
                        add.update(a)
                    out.append('| %s => %s' % (' | '.join(texts), self.tr(body, dict(env2, **add), fn, k)))
                return '(match %s with %s end)' % (s, ' '.join(out))
            return self.value(e[1], env, fn, arms)
        if kind == 'macro':
            if e[1] in ('panic', 'unreachable'):
                return 'TPanic'
            if e[1] in IGNORED_MACROS:
                return k('tt', env)
            raise NotInSubset('macro %s!' % e[1])
        if kind == 'assign':
            if is_stats(e[1]):
                return k('tt', env)
            raise NotInSubset('assignment to something other than ctx.stats')
        if kind == 'method' and e[2] in ('add', 'update', 'remove') and root_of(e) == e[1] and e[1][0] == 'var':
            m = e[1][1]
            if m not in fn.muts:
                raise NotInSubset('%s.%s on something that is not a &mut parameter' % (m, e[2]))
            a = [self.pure(x, env, fn) for x in e[3]]
            if e[2] == 'add' and len(a) == 2:
                return '(let %s := t_add %s %s %s in %s)' % (m, a[0], a[1], m, k('tt', env))
            if e[2] == 'remove' and len(a) == 1:
                return '(let %s := t_remove %s %s in %s)' % (m, a[0], m, k('tt', env))
            if e[2] == 'update' and len(a) == 2:
                return '(match t_update %s %s %s with None => TPanic | Some %s => %s end)' % (a[0], a[1], m, m, k('tt', env))
            raise NotInSubset('arity of %s.%s' % (m, e[2]))
        if kind == 'method' and is_stats(e):
            return k('tt', env)
        return self.value(e, env, fn, k)

    def stmts(self, stmts, final, env, fn, k):
        if not stmts:
            if final is None:
                return k('tt', env)
            return self.tr(final, env, fn, k)
        s, rest = stmts[0], stmts[1:]
        if s[0] == 'let':
            if s[1][0] == 'pvar':
                x = s[1][1]
                t = self.scrut_type(s[2], env)
                if s[2][0] == 'match':          # the type of `let x = match .. { File { modified_time, .. } => modified_time, .. }`
                    t = None
                    for pats, body in s[2][2]:
                        if body[0] == 'var':
                            for p in pats:
                                if p[0] == 'pstruct':
                                    for f, q in p[2]:
                                        if q == ('pvar', body[1]):
                                            t = FIELD_TYPES.get(f)
                return self.value(s[2], env, fn, lambda v, env2: '(let %s := %s in %s)' % (x, v, self.stmts(rest, final, dict(env2, **{x: t}), fn, k)))
            if s[1][0] == 'pwild':
                return self.value(s[2], env, fn, lambda v, env2: self.stmts(rest, final, env2, fn, k))
            raise NotInSubset('let with a destructuring pattern')
        e = s[1]
        if ignorable(e):
            return self.stmts(rest, final, env, fn, k)
        return self.tr(e, env, fn, lambda _v, env2: self.stmts(rest, final, env2, fn, k))

    def function(self, fn):
        env = {}
        for pname, ptype, pmut in fn.params:
            if ptype != 'ctx':
                env[pname] = ptype
        ret_t = RET_TYPES.get(fn.ret)
        if ret_t is None:
            raise NotInSubset('return type %s of %s' % (fn.ret, fn.name))
        if fn.muts:
            if ret_t != 'unit':
                raise NotInSubset('&mut parameters and a return value')
            k = lambda _v, env2: 'TVal (%s)' % ', '.join(fn.muts)
            coq_ret = ' * '.join('(%s)' % COQ_TYPE[t] for p, t, m in fn.params if m)
        else:
            k = lambda v, env2: 'TVal %s' % v
            coq_ret = COQ_TYPE[ret_t]
        body = self.tr(fn.body, env, fn, k)
        params = []
        for pname, ptype, pmut in fn.params:
            if ptype == 'ctx':
                for f in fn.ctx_fields:
                    params.append('(ctx_%s : %s)' % (f, COQ_TYPE[CTX_FIELD_TYPES[f]]))
            elif ptype == 'rrp':
                params.append('(%s_inner : str)' % pname)
            else:
                params.append('(%s : %s)' % (pname, COQ_TYPE[ptype]))
        return 'Definition T_%s %s : tres (%s) :=\n  %s.' % (fn.name, ' '.join(params), coq_ret, body)


def parse_params(text, param_types=None, self_type=None):
    param_types = param_types or PARAM_TYPES
    out = []
    depth, cur, parts = 0, '', []
    for ch in text:
        if ch in '<([':
            depth += 1
        if ch in '>)]':
            depth -= 1
        if ch == ',' and depth == 0:
            parts.append(cur)
            cur = ''
        else:
            cur += ch
    if cur.strip():
        parts.append(cur)
    for p in parts:
        if re.sub(r"\s+|'[a-z_]+", '', p) in ('&self', 'self', '&mutself'):
            if self_type is None:
                raise NotInSubset('method with a self parameter')
            out.append(('self', self_type, False))
            continue
        name, _, ty = p.partition(':')
        name = name.strip()
        if name.startswith('mut '):
            name = name[4:].strip()
        ty = re.sub(r"\s+", '', ty)
        mut = ty.startswith('&mut')
        ty = re.sub(r"^&(mut)?", '', ty)
        ty = re.sub(r"^'[a-z_]+", '', ty)
        ty = re.sub(r"<.*>$", '', ty) if ty.startswith('SyncContext') else ty
        if ty not in param_types:
            raise NotInSubset('parameter type %s' % ty)
        t = param_types[ty]
        out.append((name, t, mut and t != 'ctx'))
    return out


def translate(src_text, names=FUNCTIONS, param_types=None, self_type=None):
    src = strip_comments(src_text)
    fns = {}
    tr = Translator(fns)
    out = []
    for name in names:
        params, ret, body = find_fn(src, name)
        p = P(lex(body))
        ast = p.block()
        if p.peek()[0] != 'eof':
            raise NotInSubset('trailing tokens after the body of %s' % name)
        fn = Fn(name, parse_params(params, param_types, self_type), re.sub(r'\s+', '', ret), ast)
        out.append(tr.function(fn))
        fns[name] = fn
    return out, fns


HEADER = '''(* GENERATED by tools/rs2coq.py from the source text of src/boss_sync.rs - do not edit.
   One Gallina function per Rust function, in the shape of the source.  Proofs/TransPlanEq.v proves them equal to
   the hand-written model. *)
From RJ Require Import Base.Prelude Base.OrderedPlan Model.Settings Model.Core Model.TransSupport.
'''


def fallback_text(reason):
    r = reason.replace('*)', '* )').replace('"', "'")
    return HEADER + '''
(* The translator does not apply to the current source: %s
   The definitions below are the MODEL's own (so that the development still builds); the tie for these
   functions is then the differential one alone (tools/decision_family.py, scripted doers). *)
Definition trans_applicable : bool := false.
Definition T_needs_delete (src dest : entry) (dest_platform_differentiates_symlinks : bool) : tres bool :=
  TVal (needs_delete dest_platform_differentiates_symlinks src dest).
Definition T_needs_copy (ctx_files_same_time_behaviour : beh) (path : path) (src_details dest_details : entry) : tres (option creason) :=
  match src_details, dest_details with
  | EFile _ _, EFile _ _ | EFolder, _ | ESymlink _ _, _ => TVal (needs_copy (beh_eqb ctx_files_same_time_behaviour BSkip) src_details dest_details)
  | _, _ => TPanic end.
Definition T_process_src_entry (ctx_files_same_time_behaviour : beh) (p : path) (src_entry : entry) (src_entries dest_entries : tmap entry)
  (dest_platform_differentiates_symlinks : bool) (to_delete : tmap (entry * dreason)) (to_copy : tmap (entry * creason))
  : tres ((tmap entry) * (tmap (entry * dreason)) * (tmap (entry * creason))) :=
  match process_src path path_eq_dec entry (needs_delete dest_platform_differentiates_symlinks) (needs_copy (beh_eqb ctx_files_same_time_behaviour BSkip)) p src_entry
          {| src_seen := omp path entry src_entries; dest_seen := omp path entry dest_entries; to_del := to_delete; to_cp := to_copy |} with
  | Some st => TVal (t_add p src_entry src_entries, to_del path entry st, to_cp path entry st)
  | None => TPanic end.
Definition T_process_dest_entry (ctx_files_same_time_behaviour : beh) (p : path) (dest_entry : entry) (src_entries dest_entries : tmap entry)
  (dest_platform_differentiates_symlinks : bool) (to_delete : tmap (entry * dreason)) (to_copy : tmap (entry * creason))
  : tres ((tmap entry) * (tmap (entry * dreason)) * (tmap (entry * creason))) :=
  match process_dest path path_eq_dec entry (needs_delete dest_platform_differentiates_symlinks) (needs_copy (beh_eqb ctx_files_same_time_behaviour BSkip)) p dest_entry
          {| src_seen := omp path entry src_entries; dest_seen := omp path entry dest_entries; to_del := to_delete; to_cp := to_copy |} with
  | Some st => TVal (t_add p dest_entry dest_entries, to_del path entry st, to_cp path entry st)
  | None => TPanic end.
''' % r


def generate(repo):
    """-> (text of Gen/FactsTransPlan.v, applicable: bool, note)"""
    src = open(os.path.join(repo, 'src', 'boss_sync.rs'), encoding='utf-8', errors='replace').read()
    try:
        defs, fns = translate(src)
        expected = {
            'needs_delete': ['src:entry', 'dest:entry', 'dest_platform_differentiates_symlinks:bool'],
            'needs_copy': ['ctx:ctx', 'path:path', 'src_details:entry', 'dest_details:entry'],
        }
        for n, want in expected.items():
            got = ['%s:%s' % (p, t) for p, t, m in fns[n].params]
            if [g.split(':')[1] for g in got] != [w.split(':')[1] for w in want]:
                raise NotInSubset('signature of %s changed: %s' % (n, got))
        for n in ('process_src_entry', 'process_dest_entry'):
            sig = [(t, m) for p, t, m in fns[n].params]
            want = [('ctx', False), ('path', False), ('entry', False), ('map_entry', n == 'process_src_entry'), ('map_entry', n == 'process_dest_entry'),
                    ('bool', False), ('map_del', True), ('map_copy', True)]
            if sig != want:
                raise NotInSubset('signature of %s changed: %s' % (n, sig))
            if fns[n].ctx_fields != ['files_same_time_behaviour']:
                raise NotInSubset('%s reads ctx fields %s' % (n, fns[n].ctx_fields))
        if fns['needs_copy'].ctx_fields != ['files_same_time_behaviour'] or fns['needs_delete'].ctx_fields:
            raise NotInSubset('needs_copy / needs_delete read unexpected ctx fields')
        text = HEADER + '\nDefinition trans_applicable : bool := true.\n\n' + '\n\n'.join(defs) + '\n'
        return text, True, 'translated %s' % ', '.join(FUNCTIONS)
    except NotInSubset as e:
        return fallback_text(str(e)), False, 'not in the subset: %s' % e
    except Exception as e:           # whatever the source looks like, the translator must not turn a harmless rewrite into an alarm
        return fallback_text('translator error %r' % (e,)), False, 'translator error %r' % (e,)


PATH_HEADER = '''(* GENERATED by tools/rs2coq.py from the source text of src/root_relative_path.rs - do not edit.
   RootRelativePath::is_same_or_inside in the shape of the source (short-circuit operators, the slice that can panic).
   Proofs/TransPathEq.v proves it equal to the component-wise prefix test of the model (Core.is_prefix). *)
From RJ Require Import Base.Prelude Model.Core Model.TransSupport Model.RelPath.
'''


def generate_relpath(repo):
    """-> (text of Gen/FactsTransPath.v, applicable, note)"""
    try:
        src = open(os.path.join(repo, 'src', 'root_relative_path.rs'), encoding='utf-8', errors='replace').read()
        defs, fns = translate(src, ['is_same_or_inside'], param_types={'RootRelativePath': 'rrp'}, self_type='rrp')
        if [(t, m) for _, t, m in fns['is_same_or_inside'].params] != [('rrp', False), ('rrp', False)] or fns['is_same_or_inside'].ret != 'bool':
            raise NotInSubset('signature of is_same_or_inside changed')
        return PATH_HEADER + '\nDefinition trans_path_applicable : bool := true.\n\n' + defs[0] + '\n', True, 'translated is_same_or_inside'
    except Exception as e:           # outside the subset, unreadable, or a translator error: fall back, never alarm
        r = str(e).replace('*)', '* )')
        return (PATH_HEADER + '''
(* The translator does not apply to the current source: %s
   The definition below is the model's own reading (so that the development still builds); the tie for this function is then
   the differential one alone (unit driver `relpath`, kept-link families). *)
Definition trans_path_applicable : bool := false.
Definition T_is_same_or_inside (self_inner other_inner : str) : tres bool :=
  if str_is_empty other_inner || str_eqb self_inner other_inner then TVal true
  else if str_starts_with other_inner self_inner then
    match str_skip (str_len other_inner) self_inner with None => TPanic | Some r => TVal (str_starts_with_char "/"%%char r) end
  else TVal false.
''' % r), False, 'not in the subset: %s' % e


if __name__ == '__main__':
    repo = sys.argv[1] if len(sys.argv) > 1 else '/repo'
    text, ok, note = generate(repo)
    sys.stderr.write(note + '\n')
    sys.stdout.write(text)
