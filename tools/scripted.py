"""Scripted-doer driver: the REAL boss (boss_sync::sync) against two scripted doers whose listing
order, arrival interleaving, error replies and file contents the harness dictates (harness sub-command
`scripted`), side by side with the extracted model (`run_orders`)."""
import os, sys, subprocess, itertools
import vlib, e2e, sync_e2e
from sync_e2e import hexs


def virtual_tokens(tree, kinds=None):
    """Model tokens for a tree that is NOT on disk: link kinds are given by `kinds` (default 'u')."""
    toks = []
    for rel in sorted(tree, key=lambda x: (x.count('/') if x else -1, x)):
        n = tree[rel]
        hp = hexs(rel)
        if n['k'] == 'dir':
            toks += ['D', hp]
        elif n['k'] == 'file':
            toks += ['F', hp, str(n['mtime_ns']), hexs(e2e.file_bytes(n))]
        elif n['k'] == 'link':
            toks += ['L', hp, hexs(n['text']), (kinds or {}).get(rel, 'u')]
    return toks


def model_listing(jbin, tree, excluded=(), kinds=None):
    """[(relpath, entrytext)] as the model lists `tree` (visible entries only, model order)."""
    line = 'LIST ex=%s S %s E' % (';'.join(hexs(p) for p in excluded) or '-', ' '.join(virtual_tokens(tree, kinds)))
    out = vlib.judge(jbin, [line])[0]
    res = []
    if out != '-':
        for item in out.split(','):
            hp, ent = item.split('=', 1)
            res.append((bytes.fromhex(hp).decode('latin1'), ent))
    return res


def root_entry(tree):
    n = tree.get('')
    if n is None:
        return 'none'
    if n['k'] == 'dir':
        return 'D'
    if n['k'] == 'file':
        return 'F:%d:%d' % (n['mtime_ns'], len(e2e.file_bytes(n)))
    t = n['text']
    # roots are rarely links in scripted runs; normalisation is the model's business
    return 'L:u:N' + t.hex()


def random_parents_first(rng, entries):
    """A random order of `entries` [(rel, x)] in which every parent precedes its children."""
    remaining = list(entries)
    done, out = {''}, []
    while remaining:
        avail = [e for e in remaining if (e[0].rsplit('/', 1)[0] if '/' in e[0] else '') in done]
        if not avail:          # parent not listed (hidden): cannot happen for model listings
            avail = remaining
        e = rng.choice(avail)
        remaining.remove(e)
        out.append(e)
        done.add(e[0])
    return out


def all_interleavings(ns, nd):
    for pos in itertools.combinations(range(ns + nd), ns):
        s = ['D'] * (ns + nd)
        for p in pos:
            s[p] = 'S'
        yield ''.join(s)


def harness_line(sc, ls, ld, sched, errs=(), srcfail=(), diff=0):
    c = sc.cfg
    head = ['cfg=%s,%s,%s,%s,%s,%d' % (c['newer'], c['older'], c['same'], c['entry'], c['root'], 1 if sc.dry else 0),
            'diff=%d' % diff, 'sroot=' + root_entry(sc.src), 'droot=' + root_entry(sc.dest), 'sched=' + (sched or '-'),
            'errs=' + (','.join('%d:%d' % e for e in errs) or '-'), 'srcfail=' + (','.join(map(str, srcfail)) or '-')]
    parts = head + ['S']
    for rel, ent in ls:
        parts += [hexs(rel), ent]
    parts += ['E', 'D']
    for rel, ent in ld:
        parts += [hexs(rel), ent]
    parts += ['E', 'C']
    for rel, n in sc.src.items():
        if n['k'] == 'file':
            parts += [hexs(rel) if rel else '-', hexs(e2e.file_bytes(n))]
    parts += ['E']
    return ' '.join(parts)


def model_line(sc, ls, ld, sched, fd=(), fsrc=(), lag=0, diff=0, kinds_s=None, kinds_d=None):
    c = sc.cfg
    cfg = ','.join([str(diff), 'U', c['newer'], c['older'], c['same'], c['entry'], c['root'], '1' if sc.dry else '0'])
    bits = ''.join('1' if ch == 'S' else '0' for ch in sched) or '-'
    parts = ['RUN', 'cfg=' + cfg, 'anc=ok', 'ans=' + (','.join(sc.answers) or '-'), 'bits=' + bits,
             'ex=' + (';'.join(hexs(p) for p in sc.excluded) or '-'),
             'fd=' + (','.join(map(str, fd)) or '-'), 'fsrc=' + (','.join(map(str, fsrc)) or '-'), 'lag=%d' % lag,
             'S'] + virtual_tokens(sc.src, kinds_s) + ['E', 'D'] + virtual_tokens(sc.dest, kinds_d) + ['E',
             'LS'] + [hexs(p) for p, _ in ls] + ['E', 'LD'] + [hexs(p) for p, _ in ld] + ['E']
    return ' '.join(parts)


def canon_harness_cmds(text):
    """'CreateFolder 61,DeleteFile 62,...' -> canonical tuples (same shape as sync_e2e.canon_trace)."""
    lines = ['"x" ' + c for c in text.split(',') if c.strip()]
    tr, allc = sync_e2e.canon_trace(lines, 'x')
    return tr


def parse_harness(line):
    assert line.startswith('RESULT '), line
    res, dest, src = [x.strip() for x in line[7:].split('|')]
    return {'ok': res == 'ok', 'dest': canon_harness_cmds(dest), 'src': canon_harness_cmds(src)}


def run_batch(binary, lines, env=None, timeout=300):
    """Runs the request lines through the scripted harness, in chunks; a chunk that does not come back in time
    is retried once and then line by line, so that a stuck request is isolated (and named) instead of stalling
    the whole batch."""
    import subprocess
    out = []
    step = 400
    for i in range(0, len(lines), step):
        chunk = lines[i:i + step]
        res = None
        for attempt in range(2):
            try:
                res = vlib.harness(binary, 'scripted', chunk, timeout=min(timeout, 180), env=env)
                break
            except subprocess.TimeoutExpired:
                res = None
        if res is None:
            res = []
            for l in chunk:
                try:
                    res += vlib.harness(binary, 'scripted', [l], timeout=60, env=env)
                except subprocess.TimeoutExpired:
                    raise vlib.BrokenTie('the scripted harness did not answer this request within 60 s (twice in its chunk): %s' % l[:1500])
        out += res
    return [parse_harness(l) for l in out]
