#!/bin/sh
# seedbatch.sh "C03 a" "C03 b" ...   runs seedcheck for each, one after the other; log: $SEEDLOG (default /tmp/seedchk/log)
mkdir -p /tmp/seedchk
LOG=${SEEDLOG:-/tmp/seedchk/log}
for item in "$@"; do
  set -- $item
  echo "=== $item $(date +%H:%M:%S)" >> $LOG
  python3 $(dirname $0)/seedcheck.py $1 $2 $3 $4 $5 >> $LOG 2>&1
done
echo "=== BATCH DONE $(date +%H:%M:%S)" >> $LOG
