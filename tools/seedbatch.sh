#!/bin/sh
# seedbatch.sh "C03 a" "C03 b" ...   runs seedcheck for each, one after the other, logs to /tmp/seedchk/log
mkdir -p /tmp/seedchk
for item in "$@"; do
  set -- $item
  echo "=== $item $(date +%H:%M:%S)" >> /tmp/seedchk/log
  python3 $(dirname $0)/seedcheck.py $1 $2 $3 $4 >> /tmp/seedchk/log 2>&1
done
echo "=== BATCH DONE $(date +%H:%M:%S)" >> /tmp/seedchk/log
