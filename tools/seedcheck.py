#!/usr/bin/env python3
"""seedcheck.py <PROP> <letter> [--checks C01,C03,...]
Confirms a seeded change produced by an independent agent (/tmp/mut/<PROP>/out/<letter>/{patch.diff,demo.*,meta.json})
and runs our checks against it:
  1. scratch worktree of /repo HEAD under /tmp/seedchk: demo on the unchanged tree must PASS (exit 0);
  2. apply the patch there: must build, the baseline suite must still give 132 passed / 12 failed, the demo must FAIL;
  3. apply the patch to /repo itself, run ./check <PROP> (and any extra checks), undo with git checkout;
  4. store everything under /verif/seeded/<PROP>-<letter>/ (patch.diff, demo, meta.json with what was run and what was detected).
The scratch worktree and its build output are removed at the end."""
import sys, os, subprocess, json, shutil, glob, time, re

V = os.path.dirname(os.path.dirname(os.path.abspath(__file__)))
REPO = os.environ.get('VERIF_REPO', '/repo')   # the tree the checks read (vlib honours the same variable)


def sh(cmd, cwd=None, timeout=3600, env=None):
    e = dict(os.environ, CARGO_NET_OFFLINE='true')
    if env:
        e.update(env)
    p = subprocess.run(cmd, shell=True, cwd=cwd, stdout=subprocess.PIPE, stderr=subprocess.STDOUT, text=True, timeout=timeout, env=e)
    return p.returncode, p.stdout


def apply_patch(patch, cwd):
    """git apply; if the context moved because the tree gained fix commits since the patch was written, fall
    back to a three-way apply and then to patch(1) with fuzz."""
    rc, out = sh('git apply %s' % patch, cwd=cwd)
    if rc != 0:
        rc, out = sh('git apply --3way %s && git reset -q' % patch, cwd=cwd)
    if rc != 0:
        sh('git checkout -- .', cwd=cwd)
        rc, out = sh('patch -p1 -F 3 --no-backup-if-mismatch < %s' % patch, cwd=cwd)
    return rc, out


def detect_only(prop, letter, extra):
    """Re-runs the checks against an already confirmed seed stored under seeded/<PROP>-<letter>/ of this checkout and
    records the outcome as meta['final_rerun'] (the seed's first-run record is left as it is)."""
    dst = os.path.join(V, 'seeded', '%s-%s' % (prop, letter))
    patch = os.path.join(dst, 'patch.diff')
    meta = json.load(open(os.path.join(dst, 'meta.json')))
    rc, out = sh('git -C %s status --porcelain' % REPO)
    if out.strip():
        print('%s is not clean; refusing to apply' % REPO)
        return 3
    detections = {}
    rc, out = apply_patch(patch, REPO)
    if rc != 0:
        print('patch does not apply', out[-300:])
        return 2
    try:
        for c in [prop] + [x for x in extra if x != prop]:
            t0 = time.time()
            rc, out = sh('./check %s --tier quick' % c, cwd=V, timeout=3600)
            lines = [l for l in out.splitlines() if l.startswith('VIOLATION') or 'violation:' in l or 'broken ' in l]
            detections[c] = {'exit': rc, 'lines': [l[:400] for l in lines[:4]], 'wall_s': round(time.time() - t0, 1)}
    finally:
        sh('git -C %s checkout -- .' % REPO)
        sh('git -C %s clean -fdq src' % REPO)
    head = sh('git -C %s rev-parse --short HEAD' % V)[1].strip()
    rh = sh('git -C %s rev-parse --short HEAD' % REPO)[1].strip()
    meta['final_rerun'] = {'verif_commit': head, 'repo_commit': rh, 'result': {'detections': detections, 'caught_by': [c for c, d in detections.items() if d['exit'] == 1]}}
    json.dump(meta, open(os.path.join(dst, 'meta.json'), 'w'), indent=1)
    print(json.dumps(meta['final_rerun'], indent=1))
    return 0


def main():
    prop, letter = sys.argv[1], sys.argv[2]
    extra = []
    if '--checks' in sys.argv:
        extra = sys.argv[sys.argv.index('--checks') + 1].split(',')
    if '--detect-only' in sys.argv:
        return detect_only(prop, letter, extra)
    src = '/tmp/mut/%s/out/%s' % (prop, letter)
    patch = os.path.join(src, 'patch.diff')
    demos = sorted(glob.glob(os.path.join(src, 'demo.*')))
    if not os.path.exists(patch) or not demos:
        print('missing deliverables in', src)
        return 2
    demo = demos[0]
    runner = 'bash' if demo.endswith('.sh') else 'python3'
    wt = '/tmp/seedchk/%s%s' % (prop, letter)
    shutil.rmtree(wt, ignore_errors=True)
    sh('git -C /repo worktree prune')
    os.makedirs('/tmp/seedchk', exist_ok=True)
    rc, out = sh('git -C /repo worktree add --detach %s HEAD' % wt)
    log = {'property': prop, 'letter': letter, 'steps': []}
    res = {}
    try:
        rc, out = sh('cargo build --offline', cwd=wt)
        rc, out = sh('%s %s %s' % (runner, demo, wt), timeout=1800)
        res['demo_clean_exit'] = rc
        log['steps'].append({'cmd': 'demo on unchanged tree', 'exit': rc, 'tail': out[-400:]})
        rc, out = apply_patch(patch, wt)
        res['patch_applies'] = (rc == 0)
        log['steps'].append({'cmd': 'git apply patch.diff (scratch worktree)', 'exit': rc, 'tail': out[-300:]})
        if rc == 0:
            rc, out = sh('cargo build --offline', cwd=wt)
            res['builds'] = (rc == 0)
            rc, out = sh('cargo nextest run --workspace --no-fail-fast --test-threads 8 --offline 2>&1 | grep -E "Summary"', cwd=wt)
            m = re.search(r'(\d+) passed, (\d+) failed', out)
            if not (m and m.group(1) == '132' and m.group(2) == '12'):
                # the suite has a known flake of its own (a prompt regex `.*c2.*` that matches a random temp-dir name): one more try
                rc, out = sh('cargo nextest run --workspace --no-fail-fast --test-threads 8 --offline 2>&1 | grep -E "Summary"', cwd=wt)
                m = re.search(r'(\d+) passed, (\d+) failed', out)
            res['suite'] = out.strip()[-120:]
            res['suite_baseline'] = bool(m and m.group(1) == '132' and m.group(2) == '12')
            log['steps'].append({'cmd': 'cargo nextest run (with the change)', 'result': res['suite']})
            rc, out = sh('%s %s %s' % (runner, demo, wt), timeout=1800)
            res['demo_changed_exit'] = rc
            log['steps'].append({'cmd': 'demo with the change', 'exit': rc, 'tail': out[-400:]})
    finally:
        sh('git -C /repo worktree remove --force %s' % wt)
        shutil.rmtree(wt, ignore_errors=True)
    confirmed = res.get('patch_applies') and res.get('builds') and res.get('suite_baseline') and res.get('demo_clean_exit') == 0 and res.get('demo_changed_exit', 0) != 0
    res['confirmed'] = bool(confirmed)
    detections = {}
    if confirmed:
        rc, out = sh('git -C %s status --porcelain' % REPO)
        if out.strip():
            print('%s is not clean; refusing to apply' % REPO)
            return 3
        rc, out = apply_patch(patch, REPO)
        try:
            for c in [prop] + [x for x in extra if x != prop]:
                t0 = time.time()
                rc, out = sh('./check %s --tier quick' % c, cwd=V, timeout=3600)
                lines = [l for l in out.splitlines() if l.startswith('VIOLATION') or l.startswith('KNOWN-FINDING') or 'violation:' in l or 'broken ' in l]
                detections[c] = {'exit': rc, 'lines': lines[:6], 'wall_s': round(time.time() - t0, 1)}
                log['steps'].append({'cmd': './check %s --tier quick (patch applied to /repo)' % c, 'exit': rc, 'lines': lines[:6]})
        finally:
            sh('git -C %s checkout -- .' % REPO)
            sh('git -C %s clean -fdq src' % REPO)
    res['detections'] = detections
    res['caught_by'] = [c for c, d in detections.items() if d['exit'] == 1]
    # store
    dst = os.path.join(V, 'seeded', '%s-%s' % (prop, letter))
    if confirmed:
        os.makedirs(dst, exist_ok=True)
        shutil.copy(patch, os.path.join(dst, 'patch.diff'))
        shutil.copy(demo, os.path.join(dst, os.path.basename(demo)))
        try:
            meta = json.load(open(os.path.join(src, 'meta.json')))
        except Exception:
            meta = {}
        meta['property'] = prop
        meta['confirmed_by_coordinator'] = log['steps']
        meta['result'] = res
        json.dump(meta, open(os.path.join(dst, 'meta.json'), 'w'), indent=1)
    print(json.dumps(res, indent=1))
    return 0


if __name__ == '__main__':
    sys.exit(main())
