#!/usr/bin/env python3
"""seedtable.py: markdown table of the confirmed seeded changes under seeded/ and which checks caught them
(written to design.d/SEEDED.md)."""
import os, json, glob
V = os.path.dirname(os.path.dirname(os.path.abspath(__file__)))
rows = []
for d in sorted(glob.glob(os.path.join(V, 'seeded', '*-*'))):
    try:
        m = json.load(open(os.path.join(d, 'meta.json')))
    except Exception:
        continue
    res = m.get('result', {})
    det = res.get('detections', {})
    caught = []
    for c, x in sorted(det.items()):
        if x.get('exit') == 1:
            nf = any('no-failing-input-found' in l for l in x.get('lines', []))
            caught.append(c + (' (proof/correspondence only)' if nf else ''))
    after = m.get('after_strengthening')
    title = (m.get('title') or m.get('what_breaks') or '')[:150].replace('|', '/').replace('\n', ' ')
    fin = m.get('final_rerun', {})
    fdet = fin.get('result', {}).get('detections', {})
    fcaught = ', '.join(c for c, x in sorted(fdet.items()) if x.get('exit') == 1)
    if fin:
        fcaught = (fcaught or 'NOT CAUGHT') + ' (verif %s, repo %s)' % (fin.get('verif_commit'), fin.get('repo_commit'))
    rows.append((os.path.basename(d), title, ', '.join(caught) or 'missed at first', '; '.join('%s: %s' % kv for kv in after.items()) if isinstance(after, dict) else (after or ''), fcaught))
out = ['# Seeded changes (independent agents; each confirmed: builds, suite unchanged, demo fails with / passes without)', '',
       '| id | change | caught by (quick tier, first run) | after strengthening | final re-run of every seed against the finished checks |', '|---|---|---|---|---|']
for r in rows:
    out.append('| %s | %s | %s | %s | %s |' % r)
open(os.path.join(V, 'design.d', 'SEEDED.md'), 'w').write('\n'.join(out) + '\n')
print('\n'.join(out))
