#!/usr/bin/env python3
"""setup_cmd: build everything from files on disk (offline): hooked implementation, Gen/Facts.v,
the whole Coq development (full .vo build) and the extracted judges."""
import sys, os, glob
sys.path.insert(0, os.path.dirname(os.path.abspath(__file__)))
import vlib

def main():
    binary = vlib.build_impl()
    vlib.regen_facts(binary)
    ok, out = vlib.build_coq(None, timeout=3000)
    if not ok:
        print(out[-4000:])
        print('setup: Coq build failed')
        return 1
    for drv in sorted(glob.glob(os.path.join(vlib.VERIF, 'ocaml', 'drv_*.ml'))):
        name = os.path.basename(drv)[4:-3]
        vlib.build_judge(name)
    print('setup ok')
    return 0

if __name__ == '__main__':
    sys.exit(main())
