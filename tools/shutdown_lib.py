"""C09 helpers: scenario -> sandbox -> run of the real CLI under a watchdog -> observation.

scenario = {
  'placement': 'LL' | 'RL' | 'LR' | 'RR'     # source, destination: Local thread / Remote doer (fake ssh)
  'files':     [n0, n1, ...]                  # sizes of the source files f00, f01, ... (one flat folder)
  'sparse':    bool                           # create the files sparse (truncate) - for the 400 MiB runs
  'capacity':  int | None                     # RJRSSYNC_VERIF_CAPACITY (None: the real 100 MiB)
  'fault':     {'kind': 'none'}
             | {'kind': 'cmd_error', 'k': k}      RJRSSYNC_VERIF_FAULTS=cmd:k:error   (destination)
             | {'kind': 'write_fail', 'k': k}     write:k:fail                          (destination)
             | {'kind': 'get_error', 'k': k}      get:k:error                           (source)
             | {'kind': 'efbig', 'blocks': b}     ulimit -f b with SIGXFSZ ignored       (whole process tree)
             | {'kind': 'grow' | 'shrink', 'file': i, 'delay_ms': d, 'to': n}   racing writer on source file i
             | {'kind': 'crash', 'n': n}          RJRSSYNC_VERIF_CRASH_AT=n on the remote destination doer
             | {'kind': 'kill', 'side': 'src'|'dest', 'lines': k}   SIGKILL of that remote doer around its k-th command
             | {'kind': 'cut', 'side': 'src'|'dest', 'dir': 'b2d'|'d2b', 'frames': i, 'bytes': b}   TCP cut
}
"""
import os, sys, json, shutil, subprocess, time, threading, uuid, signal
import e2e

HERE = os.path.dirname(os.path.abspath(__file__))
SSH_WRAPPER = '#!/bin/sh\nexec python3 %s "$1" "$2"\n' % os.path.join(HERE, 'cut_proxy.py')
SRC_HOST, DEST_HOST = 'localhost', '127.0.0.1'     # two spellings so that a plan can address one doer

CHUNK0, CHUNK_MAX = 4096, 4 * 1024 * 1024


def chunk_ladder(n):
    """Data lengths of the FileContent messages the source doer sends for a file of n bytes that does
    not change while it is read (doer.rs handle_get_file_contents: 4 KiB doubling to 4 MiB; the last
    chunk is flagged; an empty file is one empty chunk)."""
    out, size, left = [], CHUNK0, n
    while left > 0:
        c = min(size, left)
        out.append(c)
        left -= c
        if c == size:
            size = min(size * 2, CHUNK_MAX)
    return out or [0]


def needs_wrapper(sc):
    return sc['fault']['kind'] in ('kill', 'cut', 'crash')


def build(sc, base):
    """Creates base/{src,...}; returns (argv tail, env, ulimit, fake_ssh_dir, extra) for e2e.run_cli."""
    os.makedirs(os.path.join(base, 'src'))
    for i, n in enumerate(sc['files']):
        p = os.path.join(base, 'src', 'f%02d' % i)
        with open(p, 'wb') as f:
            if sc.get('sparse'):
                f.truncate(n)
            else:
                f.write(e2e.file_bytes({'len': n, 'fill': i}))
        os.utime(p, ns=(10 ** 18 + i, 10 ** 18 + i))
    pl = sc['placement']
    src = ('%s:' % SRC_HOST if pl[0] == 'R' else '') + os.path.join(base, 'src') + '/'
    dest = ('%s:' % DEST_HOST if pl[1] == 'R' else '') + os.path.join(base, 'dest') + '/'
    env = {'C09_RUN_TAG': 'c09-' + uuid.uuid4().hex}
    if sc.get('capacity') is not None:
        env['RJRSSYNC_VERIF_CAPACITY'] = str(sc['capacity'])
    env['RJRSSYNC_VERIF_POINT_LOG'] = os.path.join(base, 'points.log')
    fl = sc['fault']
    k = fl['kind']
    ulimit = None
    plan = {}
    if k == 'cmd_error':
        env['RJRSSYNC_VERIF_FAULTS'] = 'cmd:%d:error' % fl['k']
    elif k == 'write_fail':
        env['RJRSSYNC_VERIF_FAULTS'] = 'write:%d:fail' % fl['k']
    elif k == 'get_error':
        env['RJRSSYNC_VERIF_FAULTS'] = 'get:%d:error' % fl['k']
    elif k == 'efbig':
        ulimit = fl['blocks']
    elif k == 'crash':
        plan[DEST_HOST] = {'env': {'RJRSSYNC_VERIF_CRASH_AT': str(fl['n'])}}
    elif k == 'kill':
        host = SRC_HOST if fl['side'] == 'src' else DEST_HOST
        log = os.path.join(base, 'cmd_%s.log' % fl['side'])
        plan[host] = {'env': {'RJRSSYNC_VERIF_CMD_LOG': log}, 'kill': {'log': log, 'lines': fl['lines']}}
    elif k == 'cut':
        host = SRC_HOST if fl['side'] == 'src' else DEST_HOST
        plan[host] = {'cut': {'dir': fl['dir'], 'frames': fl['frames'], 'bytes': fl['bytes'],
                              'stats': os.path.join(base, 'cut_stats.json')}}
    if plan:
        env['C09_PLAN'] = json.dumps(plan)
    fake = None
    if 'R' in pl:
        fake = e2e.fake_ssh_dir(base, SSH_WRAPPER if needs_wrapper(sc) else e2e.FAKE_SSH)
    return [src, dest], env, ulimit, fake


def racing_writer(sc, base):
    fl = sc['fault']
    if fl['kind'] not in ('grow', 'shrink'):
        return None
    p = os.path.join(base, 'src', 'f%02d' % fl['file'])

    def go():
        time.sleep(fl['delay_ms'] / 1000.0)
        try:
            with open(p, 'r+b') as f:
                f.truncate(fl['to'])      # sparse growth / truncation; either changes what the doer reads
        except OSError:
            pass
    t = threading.Thread(target=go, daemon=True)
    return t


def reap(tag):
    """SIGKILL whatever still carries this run's tag in its environment (doers of a killed boss)."""
    n = 0
    me = os.getpid()
    for pid in os.listdir('/proc'):
        if not pid.isdigit() or int(pid) == me:
            continue
        try:
            with open('/proc/%s/environ' % pid, 'rb') as f:
                if tag.encode() in f.read():
                    os.kill(int(pid), signal.SIGKILL)
                    n += 1
        except OSError:
            pass
    return n


def run(binary, sc, base, watchdog):
    """Runs one scenario in the fresh directory `base`. Returns the observation dict."""
    argv, env, ulimit, fake = build(sc, base)
    t = racing_writer(sc, base)
    if t:
        t.start()
    r = e2e.run_cli(binary, argv, env=env, timeout=watchdog, ulimit_f=ulimit, fake_ssh=fake)
    if t:
        t.join()
    leftovers = reap(env['C09_RUN_TAG'])
    pts = []
    try:
        pts = [l.split()[1] for l in open(os.path.join(base, 'points.log')).read().splitlines() if len(l.split()) > 1]
    except OSError:
        pass
    mut = [p for p in pts if p not in ('created', 'written', 'stamped')]
    obs = {'exit': r['exit'], 'timed_out': r['timed_out'], 'wall_s': round(r['wall_s'], 3),
           'stderr_tail': e2e.ANSI.sub('', r['stderr'])[-600:], 'stdout_tail': e2e.ANSI.sub('', r['stdout'])[-300:],
           'mutating_cmds': len(mut), 'writes': pts.count('written'), 'leftover_processes': leftovers}
    obs['points'] = len(pts)
    fl = sc['fault']
    if fl['kind'] == 'cut':
        try:
            obs['cut_stats'] = json.load(open(os.path.join(base, 'cut_stats.json')))
        except (OSError, ValueError):
            obs['cut_stats'] = None
    if fl['kind'] == 'kill':
        kp = os.path.join(base, 'cmd_%s.log.killed' % fl['side'])
        obs['kill_delivered'] = os.path.exists(kp)
        if obs['kill_delivered']:
            lines = open(kp).read().splitlines()
            obs['kill_log_lines'] = len(lines)
            obs['kill_after_shutdown_cmd'] = any(l.endswith('Shutdown') for l in lines)
            obs['kill_after_last_work'] = kill_after_work(lines, fl['side'])
    return obs


def kill_after_work(lines, side):
    """True when, at the moment of the kill, the doer had already been handed everything but Shutdown:
    the source doer has been asked for every file (cannot know here -> only Shutdown counts), the
    destination doer has logged a Marker after its last mutating command (the Done marker)."""
    kinds = [l.split()[-1] if l.split()[-1] in ('Shutdown', 'Marker', 'GetEntries') else l.split('" ', 1)[-1].split(' ')[0] for l in lines if l.strip()]
    if 'Shutdown' in kinds:
        return True
    if side == 'dest' and kinds and kinds[-1] == 'Marker':
        return True      # conservatively: a trailing marker may be the Done marker
    return False


def fault_surely_happened(sc, obs):
    """Decided from the scenario and the doer-side logs (never from the boss's own report)."""
    fl = sc['fault']
    k = fl['kind']
    if k == 'none':
        return False
    if k == 'cmd_error':
        # the hook answers only non-chunk commands with a command-level Error (a chunk fails inside its handler:
        # write_fail); in these scenarios the non-chunk mutating commands are the 2 leading ones
        return obs['mutating_cmds'] > fl['k'] and fl['k'] < 2
    if k == 'write_fail':
        return obs['writes'] > fl['k']
    if k == 'get_error':
        nonempty_run = len(sc['files']) > fl['k']
        return nonempty_run
    if k == 'efbig':
        return any(n > fl['blocks'] * 1024 for n in sc['files'])
    if k == 'crash':
        # crash point n exists iff the destination reached it: the process aborted there
        return None     # decided by the caller from the point log length
    if k == 'kill':
        if not obs.get('kill_delivered'):
            return False
        return not obs.get('kill_after_last_work')
    if k == 'cut':
        return None     # a cut after the last frame of a direction is no fault; caller compares with a clean run
    return None         # grow / shrink: a race - only termination is demanded
