#!/usr/bin/env python3
"""spec_e2e.py - spec files with several syncs: the real `--spec` run against Model/SpecRun.v (run_spec).

A scenario has k roots (folders base/r0 .. r<k-1>, some missing) and a list of jobs (src root, dest root,
behaviours, filters).  The CLI runs the spec once; the model folds `run_top` over the jobs, threading the trees
through a store, and stops at the first sync that fails.  Compared: exit status (0 / 12), how many syncs were
started, each started sync's summary counts, and the final tree of EVERY root.
Oracles on the implementation alone (from the property texts):
  C07  exit 0  =>  every sync of the spec was started and none reported an error;  exit != 0  =>  an error was printed
  C02  a root that is no sync's destination is exactly as before
  C01  exit 0, nothing skipped, no dry run: a destination that no later sync wrote to (and whose source no later
       sync wrote to) equals its source on every path the filters include."""
import os, re, sys, json, shutil, tempfile, hashlib
import vlib, e2e, sync_e2e
from sync_e2e import hexs, T0

BEH3 = ['A', 'S', 'E']
WORD = {'E': 'error', 'S': 'skip'}


def word(b, v):
    return WORD.get(v) or ('delete' if b in ('entry', 'root') else 'overwrite')


def gen_tree(rng, tag):
    """A folder tree with files (a few multi-chunk), folders and broken links (a broken link means the same wherever it is copied)."""
    t = {'': {'k': 'dir'}}
    dirs = ['']
    names = ['a', 'b', 'c', 'd', 'e', 'f.txt', 'g.bin', 'sub', 'x y', 'z-9']
    for _ in range(rng.randrange(0, 9)):
        d = rng.choice(dirs)
        p = (d + '/' if d else '') + rng.choice(names)
        if p in t or p.count('/') >= 3:
            continue
        r = rng.random()
        if r < 0.3:
            t[p] = {'k': 'dir'}
            dirs.append(p)
        elif r < 0.42:
            t[p] = {'k': 'link', 'text': rng.choice([b'nowhere', b'../gone/x', b'/nonexistent/abs', b'./n/../m'])}
        else:
            size = rng.choice([0, 1, 5, 40, 4096, 5000, 13000]) if rng.random() < 0.9 else 70000
            seed = rng.randrange(1 << 30)
            mt = T0 + rng.choice([0, 1, 1000, 10**9, 5 * 10**9]) * rng.choice([1, 1, 2])
            t[p] = {'k': 'file', 'len': size, 'fill': seed, 'mtime_ns': mt} if size > 64 else \
                   {'k': 'file', 'data': bytes((seed + i) % 251 for i in range(size)), 'mtime_ns': mt}
    return t


class Spec:
    def __init__(self):
        self.roots, self.jobs, self.dry = [], [], False

    def to_json(self):
        def enc(t):
            return None if t is None else {k: {kk: (vv.hex() if isinstance(vv, bytes) else vv) for kk, vv in v.items()} for k, v in t.items()}
        return {'roots': [enc(t) for t in self.roots], 'jobs': self.jobs, 'dry': self.dry}

    @staticmethod
    def from_json(j):
        s = Spec()
        def dec(t):
            if t is None:
                return None
            out = {}
            for k, v in t.items():
                n = dict(v)
                for f in ('data', 'text'):
                    if f in n:
                        n[f] = bytes.fromhex(n[f])
                out[k] = n
            return out
        s.roots = [dec(t) for t in j['roots']]
        s.jobs, s.dry = j['jobs'], j['dry']
        return s


def gen_spec(rng):
    s = Spec()
    k = rng.choice([2, 3, 3, 4])
    for i in range(k):
        s.roots.append(None if (i > 0 and rng.random() < 0.25) else gen_tree(rng, i))
    # sometimes make a later root a near-copy of root 0 (so that there is something to update / delete)
    for i in range(1, k):
        if s.roots[i] is not None and rng.random() < 0.5 and s.roots[0] is not None:
            t = {p: dict(n) for p, n in s.roots[0].items() if rng.random() < 0.7 or p == ''}
            t = {p: n for p, n in t.items() if all('/'.join(p.split('/')[:j]) in t for j in range(1, p.count('/') + 1))}
            for p, n in list(t.items()):
                if n['k'] == 'file' and rng.random() < 0.4:
                    n = dict(n)
                    n['mtime_ns'] = n['mtime_ns'] + rng.choice([-10**9, 10**9, 0])
                    if 'data' in n and rng.random() < 0.5:
                        n['data'] = n['data'] + b'!'
                    t[p] = n
            if rng.random() < 0.5:
                t['extra'] = {'k': 'file', 'data': b'only here', 'mtime_ns': T0 - 7}
            s.roots[i] = t
    nj = rng.choice([1, 2, 2, 3, 3, 4])
    for _ in range(nj):
        a = rng.randrange(k)
        b = rng.choice([x for x in range(k) if x != a])
        clean = rng.random() < 0.6
        cfg = {'newer': 'A', 'older': 'A', 'same': rng.choice(['S', 'S', 'A']), 'entry': 'A', 'root': 'A'} if clean else \
              {'newer': rng.choice(BEH3), 'older': rng.choice(BEH3), 'same': rng.choice(BEH3 + ['S']), 'entry': rng.choice(BEH3), 'root': rng.choice(BEH3)}
        job = {'src': a, 'dst': b, 'cfg': cfg, 'filters': [], 'excl_name': None}
        if rng.random() < 0.25:
            nm = rng.choice(['a', 'b', 'sub', 'f.txt', 'extra'])
            job['filters'] = ['-(.*/)?' + re.escape(nm)]
            job['excl_name'] = nm
        s.jobs.append(job)
    s.dry = rng.random() < 0.08
    return s


def excluded_paths(job, *trees):
    nm = job['excl_name']
    if nm is None:
        return []
    out = set()
    for t in trees:
        for p in (t or {}):
            if p and p.split('/')[-1] == nm:
                out.add(p)
    return sorted(out)


def model_request(spec, base_dirs):
    parts = ['SPEC']
    for i, t in enumerate(spec.roots):
        parts += ['R'] + (sync_e2e.tree_tokens(t, base_dirs[i]) if t is not None else []) + ['E']
    # every path that may exist in any root at any time (what the filter's verdict table must cover)
    allp = set()
    for t in spec.roots:
        allp |= set(t or {})
    for j in spec.jobs:
        c = j['cfg']
        cfg = ','.join(['0', 'U', c['newer'], c['older'], c['same'], c['entry'], c['root'], '1' if spec.dry else '0'])
        ex = [p for p in sorted(allp) if p and j['excl_name'] is not None and p.split('/')[-1] == j['excl_name']]
        parts += ['J', 'src=%d' % j['src'], 'dst=%d' % j['dst'], 'cfg=' + cfg, 'anc=ok', 'ans=-', 'ex=' + (';'.join(hexs(p) for p in ex) or '-')]
    return ' '.join(parts)


def parse_spec_answer(line, nroots):
    kv = dict(t.split('=', 1) for t in line.split())
    out = {'ok': kv['ok'] == '1', 'ran': int(kv['ran']), 'oks': [] if kv['oks'] == '-' else kv['oks'].split(','),
           'nerrs': [] if kv['nerrs'] == '-' else [int(x) for x in kv['nerrs'].split(',')],
           'skips': [] if kv['skips'] == '-' else [int(x) for x in kv['skips'].split(',')],
           'stats': [] if kv['stats'] == '-' else [[int(x) for x in s.split(',')] for s in kv['stats'].split('/')], 'fs': []}
    for i in range(nroots):
        fake = 'fs=' + kv['fs%d' % i]
        # reuse sync_e2e's node parser
        pm = sync_e2e.parse_model('ok=1 cf=0 rootskip=0 panic=0 srcfail=0 errs=- prompts=- skipped=- stats=0,0,0,0,0,0,0,0 events=- anc=ok would=- src=- dest=- ' + fake)
        out['fs'].append(pm['fs'])
    return out


def spec_yaml(spec, dirs):
    lines = ['syncs:']
    for j in spec.jobs:
        lines.append('  - src: "%s/"' % dirs[j['src']])
        lines.append('    dest: "%s/"' % dirs[j['dst']])
        c = j['cfg']
        lines.append('    dest_file_newer_behaviour: %s' % word('newer', c['newer']))
        lines.append('    dest_file_older_behaviour: %s' % word('older', c['older']))
        lines.append('    files_same_time_behaviour: %s' % word('same', c['same']))
        lines.append('    dest_entry_needs_deleting_behaviour: %s' % word('entry', c['entry']))
        lines.append('    dest_root_needs_deleting_behaviour: %s' % word('root', c['root']))
        if j['filters']:
            lines.append('    filters: [ %s ]' % ', '.join("'%s'" % f for f in j['filters']))
    return '\n'.join(lines) + '\n'


SUMMARY = re.compile(r'(Copied|Would copy|Deleted|Would delete|Nothing to do)')


def run_spec_scenario(spec, binary, jbin, base, keep=False):
    root = tempfile.mkdtemp(prefix='spec_', dir=base)
    try:
        dirs = [os.path.join(root, 'r%d' % i) for i in range(len(spec.roots))]
        for d, t in zip(dirs, spec.roots):
            if t is not None:
                e2e.build_tree(d, t)
        before = [e2e.snapshot(d) for d in dirs]
        req = model_request(spec, dirs)
        m = parse_spec_answer(vlib.judge(jbin, [req])[0], len(dirs))
        open(os.path.join(root, 'spec.yaml'), 'w').write(spec_yaml(spec, dirs))
        args = ['--spec', os.path.join(root, 'spec.yaml')] + (['--dry-run'] if spec.dry else [])
        r = e2e.run_cli(binary, args, env={}, timeout=120)
        text = r['stdout'] + r['stderr']
        after = [e2e.snapshot(d) for d in dirs]
        started = len(re.findall(r' => .*:\s*$', text, re.M)) if len(spec.jobs) > 1 else 1
        o = {'exit': r['exit'], 'timed_out': r['timed_out'], 'text': text[-3000:], 'before': before, 'after': after,
             'started': started, 'model': m, 'request': req, 'errors': e2e.parse_output(text)['errors']}
        mm = []
        if r['timed_out']:
            mm.append('implementation timed out')
        want = 0 if m['ok'] else 12
        if r['exit'] != want:
            mm.append('exit %s, model %s' % (r['exit'], want))
        if started != m['ran']:
            mm.append('syncs started: impl %d model %d' % (started, m['ran']))
        # a destination command that fails is noticed by the boss after a timing-dependent number of further
        # commands (the single-sync legs search the model's lag for it): that root's tree is not compared here
        racy = {spec.jobs[k]['dst'] for k in range(m['ran']) if m['nerrs'][k] > 0}
        for i in range(len(dirs)):
            if i in racy:
                continue
            for d in sync_e2e.diff_dest(m['fs'][i], after[i]):
                mm.append('root %d: %s' % (i, d))
        o['mismatch'] = mm
        return o
    finally:
        if not keep:
            shutil.rmtree(root, ignore_errors=True)


def mirror_violations(spec, o):
    """C01 oracle on the implementation's observation alone (see module docstring)."""
    out = []
    if o['exit'] != 0 or spec.dry:
        return out
    for k, j in enumerate(spec.jobs):
        c = j['cfg']
        if any(c[b] != 'A' for b in ('newer', 'older', 'entry', 'root')) or c['same'] not in ('A', 'S'):
            continue                                       # something may have been skipped
        later = spec.jobs[k + 1:]
        if any(l['dst'] in (j['dst'], j['src']) for l in later):
            continue
        s, d = o['after'][j['src']], o['after'][j['dst']]
        nm = j['excl_name']
        def hidden(p):
            return nm is not None and any(part == nm for part in p.split('/'))
        for p in sorted(set(s) | set(d)):
            if hidden(p):
                continue
            a, b = s.get(p), d.get(p)
            if a is None or b is None or a[0] != b[0]:
                out.append('job %d (%d->%d): %r is %s on the source and %s on the destination' % (k, j['src'], j['dst'], p, a and a[0], b and b[0]))
            elif a[0] == 'file' and (a[1:3] != b[1:3] or a[3] != b[3]):
                # a destination file that already carried the source's time is left alone (C01's own exemption)
                if not (a[3] == b[3]):
                    out.append('job %d: file %r differs' % (k, p))
                elif c['same'] == 'A':
                    out.append('job %d: file %r has the source\'s time but other bytes although same-time files are overwritten' % (k, p))
    return out


def family(run, binary, jbin, base, n, rng, prop):
    """Runs n generated specs; correspondence failures -> run.broke, oracle failures -> run.fail."""
    for i in range(n):
        spec = gen_spec(rng)
        o = run_spec_scenario(spec, binary, jbin, base)
        run.count('spec:jobs:%d' % len(spec.jobs))
        run.count('spec:exit:%s' % o['exit'])
        run.count('spec:started:%d' % o['started'])
        run.case(('spec', i), True, sample={'jobs': [(j['src'], j['dst']) for j in spec.jobs], 'exit': o['exit'], 'started': o['started']} if i < 4 else None)
        run.traces_validated += 1
        rep = {'family': 'spec', 'spec': spec.to_json(), 'exit': o['exit'], 'started': o['started'], 'text': o['text'][-800:]}
        if prop == 'C07':
            if o['exit'] == 0 and (o['started'] != len(spec.jobs) or o['errors']):
                run.fail('C07: a spec with %d syncs exited 0 although %s' % (len(spec.jobs), 'only %d were started' % o['started'] if o['started'] != len(spec.jobs) else 'a sync reported an error: %s' % o['errors'][:2]), rep)
                continue
            if o['exit'] != 0 and not o['errors']:
                run.fail('C07: spec run exited %s without an error message' % o['exit'], rep)
                continue
        if prop in ('C01', 'C02'):
            dests = {j['dst'] for j in spec.jobs}
            bad = [i2 for i2 in range(len(spec.roots)) if i2 not in dests and o['before'][i2] != o['after'][i2]]
            if bad:
                run.fail('%s: root %s is no sync\'s destination and was changed by the spec run' % (prop, bad), rep)
                continue
        if prop == 'C01':
            v = mirror_violations(spec, o)
            if v:
                run.fail('C01: spec run exited 0 and ' + v[0], dict(rep, violations=v[:5]))
                continue
        if o['mismatch']:
            run.broke('correspondence', 'spec-e2e', json.dumps(dict(rep, mismatch=o['mismatch'][:6], model={k: o['model'][k] for k in ('ok', 'ran', 'oks')}))[:3000])


def gen_chain_spec(rng):
    """A spec in the domain of C04_spec_twice: clean behaviours (same-time files skipped), pairwise distinct destinations,
    no sync writes to the source or destination of an earlier one (a destination may feed a later sync: A -> B, B -> C)."""
    s = Spec()
    k = rng.choice([2, 3, 4, 5])
    for i in range(k):
        s.roots.append(None if (i > 0 and rng.random() < 0.3) else gen_tree(rng, i))
    order = list(range(k))
    rng.shuffle(order)
    used_dst, touched = set(), set()
    for _ in range(rng.choice([1, 2, 3, 4])):
        cands = [(a, b) for a in range(k) for b in range(k)
                 if a != b and b not in used_dst and b not in touched and s.roots[a] is not None]
        if not cands:
            break
        a, b = rng.choice(cands)
        job = {'src': a, 'dst': b, 'cfg': {'newer': 'A', 'older': 'A', 'same': 'S', 'entry': 'A', 'root': 'A'}, 'filters': [], 'excl_name': None}
        if rng.random() < 0.25:
            nm = rng.choice(['a', 'b', 'sub', 'f.txt'])
            job['filters'] = ['-(.*/)?' + re.escape(nm)]
            job['excl_name'] = nm
        s.jobs.append(job)
        used_dst.add(b)
        touched |= {a, b}
        # a later sync may read b (chain) but must not write to a or b: 'touched' blocks them as destinations only
    return s


def twice_family(run, binary, base, n, rng):
    """C04 for specs: run the spec, then run it again; the second run must do nothing at all."""
    for i in range(n):
        spec = gen_chain_spec(rng)
        if not spec.jobs:
            continue
        root = tempfile.mkdtemp(prefix='spec2_', dir=base)
        try:
            dirs = [os.path.join(root, 'r%d' % k) for k in range(len(spec.roots))]
            for d, t in zip(dirs, spec.roots):
                if t is not None:
                    e2e.build_tree(d, t)
            open(os.path.join(root, 'spec.yaml'), 'w').write(spec_yaml(spec, dirs))
            r1 = e2e.run_cli(binary, ['--spec', os.path.join(root, 'spec.yaml')], env={}, timeout=120)
            mid = [e2e.snapshot(d) for d in dirs]
            r2 = e2e.run_cli(binary, ['--spec', os.path.join(root, 'spec.yaml')], env={}, timeout=120)
            end = [e2e.snapshot(d) for d in dirs]
            text2 = r2['stdout'] + r2['stderr']
            run.count('spec-twice:first-exit:%s' % r1['exit'])
            run.case(('spec-twice', i), True, sample={'jobs': [(j['src'], j['dst']) for j in spec.jobs], 'first': r1['exit'], 'second': r2['exit']} if i < 3 else None)
            if r1['exit'] != 0:
                continue
            rep = {'family': 'spec-twice', 'spec': spec.to_json(), 'second_text': text2[-800:]}
            if r2['exit'] != 0:
                run.fail('C04: the second run of a spec that had exited 0 exits %s' % r2['exit'], rep)
            elif end != mid:
                bad = [k for k in range(len(dirs)) if end[k] != mid[k]]
                run.fail('C04: the second run of a spec changed root(s) %s' % bad, rep)
            elif text2.count('Nothing to do') != len(spec.jobs):
                run.fail('C04: the second run of a spec with %d syncs reported "Nothing to do" %d times' % (len(spec.jobs), text2.count('Nothing to do')), rep)
        finally:
            shutil.rmtree(root, ignore_errors=True)


if __name__ == '__main__':
    import random
    binary = vlib.build_impl()
    vlib.build_coq(['theories/Extract/Ex_sync.vo'])
    jbin = vlib.build_judge('sync')
    seed = int(sys.argv[1]) if len(sys.argv) > 1 else 1
    n = int(sys.argv[2]) if len(sys.argv) > 2 else 50
    rng = random.Random(seed)
    base = tempfile.mkdtemp(prefix='spece2e_', dir=vlib.CACHE)
    bad = 0
    try:
        for i in range(n):
            spec = gen_spec(rng)
            o = run_spec_scenario(spec, binary, jbin, base)
            v = mirror_violations(spec, o)
            if o['mismatch'] or v:
                bad += 1
                print(json.dumps({'i': i, 'mismatch': o['mismatch'][:5], 'oracle': v[:3], 'jobs': spec.jobs, 'exit': o['exit'], 'text': o['text'][-600:]})[:2500])
        print('spec scenarios %d, disagreements %d' % (n, bad))
    finally:
        shutil.rmtree(base, ignore_errors=True)
