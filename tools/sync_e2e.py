"""Scenario generator and end-to-end differential driver for the core sync model
(C01-C05, C07, C08, C12, C13 share it).  A scenario is a pair of trees plus configuration; it is
run on the real CLI in a sandbox and on the extracted model (judge_sync); both observations are
canonicalised and compared; property oracles (in the per-property plug-ins) look at the
implementation's observation only."""
import os, sys, re, json, shutil, hashlib, subprocess, tempfile, itertools, stat
import e2e, vlib

NAMES = ['a', 'b', 'ab', 'ba', 'a.b', 'c', 'build', 'builder']
T0 = 1_500_000_000_000_000_000
MTIMES = [T0, T0 + 1, T0 - 1, T0 + 1_000_000_000, 1_600_000_000_123_456_789, 2**31 * 10**9, 4_500_000_000 * 10**9 + 999_999_999, 10**9, 0]
LINK_TEXTS = [b'a', b'../a', b'./a', b'a//b', b'a/', b'nonexistent', b'.', b'..', b'b/../a', b'/nonexistent/abs', b'sub/./x']
BEH = ['P', 'E', 'S', 'A']


def hexs(b):
    if isinstance(b, str):
        b = b.encode()
    return b.hex() if b else '-'


class Scenario:
    """src/dest: {relpath: node} in e2e.build_tree format ('' = root); dest may be {} (absent).
    outside: tree of decoys next to the roots (link targets, siblings)."""

    def __init__(self):
        self.src = {}
        self.dest = {}
        self.outside = {}
        self.cfg = {'newer': 'P', 'older': 'A', 'same': 'S', 'entry': 'A', 'root': 'P'}
        self.dry = False
        self.answers = []          # list of 'o1','o0','a1','a0','c' in prompt order
        self.excluded = []         # relative paths whose own filter verdict is exclude
        self.filters = []          # the CLI filter strings that produce `excluded`
        self.dest_anc = 'ok'       # ok | missing
        self.placement = 'LL'
        self.faults = {'fd': [], 'fsrc': [], 'lag': 0}
        self.tag = ''

    def to_json(self):
        def tj(t):
            return {k: {kk: (vv.decode('latin1') if isinstance(vv, bytes) else vv) for kk, vv in v.items()} for k, v in t.items()}
        return {'src': tj(self.src), 'dest': tj(self.dest), 'outside': tj(self.outside), 'cfg': self.cfg, 'dry': self.dry,
                'answers': self.answers, 'excluded': self.excluded, 'filters': self.filters, 'dest_anc': self.dest_anc,
                'placement': self.placement, 'faults': self.faults, 'tag': self.tag}

    @staticmethod
    def from_json(j):
        def fj(t):
            out = {}
            for k, v in t.items():
                n = dict(v)
                for key in ('data', 'text'):
                    if key in n:
                        n[key] = n[key].encode('latin1')
                out[k] = n
            return out
        s = Scenario()
        s.src, s.dest, s.outside = fj(j['src']), fj(j['dest']), fj(j.get('outside', {}))
        s.cfg, s.dry, s.answers = j['cfg'], j['dry'], j['answers']
        s.excluded, s.filters, s.dest_anc = j['excluded'], j['filters'], j['dest_anc']
        s.placement, s.faults, s.tag = j.get('placement', 'LL'), j.get('faults', {'fd': [], 'fsrc': [], 'lag': 0}), j.get('tag', '')
        return s

    def key(self):
        return hashlib.sha1(json.dumps(self.to_json(), sort_keys=True).encode()).hexdigest()


# ------------------------------------------------------------------------------------------------
def gen_file(rng, big=False):
    n = rng.choice([0, 1, 5, 17, 40]) if not big else rng.choice([4095, 4096, 4097, 12288, 12289, 28672, 28673])
    return {'k': 'file', 'data': bytes(rng.randrange(97, 123) for _ in range(n)), 'mtime_ns': rng.choice(MTIMES)}


def gen_tree(rng, max_entries=10, depth=3, links=True, root_kind='dir', p_big=0.05):
    if root_kind == 'file':
        return {'': gen_file(rng, big=rng.random() < p_big)}
    if root_kind == 'link':
        return {'': {'k': 'link', 'text': rng.choice([b'../outside/target.txt', b'../outside/dir', b'nonexistent'])}}
    t = {'': {'k': 'dir'}}
    dirs = ['']
    for _ in range(rng.randrange(0, max_entries + 1)):
        d = rng.choice(dirs)
        name = rng.choice(NAMES)
        p = (d + '/' if d else '') + name
        if p in t or p.count('/') >= depth:
            continue
        r = rng.random()
        if r < 0.25:
            t[p] = {'k': 'dir'}
            dirs.append(p)
        elif r < 0.4 and links:
            t[p] = {'k': 'link', 'text': rng.choice(LINK_TEXTS + [b'../outside/target.txt', b'../outside/dir', b'../../outside/dir'])}
        else:
            t[p] = gen_file(rng, big=rng.random() < p_big)
    return t


def subtree_paths(t, p):
    return [q for q in t if q == p or q.startswith(p + '/')]


def derive_dest(rng, src, p_absent=0.15):
    """A destination derived from the source by a random edit script."""
    if rng.random() < p_absent:
        return {}
    d = {k: dict(v) for k, v in src.items()}
    for p in sorted(src, key=lambda x: (x.count('/'), x)):
        if p == '' or p not in d:
            continue
        r = rng.random()
        n = d[p]
        if r < 0.15:                                   # missing on dest
            for q in subtree_paths(d, p):
                d.pop(q, None)
        elif r < 0.45 and n['k'] == 'file':            # retime / recontent
            kind = rng.choice(['newer', 'older', 'same', 'same'])
            if kind == 'newer':
                n['mtime_ns'] = n['mtime_ns'] + rng.choice([1, 10**9])
            elif kind == 'older':
                n['mtime_ns'] = n['mtime_ns'] - rng.choice([1, 10**9])
                if n['mtime_ns'] < 0:          # pre-epoch times are C18's domain (F8), not the core's
                    n['mtime_ns'] = 0
                    d[p] = n
                    continue
            if rng.random() < 0.7:
                n['data'] = bytes(rng.randrange(65, 91) for _ in range(rng.choice([0, 3, 50])))
        elif r < 0.6:                                  # kind swap
            for q in subtree_paths(d, p):
                if q != p:
                    d.pop(q, None)
            newk = rng.choice(['file', 'dir', 'link'])
            if newk == 'file':
                d[p] = gen_file(rng)
            elif newk == 'dir':
                d[p] = {'k': 'dir'}
                if rng.random() < 0.5:
                    d[p + '/' + rng.choice(NAMES)] = gen_file(rng)
            else:
                d[p] = {'k': 'link', 'text': rng.choice(LINK_TEXTS + [b'../outside/target.txt', b'../outside/dir'])}
        elif r < 0.68 and n['k'] == 'link':            # retarget
            n['text'] = rng.choice(LINK_TEXTS)
    # extra destination entries
    dirs = [p for p, n in d.items() if n['k'] == 'dir']
    for _ in range(rng.randrange(0, 4)):
        if not dirs:
            break
        par = rng.choice(dirs)
        p = (par + '/' if par else '') + rng.choice(NAMES + ['extra', 'x'])
        if p in d or p.count('/') >= 3:
            continue
        r = rng.random()
        if r < 0.3:
            d[p] = {'k': 'dir'}
            dirs.append(p)
        elif r < 0.45:
            d[p] = {'k': 'link', 'text': rng.choice(LINK_TEXTS + [b'../outside/dir'])}
        else:
            d[p] = gen_file(rng)
    return d


OUTSIDE = {'': {'k': 'dir'}, 'target.txt': {'k': 'file', 'data': b'outside-target', 'mtime_ns': T0 - 5},
           'dir': {'k': 'dir'}, 'dir/inner.txt': {'k': 'file', 'data': b'outside-inner', 'mtime_ns': T0 - 6},
           'dir/a': {'k': 'file', 'data': b'outside-a', 'mtime_ns': T0 - 7}}


def gen_scenario(rng, profile='mixed', p_big=0.05):
    sc = Scenario()
    sc.outside = {k: dict(v) for k, v in OUTSIDE.items()}
    rk = rng.random()
    root_kind = 'dir' if rk < 0.8 else ('file' if rk < 0.92 else 'link')
    sc.src = gen_tree(rng, root_kind=root_kind, p_big=p_big)
    sc.dest = derive_dest(rng, sc.src)
    if rng.random() < 0.12 and sc.dest:                # conflicting destination root
        k = rng.choice(['file', 'dir', 'link'])
        sc.dest = gen_tree(rng, max_entries=3, root_kind=k)
    if not sc.dest and rng.random() < 0.4:
        sc.dest_anc = 'missing'
    if profile == 'clean':                            # no prompts, everything permitted
        sc.cfg = {'newer': 'A', 'older': 'A', 'same': rng.choice(['S', 'S', 'A']), 'entry': 'A', 'root': 'A'}
    else:
        sc.cfg = {'newer': rng.choice(BEH), 'older': rng.choice(BEH + ['A']), 'same': rng.choice(BEH + ['S', 'S']),
                  'entry': rng.choice(BEH + ['A']), 'root': rng.choice(BEH)}
        sc.answers = [rng.choice(['o1', 'o0', 'a1', 'a0', 'c', 'o1', 'o1']) for _ in range(rng.randrange(0, 6))]
    sc.dry = rng.random() < 0.15 if profile != 'clean' else False
    # filters: exclusion by exact relative path or by name (a verdict table is handed to the model)
    if rng.random() < 0.3:
        allp = sorted(set(sc.src) | set(sc.dest))
        cand = [p for p in allp if p]
        if cand:
            choice = rng.sample(cand, min(len(cand), rng.randrange(1, 3)))
            mode = rng.random()
            if mode < 0.5:
                sc.filters = ['-' + re.escape(p) for p in choice]
                sc.excluded = sorted(choice)
            else:
                nm = choice[0].split('/')[-1]
                sc.filters = ['-(.*/)?' + re.escape(nm)]
                sc.excluded = sorted(p for p in allp if p and p.split('/')[-1] == nm)
    return sc


def gen_faulty(rng):
    """A scenario with multi-chunk files and a random fault plan: failing destination commands, failing
    writes inside a chunk, failing source reads."""
    sc = gen_scenario(rng, 'clean' if rng.random() < 0.7 else 'mixed', p_big=0.45)
    k = rng.random()
    fd = sorted(rng.sample(range(0, 10), rng.choice([0, 0, 1, 1, 2])))
    fw = sorted(rng.sample(range(0, 8), rng.choice([0, 1, 1, 2])))
    fsrc = sorted(rng.sample(range(0, 4), rng.choice([0, 0, 0, 1])))
    if k < 0.15:
        fd, fsrc = [], []
    sc.faults = {'fd': fd, 'fsrc': fsrc, 'lag': 0, 'fw': fw}
    return sc


# ------------------------------------------------------------------------------------------------
def link_kind(path):
    try:
        st = os.stat(path)
    except OSError:
        return 'u'
    return 'd' if stat.S_ISDIR(st.st_mode) else ('f' if stat.S_ISREG(st.st_mode) else 'u')


def tree_tokens(tree, root_abs):
    """Model tokens for a tree as it exists on disk (link kinds resolved in the sandbox)."""
    toks = []
    for rel in sorted(tree, key=lambda x: (x.count('/') if x else -1, x)):
        n = tree[rel]
        hp = hexs(rel)
        if n['k'] == 'dir':
            toks += ['D', hp]
        elif n['k'] == 'file':
            toks += ['F', hp, str(n['mtime_ns']), hexs(e2e.file_bytes(n))]
        elif n['k'] == 'link':
            p = root_abs if rel == '' else os.path.join(root_abs, rel)
            toks += ['L', hp, hexs(n['text']), link_kind(p)]
    return toks


def bfs_order(root_abs):
    """Relative paths in the order the (single-threaded) walker emits them: directories are
    processed first-in first-out, entries inside a directory in read_dir order (os.scandir uses the
    same getdents order as Rust's read_dir on an unchanged directory)."""
    out = []
    try:
        if not stat.S_ISDIR(os.lstat(root_abs).st_mode):
            return out
    except OSError:
        return out
    queue = ['']
    while queue:
        d = queue.pop(0)
        try:
            ents = list(os.scandir(os.path.join(root_abs, d) if d else root_abs))
        except OSError:
            continue
        for e in ents:
            rel = (d + '/' if d else '') + e.name
            out.append(rel)
            if e.is_dir(follow_symlinks=False):
                queue.append(rel)
    return out


def model_line(sc, src_abs, dest_abs, orders=None):
    c = sc.cfg
    cfg = ','.join(['0', 'U', c['newer'], c['older'], c['same'], c['entry'], c['root'], '1' if sc.dry else '0'])
    parts = ['RUN', 'cfg=' + cfg, 'anc=' + sc.dest_anc, 'ans=' + (','.join(sc.answers) or '-'), 'bits=-',
             'ex=' + (';'.join(hexs(p) for p in sc.excluded) or '-'),
             'fd=' + (','.join(map(str, sc.faults['fd'])) or '-'), 'fsrc=' + (','.join(map(str, sc.faults['fsrc'])) or '-'),
             'lag=%d' % sc.faults['lag'], 'fw=' + (','.join(map(str, sc.faults.get('fw', []))) or '-'),
             'stop=' + ('-' if sc.faults.get('stop') is None else str(sc.faults['stop'])), 'S'] + tree_tokens(sc.src, src_abs) + ['E', 'D'] + tree_tokens(sc.dest, dest_abs) + ['E']
    if orders:
        parts += ['LS'] + [hexs(p) for p in orders[0]] + ['E', 'LD'] + [hexs(p) for p in orders[1]] + ['E']
    return ' '.join(parts)


def parse_model(line):
    kv = dict(t.split('=', 1) for t in line.split())
    def lst(k, sep=','):
        return [] if kv[k] == '-' else kv[k].split(sep)
    fs = {}
    for ent in lst('fs', ';'):
        f = ent.split(':')
        rel = '' if f[1] == '-' else bytes.fromhex(f[1]).decode('latin1')
        if f[0] == 'D':
            fs[rel] = ('dir',)
        elif f[0] == 'L':
            fs[rel] = ('link', b'' if f[2] == '-' else bytes.fromhex(f[2]))
        else:
            data = b'' if f[4] == '-' else bytes.fromhex(f[4])
            fs[rel] = ('file', len(data), hashlib.sha256(data).hexdigest(), int(f[3]) if f[2] == 'set' else None)
    return {'ok': kv['ok'] == '1', 'cf': kv['cf'] == '1', 'rootskip': kv['rootskip'] == '1', 'panic': kv['panic'] == '1',
            'srcfail': kv['srcfail'] == '1', 'errs': lst('errs'), 'prompts': lst('prompts'), 'skipped': lst('skipped'),
            'stats': [int(x) for x in kv['stats'].split(',')], 'events': lst('events'), 'anc': kv['anc'],
            'would': lst('would'), 'src': lst('src'), 'dest': lst('dest'), 'fs': fs}


PROMPT_RE = {'R': 'needs deleting as it is incompatible', 'D': 'needs deleting (as it doesn.t exist|to allow)',
             'newer': 'is newer than', 'older': 'is older than', 'same': 'has the same modified time'}


def prompt_env(model_prompts, answers):
    """RJRSSYNC_TEST_PROMPT_RESPONSE for the predicted prompt kinds and the scenario's answers."""
    ents = []
    for i, p in enumerate(model_prompts):
        a = answers[i] if i < len(answers) else 'c'
        f = p.split(':')
        kind = f[0] if f[0] in ('R', 'D') else None
        if f[0] == 'C':
            kind = f[2]
        if f[0] == 'R':
            label = {'o1': 'Delete', 'a1': 'Delete', 'o0': 'Skip', 'a0': 'Skip', 'c': 'Cancel sync'}[a]
        else:
            verb = 'Delete' if f[0] == 'D' else 'Overwrite'
            label = {'o1': verb + ' (just this occurence)', 'a1': verb + ' (all occurences)', 'o0': 'Skip (just this occurence)',
                     'a0': 'Skip (all occurences)', 'c': 'Cancel sync'}[a]
        ents.append('1:%s:%s' % (PROMPT_RE[kind], label))
    return ','.join(ents)


def canon_trace(cmd_lines, which):
    """Canonical mutating trace of one doer from the RJRSSYNC_VERIF_CMD_LOG lines."""
    out, cur = [], None
    allc = []
    for l in cmd_lines:
        m = re.match(r'"([^"]*)" (.*)$', l)
        if not m:
            continue
        name, rest = m.group(1), m.group(2).split()
        if which not in name or not rest:
            continue
        if len(rest) < {'CreateOrUpdateFile': 5, 'CreateSymlink': 4}.get(rest[0], 2 if rest[0].startswith(('Create', 'Delete', 'GetFile')) and rest[0] != 'CreateRootAncestors' else 1):
            continue                     # a truncated log line (the log itself hit a file-size limit)
        allc.append(rest[0])
        k = rest[0]
        if k == 'CreateOrUpdateFile':
            p, ln, mt, more = rest[1], int(rest[2]), rest[3], rest[4]
            if cur and cur[1] == p:
                cur[2] += ln
            else:
                cur = ['W', p, ln, None]
                out.append(cur)
            if more == '0':
                cur[3] = mt
                cur = None
            continue
        cur = None
        if k in ('SetRoot', 'GetEntries', 'Marker', 'Shutdown', 'ProfilingTimeSync'):
            continue
        if k == 'CreateRootAncestors':
            out.append(['Anc'])
        elif k == 'GetFileContent':
            out.append(['Get', rest[1]])
        elif k == 'CreateFolder':
            out.append(['Mk', rest[1]])
        elif k == 'CreateSymlink':
            out.append(['Lnk', rest[1], rest[3]])
        elif k == 'DeleteFile':
            out.append(['RmF', rest[1]])
        elif k == 'DeleteFolder':
            out.append(['RmD', rest[1]])
        elif k == 'DeleteSymlink':
            out.append(['RmL', rest[1]])
    return [tuple(x) for x in out], allc


def canon_model_trace(cmds):
    out, cur = [], None
    for c in cmds:
        f = c.split(':')
        if f[0] == 'W':
            p, ln, mt, more = f[1], int(f[2]), f[3], f[4]
            if cur and cur[1] == p:
                cur[2] += ln
            else:
                cur = ['W', p, ln, None]
                out.append(cur)
            if more == '0':
                cur[3] = mt
                cur = None
            continue
        cur = None
        if f[0] in ('SetRoot', 'GetEntries', 'Marker', 'Shutdown'):
            continue
        if f[0] == 'Anc':
            out.append(['Anc'])
        elif f[0] == 'Get':
            out.append(['Get', f[1]])
        elif f[0] == 'Mk':
            out.append(['Mk', f[1]])
        elif f[0] == 'Lnk':
            out.append(['Lnk', f[1], f[3]])
        elif f[0] in ('RmF', 'RmD'):
            out.append([f[0], f[1]])
        elif f[0] == 'RmL':
            out.append(['RmL', f[1]])
    return [tuple(x) for x in out]


class Outcome:
    pass


def cli_args(sc, src_abs, dest_abs):
    args = []
    pre_s = 'localhost:' if sc.placement[0] == 'R' else ''
    pre_d = 'localhost:' if sc.placement[1] == 'R' else ''
    args += [pre_s + src_abs, pre_d + dest_abs]
    for b, flag in (('newer', '--dest-file-newer'), ('older', '--dest-file-older'), ('same', '--files-same-time'),
                    ('entry', '--dest-entry-needs-deleting'), ('root', '--dest-root-needs-deleting')):
        v = sc.cfg[b]
        word = {'P': 'prompt', 'E': 'error', 'S': 'skip', 'A': 'delete' if b in ('entry', 'root') else 'overwrite'}[v]
        args += [flag, word]
    if sc.dry:
        args.append('--dry-run')
    for f in sc.filters:
        args += ['--filter', f]
    return args


def make_sandbox(sc, base):
    """Builds outside/, src/ and (if any) dest/ for the scenario; returns (root, src_abs, dest_abs)."""
    root = tempfile.mkdtemp(prefix='sc_', dir=base)
    e2e.build_tree(os.path.join(root, 'outside'), sc.outside or {'': {'k': 'dir'}})
    src_abs = os.path.join(root, 'src')
    e2e.build_tree(src_abs, sc.src)
    dparent = root if sc.dest_anc == 'ok' else os.path.join(root, 'missing1', 'missing2')
    dest_abs = os.path.join(dparent, 'dest')
    if sc.dest:
        e2e.build_tree(dest_abs, sc.dest)
    return root, src_abs, dest_abs


def run_scenario(sc, binary, jbin, base, fake_ssh=None, timeout=60, extra_env=None, keep=False, ulimit_f=None):
    """Builds the sandbox under `base`, asks the model, runs the CLI, returns an Outcome with
    .impl (observation dict), .model (parsed model answer), .mismatch (list of strings)."""
    o = Outcome()
    root = tempfile.mkdtemp(prefix='sc_', dir=base)
    try:
        e2e.build_tree(os.path.join(root, 'outside'), sc.outside or {'': {'k': 'dir'}})
        src_abs = os.path.join(root, 'src')
        e2e.build_tree(src_abs, sc.src)
        dparent = root if sc.dest_anc == 'ok' else os.path.join(root, 'missing1', 'missing2')
        dest_abs = os.path.join(dparent, 'dest')
        if sc.dest:
            e2e.build_tree(dest_abs, sc.dest)
        before = {'src': e2e.snapshot(src_abs), 'dest': e2e.snapshot(dest_abs), 'outside': e2e.snapshot(os.path.join(root, 'outside'))}
        orders = (bfs_order(src_abs), bfs_order(dest_abs))
        o.root, o.src_abs, o.dest_abs, o.orders = root, src_abs, dest_abs, orders
        mline = model_line(sc, src_abs, dest_abs, orders)
        o.model_line = mline
        o.model = parse_model(vlib.judge(jbin, [mline])[0])
        env = {'RJRSSYNC_TEST_PROMPT_RESPONSE': prompt_env(o.model['prompts'], sc.answers),
               'RJRSSYNC_VERIF_CMD_LOG': os.path.join(root, 'cmdlog')}
        fl = ['cmd:%d:error' % k for k in sc.faults['fd']] + ['get:%d:error' % k for k in sc.faults['fsrc']] \
            + ['write:%d:fail' % k for k in sc.faults.get('fw', [])]
        if fl:
            env['RJRSSYNC_VERIF_FAULTS'] = ','.join(fl)
        if extra_env:
            env.update(extra_env)
        args = cli_args(sc, src_abs, dest_abs)
        r = e2e.run_cli(binary, args, env=env, timeout=timeout, fake_ssh=fake_ssh if 'R' in sc.placement else None, ulimit_f=ulimit_f)
        text = r['stdout'] + r['stderr']
        after = {'src': e2e.snapshot(src_abs), 'dest': e2e.snapshot(dest_abs), 'outside': e2e.snapshot(os.path.join(root, 'outside'))}
        try:
            cmdlog = open(os.path.join(root, 'cmdlog')).read().splitlines()
        except OSError:
            cmdlog = []
        dest_tr, dest_all = canon_trace(cmdlog, 'dest')
        src_tr, src_all = canon_trace(cmdlog, 'src')
        o.impl = {'exit': r['exit'], 'timed_out': r['timed_out'], 'out': e2e.parse_output(text), 'text': text[-3000:],
                  'before': before, 'after': after, 'dest_trace': dest_tr, 'src_trace': src_tr,
                  'dest_cmds': dest_all, 'src_cmds': src_all,
                  'anc_created': os.path.isdir(dparent) and sc.dest_anc == 'missing',
                  'nprompts': len(ANSI_PROMPT.findall(r['stdout']))}
        o.mismatch = compare(sc, o)
        o.lag = sc.faults['lag']
        o.stop = sc.faults.get('stop')
        if o.mismatch and (o.model['errs'] or o.model['srcfail']):
            # an asynchronous destination error is noticed by the boss after a timing-dependent number of
            # further steps, and when the boss gives up (source failure, noticed error) the destination doer
            # may not yet have executed everything that was sent to it: the model admits every lag and every
            # stopping point; find the ones this run took
            first = o.model
            MUT = ('CreateRootAncestors', 'CreateOrUpdateFile', 'CreateSymlink', 'CreateFolder', 'DeleteFile', 'DeleteFolder', 'DeleteSymlink')
            n_mut = sum(1 for c in o.impl['dest_cmds'] if c in MUT)
            found = False
            stops = [sc.faults.get('stop')] + ([n_mut] if sc.faults.get('stop') is None and sc.placement[1] != 'R' else [])
            for stop in stops:
                prev = None
                for lag in range(0, 200):
                    if stop == sc.faults.get('stop') and lag == sc.faults['lag']:
                        continue
                    sc2 = Scenario.from_json(sc.to_json())
                    sc2.faults = dict(sc.faults, lag=lag, stop=stop)
                    m2 = parse_model(vlib.judge(jbin, [model_line(sc2, src_abs, dest_abs, orders)])[0])
                    o.model = m2
                    mm = compare(sc, o)
                    if not mm:
                        o.mismatch, o.lag, o.stop = [], lag, stop
                        found = True
                        break
                    if lag > 1 and m2 == prev:
                        break
                    prev = m2
                if found:
                    break
            if o.mismatch:
                o.model = first
                o.mismatch = compare(sc, o)
        return o
    finally:
        if not keep:
            shutil.rmtree(root, ignore_errors=True)


ANSI_PROMPT = re.compile(r'What do\?')


def diff_dest(md, idest):
    """Model file system (parse_model 'fs') against a snapshot of the real destination."""
    mm = []
    for p in sorted(set(md) | set(idest)):
        a, b = idest.get(p), md.get(p)
        if a is None or b is None or a[0] != b[0]:
            mm.append('dest %r: impl %s model %s' % (p, a and a[0], b and b[0]))
            continue
        if a[0] == 'file':
            if a[1] != b[1] or a[2] != b[2]:
                mm.append('dest file %r content differs (len %s vs %s)' % (p, a[1], b[1]))
            if b[3] is not None and a[3] != b[3]:
                mm.append('dest file %r mtime impl %s model %s' % (p, a[3], b[3]))
        elif a[0] == 'link' and a[1] != b[1]:
            mm.append('dest link %r text impl %r model %r' % (p, a[1], b[1]))
    return mm


def compare(sc, o):
    """Correspondence between the implementation's observation and the model's prediction."""
    mm = []
    m, im = o.model, o.impl
    if im['timed_out']:
        return ['implementation timed out']
    want_exit = 0 if m['ok'] else 12
    if m['panic']:
        mm.append('model predicts a panic')
    if im['exit'] != want_exit:
        mm.append('exit %s, model %s' % (im['exit'], want_exit))
    # destination tree (when the model logs that an effect went THROUGH a destination link - the F6b class - the
    # effect itself lies beyond the model's tree and the tree is not compared; the traces still are)
    if not any(e.startswith('T:') for e in m['events']):
        mm += diff_dest(m['fs'], im['after']['dest'])
    # traces: exact sequences (the model is given the real per-side listing orders).  A remote doer is another
    # process whose command log is not collected: its trace is not compared (the trees, exit and summary are).
    mt = canon_model_trace(m['dest'])
    if sc.placement[1] != 'R' and mt != im['dest_trace']:
        mm.append('dest trace differs: impl %s model %s' % (im['dest_trace'][:12], mt[:12]))
    ms = canon_model_trace(m['src'])
    if sc.placement[0] != 'R' and ms != im['src_trace']:
        mm.append('src trace differs: impl %s model %s' % (im['src_trace'][:12], ms[:12]))
    if len(m['prompts']) != im['nprompts']:
        mm.append('prompts: impl %d model %d' % (im['nprompts'], len(m['prompts'])))
    # summary (only printed on success)
    if m['ok'] and not m['rootskip']:
        st = m['stats']
        out = im['out']
        dele = out['deleted'] or {'files': 0, 'folders': 0, 'symlinks': 0}
        cop = out['copied'] or {'files': 0, 'folders': 0, 'symlinks': 0}
        got = [dele['files'], dele['folders'], dele['symlinks'], cop['files'], cop['folders'], cop['symlinks']]
        want = [st[0], st[2], st[3], st[4], st[6], st[7]]
        if got != want:
            mm.append('summary counts impl %s model %s' % (got, want))
        if out['nothing'] != (sum(want) == 0):
            mm.append('nothing-to-do impl %s model %s' % (out['nothing'], sum(want) == 0))
        if sc.dry and len(out['would']) != len(m['would']):
            mm.append('would lines impl %d model %d' % (len(out['would']), len(m['would'])))
    # events: Through q in the model <=> something outside changed (only detectable for populated decoys)
    if im['after']['outside'] != im['before']['outside'] and not any(e.startswith('T:') for e in m['events']):
        mm.append('outside changed but the model has no Through event')
    if (m['anc'] == 'ok') != (not (sc.dest_anc == 'missing') or im['anc_created']):
        mm.append('ancestors: impl created=%s model %s' % (im['anc_created'], m['anc']))
    return mm
