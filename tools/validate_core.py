#!/usr/bin/env python3
"""validate_core.py [seed] [n] [profile]: model-vs-implementation agreement of the core sync model on random
scenarios (exit code, final trees, exact command traces, prompts, summaries).  A development aid: the
registered checks run the same comparison through their own plug-ins."""
import sys, os, random, tempfile, shutil, json
sys.path.insert(0, os.path.dirname(os.path.abspath(__file__)))
import vlib, e2e, sync_e2e
from collections import Counter

def main():
    seed = int(sys.argv[1]) if len(sys.argv) > 1 else 1
    n = int(sys.argv[2]) if len(sys.argv) > 2 else 100
    profile = sys.argv[3] if len(sys.argv) > 3 else 'auto'
    binary = vlib.build_impl()
    vlib.build_coq(['theories/Extract/Ex_sync.vo'])
    jbin = vlib.build_judge('sync')
    base = tempfile.mkdtemp(prefix='val_', dir=vlib.CACHE)
    rng = random.Random(seed)
    bad, cnt = 0, Counter()
    for i in range(n):
        if profile == 'faulty' or (profile == 'auto' and i % 3 == 2):
            sc = sync_e2e.gen_faulty(rng)
        else:
            sc = sync_e2e.gen_scenario(rng, 'mixed' if i % 2 else 'clean')
        o = sync_e2e.run_scenario(sc, binary, jbin, base)
        cnt['exit%s' % o.impl['exit']] += 1
        cnt['errs:' + ','.join(sorted(set(o.model['errs'])))] += 1
        if o.mismatch:
            bad += 1
            cnt[o.mismatch[0][:40]] += 1
            json.dump(sc.to_json(), open(os.path.join(vlib.CACHE, 'valfail_%d_%d.json' % (seed, i)), 'w'))
            if bad <= 4:
                print('---- case', i, o.mismatch[:4]); print(json.dumps(sc.to_json())[:1500]); print(o.impl['text'][-600:])
                print('MODEL', {k: v for k, v in o.model.items() if k != 'fs'})
    print('bad', bad, 'of', n); print(cnt.most_common(30))
    shutil.rmtree(base)
    return 1 if bad else 0

if __name__ == '__main__':
    sys.exit(main())
