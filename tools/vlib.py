"""Shared machinery of the rjrssync verification checks.

Everything a property plug-in (tools/props/cNN.py) needs:
  * build the implementation from /repo's working tree with the hooks on (flock, cached by cargo),
  * regenerate Gen/Facts.v from the running code and (re)build the Coq development,
  * audit the development (forbidden tokens, Print Assumptions against an allow-list),
  * build and talk to the extracted OCaml judges and the in-crate harness,
  * the verdict protocol (VIOLATION / KNOWN-FINDING lines, replay files, evidence files).
"""
import os, sys, json, time, subprocess, hashlib, fcntl, glob, re, random, shutil, tempfile, contextlib

VERIF = os.path.dirname(os.path.dirname(os.path.abspath(__file__)))
REPO = os.environ.get('VERIF_REPO', '/repo')
CACHE = os.path.join(VERIF, '.cache')
TARGET = os.path.join(CACHE, 'target')
HARNESS_GEN = os.path.join(CACHE, 'harness_gen')
COQ = os.path.join(VERIF, 'coq')
BIN = os.path.join(CACHE, 'bin')
GUARD = 'rjrssync_verif'
NPROC = os.cpu_count() or 4

FORBIDDEN = re.compile(r'\b(Admitted|admit|Axiom|Axioms|Parameter|Parameters|Conjecture|Conjectures|Hypothesis|Hypotheses|Variable|Variables)\b|Unset\s+Guard|bypass_check|type-in-type|impredicative-set|Admit Obligations|Unset\s+Positivity|Unset\s+Universe')
# Variable/Hypothesis are legal inside a Section; files using sections are audited by Print Assumptions
# instead (a section variable never shows up there, a global one would).
SECTION_OK = re.compile(r'\b(Variable|Variables|Hypothesis|Hypotheses)\b')

ALLOWED_AXIOMS = set()   # none: every property theorem must be closed under the global context


class BrokenTie(Exception):
    """The tie between model and code could not be established (build failure, harness failure)."""


def log(*a):
    print('[check]', *a, file=sys.stderr, flush=True)


def sh(cmd, timeout=None, cwd=None, env=None, check=True, input=None):
    e = dict(os.environ)
    e.update({'CARGO_NET_OFFLINE': 'true'})
    if env:
        e.update(env)
    p = subprocess.run(cmd, shell=isinstance(cmd, str), cwd=cwd, env=e, timeout=timeout,
                       stdout=subprocess.PIPE, stderr=subprocess.STDOUT, input=input, text=True)
    if check and p.returncode != 0:
        raise subprocess.CalledProcessError(p.returncode, cmd, p.stdout)
    return p


@contextlib.contextmanager
def locked(name):
    os.makedirs(CACHE, exist_ok=True)
    f = open(os.path.join(CACHE, name + '.lock'), 'w')
    fcntl.flock(f, fcntl.LOCK_EX)
    try:
        yield
    finally:
        fcntl.flock(f, fcntl.LOCK_UN)
        f.close()


# ------------------------------------------------------------------------------------------------
# implementation build
def build_impl(release=False):
    """cargo build of /repo's working tree with --cfg rjrssync_verif. Returns the binary path."""
    sys.path.insert(0, os.path.join(VERIF, 'tools'))
    import gen_harness
    with locked('cargo'):
        gen_harness.generate(VERIF, HARNESS_GEN)
        cmd = ['cargo', 'build', '--offline', '--target-dir', TARGET]
        if release:
            cmd.append('--release')
        t0 = time.time()
        p = sh(cmd, cwd=REPO, timeout=1500, check=False,
               env={'RUSTFLAGS': '--cfg ' + GUARD, 'RJRSSYNC_VERIF_HARNESS': HARNESS_GEN})
        if p.returncode != 0:
            errs = [l for l in p.stdout.splitlines() if l.startswith('error')]
            raise BrokenTie('implementation does not build with the hooks on: ' + '; '.join(errs[:5]) +
                            '\n' + p.stdout[-3000:])
        log('impl build %s %.1fs' % ('release' if release else 'debug', time.time() - t0))
    return os.path.join(TARGET, 'release' if release else 'debug', 'rjrssync')


def harness(binary, sub, lines=None, args=(), timeout=600, env=None):
    """Run `rjrssync --verif-harness <sub> args...` feeding `lines` on stdin; returns stdout lines."""
    inp = None if lines is None else '\n'.join(lines) + '\n'
    e = dict(os.environ)
    if env:
        e.update(env)
    p = subprocess.run([binary, '--verif-harness', sub] + list(args), input=inp, text=True, timeout=timeout,
                       stdout=subprocess.PIPE, stderr=subprocess.PIPE, env=e)
    if p.returncode != 0:
        raise BrokenTie('harness %s exited %d: %s' % (sub, p.returncode, p.stderr[-2000:]))
    return p.stdout.splitlines()


# ------------------------------------------------------------------------------------------------
# Coq build
def regen_facts(binary):
    out = harness(binary, 'facts')
    sys.path.insert(0, os.path.join(VERIF, 'tools'))
    import gen_facts
    new = gen_facts.generate('\n'.join(out) + '\n')
    dst = os.path.join(COQ, 'theories', 'Gen', 'Facts.v')
    try:
        old = open(dst).read()
    except OSError:
        old = None
    if old != new:
        os.makedirs(os.path.dirname(dst), exist_ok=True)
        with open(dst, 'w') as f:
            f.write(new)
        log('Gen/Facts.v changed')
    # cluster facts: every harness sub-command harness/subs/facts_<cluster>.rs -> Gen/Facts_<cluster>.v
    for sub in sorted(glob.glob(os.path.join(VERIF, 'harness', 'subs', 'facts_*.rs'))):
        cl = os.path.basename(sub)[len('facts_'):-3]
        text = '\n'.join(harness(binary, 'facts-' + cl)) + '\n'
        new = gen_facts.generate_generic(text)
        dst = os.path.join(COQ, 'theories', 'Gen', 'Facts_%s.v' % cl)
        try:
            old = open(dst).read()
        except OSError:
            old = None
        if old != new:
            with open(dst, 'w') as f:
                f.write(new)
            log('Gen/Facts_%s.v changed' % cl)
    regen_trans()
    return out


TRANS_STATE = {'applicable': None, 'note': 'not run'}


def regen_trans():
    """Gen/FactsTransPlan.v: the planner's decision and step functions translated from the SOURCE TEXT of
    src/boss_sync.rs as it is now (tools/rs2coq.py).  When the source is outside the translator's subset the file holds
    the model's own definitions and says so (trans_applicable = false); the tie is then the differential one alone."""
    sys.path.insert(0, os.path.join(VERIF, 'tools'))
    import rs2coq
    text, ok, note = rs2coq.generate(REPO)
    dst = os.path.join(COQ, 'theories', 'Gen', 'FactsTransPlan.v')
    try:
        old = open(dst).read()
    except OSError:
        old = None
    if old != text:
        os.makedirs(os.path.dirname(dst), exist_ok=True)
        with open(dst, 'w') as f:
            f.write(text)
        log('Gen/FactsTransPlan.v changed (%s)' % note)
    TRANS_STATE['applicable'], TRANS_STATE['note'] = ok, note
    text2, ok2, note2 = rs2coq.generate_relpath(REPO)
    dst2 = os.path.join(COQ, 'theories', 'Gen', 'FactsTransPath.v')
    try:
        old2 = open(dst2).read()
    except OSError:
        old2 = None
    if old2 != text2:
        with open(dst2, 'w') as f:
            f.write(text2)
        log('Gen/FactsTransPath.v changed (%s)' % note2)
    TRANS_STATE['path_applicable'], TRANS_STATE['path_note'] = ok2, note2
    return ok, note


def coq_project():
    files = sorted(glob.glob(os.path.join(COQ, 'theories', '**', '*.v'), recursive=True))
    text = '-Q theories RJ\n' + '\n'.join(os.path.relpath(f, COQ) for f in files) + '\n'
    p = os.path.join(COQ, '_CoqProject')
    try:
        old = open(p).read()
    except OSError:
        old = None
    if old != text or not os.path.exists(os.path.join(COQ, 'Makefile')):
        with open(p, 'w') as f:
            f.write(text)
        sh(['coq_makefile', '-f', '_CoqProject', '-o', 'Makefile'], cwd=COQ)
    os.makedirs(os.path.join(COQ, 'extracted'), exist_ok=True)


def build_coq(targets=None, timeout=1500):
    """make the given .vo targets (paths relative to coq/, e.g. theories/Props/C16.vo) or everything.
    Returns (ok, log_text)."""
    with locked('coq'):
        coq_project()
        cmd = ['make', '-j%d' % NPROC] + (list(targets) if targets else [])
        t0 = time.time()
        try:
            p = sh(cmd, cwd=COQ, timeout=timeout, check=False)
        except subprocess.TimeoutExpired:
            return False, 'coq build timed out after %ds' % timeout
        log('coq build %s %.1fs rc=%d' % (' '.join(targets or ['all']), time.time() - t0, p.returncode))
        return p.returncode == 0, p.stdout


def coq_sources_in_cone(prop_vo):
    """The .v files the given Props .vo depends on (through coqdep's .Makefile.d)."""
    dfile = os.path.join(COQ, '.Makefile.d')
    deps = {}
    if os.path.exists(dfile):
        for line in open(dfile):
            if ':' not in line:
                continue
            lhs, rhs = line.split(':', 1)
            tgts = lhs.split()
            for t in tgts:
                if t.endswith('.vo'):
                    deps[t] = [x for x in rhs.split() if x.endswith('.vo') and x.startswith('theories/')]
    seen, todo = set(), [prop_vo]
    while todo:
        t = todo.pop()
        if t in seen:
            continue
        seen.add(t)
        todo.extend(deps.get(t, []))
    return sorted(x[:-1] for x in seen)   # .vo -> .v


def audit_sources(vfiles):
    """Forbidden-token audit. Returns list of 'file:line: text' hits."""
    hits = []
    for vf in vfiles:
        path = os.path.join(COQ, vf)
        try:
            text = open(path).read()
        except OSError:
            continue
        # strip comments (non-nested is enough for our sources; nested handled by a counter)
        out, depth, i = [], 0, 0
        while i < len(text):
            if text.startswith('(*', i):
                depth += 1; i += 2; continue
            if text.startswith('*)', i) and depth > 0:
                depth -= 1; i += 2; continue
            out.append(text[i] if depth == 0 or text[i] == '\n' else ' ')
            i += 1
        code = ''.join(out)
        in_section = 0
        for n, line in enumerate(code.splitlines(), 1):
            if re.match(r'\s*Section\b', line):
                in_section += 1
            if re.match(r'\s*End\b', line) and in_section > 0:
                in_section -= 1
            m = FORBIDDEN.search(line)
            if m:
                if in_section > 0 and SECTION_OK.fullmatch(m.group(0) or ''):
                    continue
                hits.append('%s:%d: %s' % (vf, n, line.strip()[:120]))
    return hits


def count_obligations(vfiles):
    """Number of Lemma/Theorem/Corollary/Example/Fact/Remark statements closed by Qed/Defined in the files."""
    n = 0
    for vf in vfiles:
        try:
            text = open(os.path.join(COQ, vf)).read()
        except OSError:
            continue
        n += len(re.findall(r'^\s*(?:Local\s+|Global\s+)?(?:Lemma|Theorem|Corollary|Example|Fact|Remark|Proposition)\b', text, re.M))
    return n


def print_assumptions(module, theorems, timeout=300, pkg='Props'):
    """Ask Coq for the assumptions of each theorem of RJ.Props.<module>. Returns {thm: [axioms]}.
    Raises BrokenTie if a theorem does not exist (e.g. its proof no longer compiles)."""
    src = 'From RJ Require Import %s.%s.\n' % (pkg, module)
    for t in theorems:
        src += 'Goal True. idtac "@@BEGIN %s". Abort.\nPrint Assumptions %s.\nGoal True. idtac "@@END". Abort.\n' % (t, t)
    d = tempfile.mkdtemp(prefix='vassume', dir=CACHE)
    try:
        f = os.path.join(d, 'q.v')
        open(f, 'w').write(src)
        p = sh(['coqc', '-noglob', '-Q', os.path.join(COQ, 'theories'), 'RJ', f], timeout=timeout, check=False, cwd=d)
        if p.returncode != 0:
            raise BrokenTie('Print Assumptions failed for %s: %s' % (module, p.stdout[-1500:]))
        res, cur, buf = {}, None, []
        for line in p.stdout.splitlines():
            if line.startswith('@@BEGIN '):
                cur, buf = line.split()[1], []
            elif line.startswith('@@END'):
                txt = '\n'.join(buf)
                if 'Closed under the global context' in txt:
                    res[cur] = []
                else:
                    res[cur] = re.findall(r'^(\S+)\s*:', txt, re.M)
                cur = None
            elif cur is not None:
                buf.append(line)
        return res
    finally:
        shutil.rmtree(d, ignore_errors=True)


# ------------------------------------------------------------------------------------------------
# extracted judges
def build_judge(name, extra_ml=()):
    """Compile coq/extracted/<name>.ml + ocaml/drv_<name>.ml into .cache/bin/judge_<name>."""
    with locked('ocaml_' + name):
        src_ml = os.path.join(COQ, 'extracted', name + '.ml')
        drv = os.path.join(VERIF, 'ocaml', 'drv_%s.ml' % name)
        if not os.path.exists(src_ml):
            raise BrokenTie('extracted model %s.ml is missing (extraction did not run)' % name)
        out = os.path.join(BIN, 'judge_' + name)
        stamp = hashlib.sha256(open(src_ml, 'rb').read() + open(drv, 'rb').read()).hexdigest()
        stampf = out + '.stamp'
        if os.path.exists(out) and os.path.exists(stampf) and open(stampf).read() == stamp:
            return out
        wd = os.path.join(CACHE, 'ocaml', name)
        shutil.rmtree(wd, ignore_errors=True)
        os.makedirs(wd)
        os.makedirs(BIN, exist_ok=True)
        files = []
        for f in (src_ml[:-3] + '.mli', src_ml) + tuple(extra_ml) + (drv,):
            if os.path.exists(f):
                shutil.copy(f, wd)
                files.append(os.path.basename(f))
        p = sh(['ocamlfind', 'ocamlopt', '-w', '-a'] + files + ['-o', out], cwd=wd, check=False, timeout=600)
        if p.returncode != 0:
            raise BrokenTie('OCaml build of judge_%s failed: %s' % (name, p.stdout[-2000:]))
        open(stampf, 'w').write(stamp)
        return out


def judge(binary, lines, timeout=600):
    p = subprocess.run([binary], input='\n'.join(lines) + '\n', text=True, timeout=timeout,
                       stdout=subprocess.PIPE, stderr=subprocess.PIPE)
    if p.returncode != 0:
        raise BrokenTie('judge %s failed: %s' % (os.path.basename(binary), p.stderr[-2000:]))
    return p.stdout.splitlines()


# ------------------------------------------------------------------------------------------------
# known findings
def known_findings(prop):
    p = os.path.join(VERIF, 'known_findings.json')
    try:
        data = json.load(open(p))
    except OSError:
        return []
    return [e for e in data.get('findings', []) if e.get('property') == prop and e.get('status') == 'known']


# ------------------------------------------------------------------------------------------------
class Run:
    """Collects what a check did, and produces the verdict, replay and evidence files."""

    def __init__(self, prop, tier, seed):
        self.prop, self.tier, self.seed = prop, tier, seed
        self.t0 = time.time()
        self.rng = random.Random(seed)
        self.evaluations = 0
        self.distinct = set()
        self.samples = []
        self.distribution = {}
        self.traces_validated = 0
        self.prop_failures = []      # (what, replay dict) - property violated on the implementation
        self.known_hits = {}         # finding id -> description
        self.broken = []             # (kind, name, detail): proof obligations / correspondence cases that no longer check
        self.obligations = 0
        self.discharged = 0
        self.theorems = {}
        self.trusted = []
        self.assumptions = []
        self.notes = []
        self.checker_cmd = ''
        self.level = 'proof'
        self.extra = {}

    # --- bookkeeping
    def count(self, key, n=1):
        self.distribution[key] = self.distribution.get(key, 0) + n

    def case(self, canonical, nontrivial=True, sample=None):
        self.evaluations += 1
        if nontrivial:
            self.distinct.add(hashlib.sha1(repr(canonical).encode()).hexdigest())
        if sample is not None and len(self.samples) < 6:
            self.samples.append(sample)

    def broke(self, kind, name, detail):
        self.broken.append({'kind': kind, 'name': name, 'detail': detail})

    def fail(self, what, replay):
        self.prop_failures.append((what, replay))

    def known(self, fid, what):
        self.known_hits[fid] = what

    # --- proofs
    def check_proofs(self, module, theorems, extra_targets=()):
        """Build Props/<module>.vo (+ extraction targets), audit sources and assumptions."""
        vo = 'theories/Props/%s.vo' % module
        ok, out = build_coq([vo] + list(extra_targets))
        cone = coq_sources_in_cone(vo)
        self.obligations = count_obligations(cone) if cone else len(theorems)
        self.checker_cmd = 'make -C coq %s (coqc 8.16.1, full .vo build); coqc Print Assumptions on: %s' % (vo, ', '.join(theorems))
        if not ok:
            m = re.search(r'File "([^"]+)", line (\d+).*?\nError:?(.*?)(?:\n\n|\Z)', out, re.S)
            where = ('%s:%s %s' % (m.group(1), m.group(2), ' '.join(m.group(3).split())[:300])) if m else out[-600:]
            self.broke('proof', module, 'Coq build failed: ' + where)
            self.discharged = 0
            return False
        hits = audit_sources(cone)
        if hits:
            self.broke('proof', module, 'forbidden tokens in the development: ' + '; '.join(hits[:5]))
        try:
            ass = print_assumptions(module, theorems)
        except BrokenTie as e:
            self.broke('proof', module, str(e))
            self.discharged = 0
            return False
        bad = {t: a for t, a in ass.items() if any(x not in ALLOWED_AXIOMS for x in a)}
        missing = [t for t in theorems if t not in ass]
        self.theorems = {t: ('closed' if not ass.get(t) else 'axioms: ' + ', '.join(ass[t])) for t in theorems if t in ass}
        if bad:
            self.broke('proof', module, 'theorems depend on axioms: %r' % bad)
        if missing:
            self.broke('proof', module, 'theorems missing: %r' % missing)
        self.discharged = self.obligations if not (hits or bad or missing) else 0
        return not (hits or bad or missing)

    TRANS_THEOREMS = ['trans_needs_delete', 'trans_needs_copy_total', 'trans_process_src', 'trans_process_dest', 'trans_plan']
    TRANS_PATH_THEOREMS = ['trans_same_or_inside_value', 'trans_same_or_inside_total', 'trans_same_or_inside']

    def check_path_translation(self):
        """RootRelativePath::is_same_or_inside as regenerated from the source text of root_relative_path.rs is the component-wise prefix
        test of the model and never panics on well-formed UTF-8 (Proofs/TransPathEq.v)."""
        if TRANS_STATE.get('path_applicable') is None:
            regen_trans()
        vo = 'theories/Proofs/TransPathEq.vo'
        ok, out = build_coq([vo])
        info = {'applicable': TRANS_STATE.get('path_applicable'), 'note': TRANS_STATE.get('path_note'), 'theorems': {}}
        self.extra['translator_relpath'] = info
        self.count('path-translator-applicable' if info['applicable'] else 'path-translator-fallback')
        if not ok:
            m = re.search(r'File "([^"]+)", line (\d+).*?\nError:?(.*?)(?:\n\n|\Z)', out, re.S)
            where = ('%s:%s %s' % (m.group(1), m.group(2), ' '.join(m.group(3).split())[:300])) if m else out[-600:]
            self.broke('proof', 'TransPathEq', 'the Gallina regenerated from src/root_relative_path.rs (is_same_or_inside) is no longer provably the '
                       'component-wise prefix test of the model: ' + where)
            return False
        hits = audit_sources(coq_sources_in_cone(vo))
        if hits:
            self.broke('proof', 'TransPathEq', 'forbidden tokens in the development: ' + '; '.join(hits[:5]))
            return False
        try:
            ass = print_assumptions('TransPathEq', self.TRANS_PATH_THEOREMS, pkg='Proofs')
        except BrokenTie as e:
            self.broke('proof', 'TransPathEq', str(e))
            return False
        bad = {t: a for t, a in ass.items() if any(x not in ALLOWED_AXIOMS for x in a)}
        missing = [t for t in self.TRANS_PATH_THEOREMS if t not in ass]
        info['theorems'] = {t: ('closed' if not ass.get(t) else 'axioms: ' + ', '.join(ass[t])) for t in ass}
        if bad or missing:
            self.broke('proof', 'TransPathEq', 'axioms %r missing %r' % (bad, missing))
            return False
        return True

    def check_translation(self):
        """The Gallina regenerated from the source text of boss_sync.rs (needs_delete, needs_copy, process_src_entry,
        process_dest_entry; tools/rs2coq.py) is proved equal to the hand-written model (Proofs/TransPlanEq.v)."""
        if TRANS_STATE['applicable'] is None:
            regen_trans()
        vo = 'theories/Proofs/TransPlanEq.vo'
        ok, out = build_coq([vo])
        info = {'applicable': TRANS_STATE['applicable'], 'note': TRANS_STATE['note'], 'theorems': {}}
        self.extra['translator'] = info
        self.count('translator-applicable' if TRANS_STATE['applicable'] else 'translator-fallback')
        if not ok:
            m = re.search(r'File "([^"]+)", line (\d+).*?\nError:?(.*?)(?:\n\n|\Z)', out, re.S)
            where = ('%s:%s %s' % (m.group(1), m.group(2), ' '.join(m.group(3).split())[:300])) if m else out[-600:]
            self.broke('proof', 'TransPlanEq', 'the Gallina regenerated from src/boss_sync.rs (needs_delete / needs_copy / process_src_entry / '
                       'process_dest_entry) is no longer provably equal to the model: ' + where)
            return False
        hits = audit_sources(coq_sources_in_cone(vo))
        if hits:
            self.broke('proof', 'TransPlanEq', 'forbidden tokens in the development: ' + '; '.join(hits[:5]))
            return False
        try:
            ass = print_assumptions('TransPlanEq', self.TRANS_THEOREMS, pkg='Proofs')
        except BrokenTie as e:
            self.broke('proof', 'TransPlanEq', str(e))
            return False
        bad = {t: a for t, a in ass.items() if any(x not in ALLOWED_AXIOMS for x in a)}
        missing = [t for t in self.TRANS_THEOREMS if t not in ass]
        info['theorems'] = {t: ('closed' if not ass.get(t) else 'axioms: ' + ', '.join(ass[t])) for t in ass}
        if bad or missing:
            self.broke('proof', 'TransPlanEq', 'axioms %r missing %r' % (bad, missing))
            return False
        return True

    # --- verdict
    def finish(self, search=None):
        """Prints the verdict lines, writes evidence and replays, returns the exit code."""
        rc = 0
        os.makedirs(os.path.join(VERIF, 'replays'), exist_ok=True)
        for fid, what in sorted(self.known_hits.items()):
            print('KNOWN-FINDING: property=%s %s' % (self.prop, what))
        viol = 0
        if self.prop_failures:
            what, replay = self.prop_failures[0]
            path = self._write_replay(replay, what)
            print('VIOLATION property=%s replay=%s' % (self.prop, path))
            log('violation: ' + what)
            viol = len(self.prop_failures)
            rc = 1
        elif self.broken:
            found = None
            if search is not None:
                try:
                    found = search()
                except Exception as e:     # the search must never mask the verdict
                    log('search raised %r' % e)
            if found:
                what, replay = found
                path = self._write_replay(replay, what)
                print('VIOLATION property=%s replay=%s' % (self.prop, path))
            else:
                replay = {'property': self.prop, 'no_failing_input_found': True, 'broken': self.broken}
                path = self._write_replay(replay, 'broken: ' + self.broken[0]['name'])
                print('VIOLATION property=%s replay=%s no-failing-input-found' % (self.prop, path))
            for b in self.broken[:5]:
                log('broken %s %s: %s' % (b['kind'], b['name'], b['detail'][:500]))
            viol = 1
            rc = 1
        self.write_evidence(viol)
        return rc

    def _write_replay(self, replay, what):
        body = dict(replay)
        body.setdefault('property', self.prop)
        body['what'] = what
        body['seed'] = self.seed
        h = hashlib.sha1(json.dumps(body, sort_keys=True, default=str).encode()).hexdigest()[:12]
        path = os.path.join(VERIF, 'replays', '%s-%s.json' % (self.prop, h))
        with open(path, 'w') as f:
            json.dump(body, f, indent=1, default=str)
        return path

    def write_evidence(self, violations):
        cov = {
            'obligations': self.obligations, 'discharged': self.discharged,
            'checker_cmd': self.checker_cmd or 'n/a',
            'trusted_base': self.trusted,
            'theorems': self.theorems,
            'evaluations': self.evaluations,
            'distinct_nontrivial': len(self.distinct),
            'rule': self.extra.get('rule', ''),
            'samples': self.samples if self.samples else ['(no differential cases in this run)'],
            'traces_validated_against_impl': self.traces_validated,
            'input_distribution': self.distribution,
            'broken': self.broken,
            'known_findings_hit': sorted(self.known_hits),
        }
        for k, v in self.extra.items():
            cov.setdefault(k, v)
        ev = {'property_id': self.prop, 'tier': self.tier, 'seed': self.seed, 'level': self.level,
              'coverage': cov, 'assumptions': self.assumptions, 'wall_s': round(time.time() - self.t0, 2),
              'violations': violations}
        os.makedirs(os.path.join(VERIF, 'evidence'), exist_ok=True)
        with open(os.path.join(VERIF, 'evidence', self.prop + '.json'), 'w') as f:
            json.dump(ev, f, indent=1, default=str)


COMMON_TRUSTED = [
    'Coq 8.16.1 kernel (coqc, full .vo build; vm_compute used for finite facts; no native_compute)',
    'axioms: none (every property theorem is "Closed under the global context"; audited by Print Assumptions on every run)',
    'extraction: ExtrOcamlBasic + ExtrOcamlString directives only (bool/option/list/prod/unit/sumbool -> OCaml natives, ascii -> char, string -> char list); no Extract Constant of our own; OCaml 4.13.1',
    'correspondence machinery: python orchestrator, in-crate harness (cfg rjrssync_verif), OCaml line drivers (parsing/printing only)',
]
