"""Helpers of the C17 check (directory walker): abstract trees, generators, building them on disk
(also paths longer than PATH_MAX, which is how an unreadable directory is obtained as root without
any hook: opendir() of a path of 4096 bytes or more fails with ENAMETOOLONG), serialisation for the
extracted model, an independent python walk, and the property oracle.

abstract tree node (JSON-able):
   {'k':'D','ch':[[name, node], ...]} | {'k':'F'} | {'k':'L','to':text} | {'k':'O'}        (O = fifo)
names are str; in W mode (closure filter of the harness) a name starting with 'skip' is excluded and
a name starting with 'bad' makes the filter fail; in G mode (the real doer filter_func with one
exclude regex on the base name) 'skip*' is excluded and a name containing a backslash makes
filter_func fail (RootRelativePath::try_from)."""
import os, sys, stat, shutil, errno

PATH_MAX = 4096
SKIP_REGEX = r'^(?:.*/)?skip[^/]*$'


def hexs(b):
    if isinstance(b, str):
        b = b.encode()
    return b.hex() if b else '-'


def D(*ch):
    return {'k': 'D', 'ch': [list(c) for c in ch]}


F = {'k': 'F'}
O = {'k': 'O'}


def L(to):
    return {'k': 'L', 'to': to}


def is_skip(name):
    return name.startswith('skip')


def is_bad(name, mode):
    return name.startswith('bad') if mode == 'W' else ('\\' in name)


def count_nodes(t):
    return 1 + (sum(count_nodes(c) for _, c in t['ch']) if t['k'] == 'D' else 0)


def depth(t):
    d, stack = 0, [(t, 0)]
    while stack:
        n, k = stack.pop()
        d = max(d, k)
        if n['k'] == 'D':
            stack.extend((c, k + 1) for _, c in n['ch'])
    return d


# ------------------------------------------------------------------------------------------------
def build(root, t):
    """Create abstract tree t at `root` (which must not exist).  Uses dir_fd-relative calls only, so
    that paths longer than PATH_MAX can be created.  A non-directory root is created as that thing."""
    rootb = os.fsencode(root)
    if t['k'] != 'D':
        _mk_leaf(None, rootb, t)
        return
    os.mkdir(rootb)
    fd = os.open(rootb, os.O_RDONLY | os.O_DIRECTORY)
    try:
        _build_dir(fd, t)
    finally:
        os.close(fd)


def _mk_leaf(dfd, nameb, node):
    if node['k'] == 'F':
        f = os.open(nameb, os.O_WRONLY | os.O_CREAT | os.O_EXCL, 0o644, dir_fd=dfd)
        os.write(f, b'x')
        os.close(f)
    elif node['k'] == 'L':
        os.symlink(os.fsencode(node['to']), nameb, dir_fd=dfd)
    elif node['k'] == 'O':
        os.mkfifo(nameb, dir_fd=dfd)
    else:
        raise ValueError(node['k'])


def _build_dir(fd, t):
    # explicit stack of (fd, iterator) to support depth > python recursion limit and > 1000 open dirs is not needed (depth first)
    stack = [(fd, iter(t['ch']), False)]
    while stack:
        dfd, it, owned = stack[-1]
        try:
            name, node = next(it)
        except StopIteration:
            stack.pop()
            if owned:
                os.close(dfd)
            continue
        nb = os.fsencode(name)
        if node['k'] == 'D':
            os.mkdir(nb, dir_fd=dfd)
            cfd = os.open(nb, os.O_RDONLY | os.O_DIRECTORY, dir_fd=dfd)
            stack.append((cfd, iter(node['ch']), True))
        else:
            _mk_leaf(dfd, nb, node)


def rmtree(p):
    """shutil.rmtree uses fd-relative calls on Linux, which copes with over-long paths."""
    if os.path.lexists(p):
        if os.path.isdir(p) and not os.path.islink(p):
            shutil.rmtree(p, ignore_errors=True)
        else:
            os.unlink(p)


# ------------------------------------------------------------------------------------------------
def model_tokens(root, t, mode):
    """Token list of the model tree for the judge (see ocaml/drv_walker.ml)."""
    out = []
    rootlen = len(os.fsencode(root))

    def leaf_tok(node):
        return {'F': 'F', 'L': 'L', 'O': 'O'}[node['k']]
    # iterative pre-order
    stack = [('node', t, rootlen)]
    while stack:
        item = stack.pop()
        if item[0] == 'tok':
            out.append(item[1])
            continue
        _, node, plen = item
        if node['k'] != 'D':
            out.append(leaf_tok(node))
            continue
        out.append('D')
        out.append('1' if plen < PATH_MAX else '0')
        out.append(str(len(node['ch'])))
        pend = []
        for name, c in node['ch']:
            nb = os.fsencode(name)
            pend.append(('tok', hexs(nb)))
            if is_bad(name, mode):
                pend.append(('tok', '0'))
                pend.append(('tok', 'B'))
            else:
                pend.append(('tok', '1' if is_skip(name) else '0'))
                pend.append(('node', c, plen + 1 + len(nb)))
        stack.extend(reversed(pend))
    return out


def py_walk(root, mode):
    """Independent walk of what is really on disk: (entries [(relpath bytes, kind)], error flag).
    Order: a folder before its content.  Does not enter excluded folders or links."""
    rootb = os.fsencode(root)
    out, err = [], False
    stack = [b'']
    while stack:
        rel = stack.pop()
        p = rootb if rel == b'' else rootb + b'/' + rel
        try:
            with os.scandir(p) as it:
                ents = list(it)
        except OSError:
            err = True
            continue
        for e in ents:
            name = os.fsdecode(e.name)
            if is_bad(name, mode):
                err = True
                continue
            if is_skip(name):
                continue
            r = e.name if rel == b'' else rel + b'/' + e.name
            if e.is_symlink():
                k = 'l'
            elif e.is_dir(follow_symlinks=False):
                k = 'd'
                stack.append(r)
            elif e.is_file(follow_symlinks=False):
                k = 'f'
            else:
                k = 'o'
            out.append((r, k))
    return out, err


def short(r):
    t = repr(r)
    return t if len(t) <= 120 else t[:60] + '...' + t[-50:]


def oracle(observed, verdict, expected, exp_err):
    """The property, evaluated on what the implementation listed. observed/expected: [(rel bytes, kind)].
    Returns None or a description of the failure."""
    if verdict not in ('END', 'ERR'):
        return 'the walk did not finish (%s)' % verdict
    paths = {}
    for i, (r, k) in enumerate(observed):
        if r in paths:
            return 'entry %s listed more than once' % short(r)
        paths[r] = (i, k)
    expset = set(expected)
    for r, k in observed:
        if (r, k) not in expset:
            return 'listed %s (%s) which is not an included entry (excluded, below an excluded folder or a link, or wrong kind)' % (short(r), k)
    for i, (r, k) in enumerate(observed):
        if b'/' in r:
            par = r.rsplit(b'/', 1)[0]
            if par not in paths or paths[par][0] > i or paths[par][1] != 'd':
                return 'entry %s listed before its folder' % short(r)
    if exp_err:
        if verdict != 'ERR':
            return 'a directory could not be read but the listing ended normally with %d entries' % len(observed)
    else:
        if verdict != 'END':
            return 'listing failed although every directory is readable'
        if len(observed) != len(expected):
            missing = sorted(expset - set(observed))[:3]
            return 'listing is missing %d entries, e.g. %s' % (len(expected) - len(observed), short(missing))
    return None


def parse_answer(line):
    """harness answer -> (entries [(rel bytes, kind)], verdict tokens)"""
    toks = line.split()
    ents, rest = [], []
    for t in toks:
        if ':' in t:
            h, k = t.split(':')
            ents.append((b'' if h == '-' else bytes.fromhex(h), k))
        else:
            rest.append(t)
    return ents, rest


def judge_line(ents, ended, tokens):
    return 'J %s %d %s T %s' % ('END' if ended else 'ERR', len(ents), ' '.join('%s:%s' % (hexs(r), k) for r, k in ents), ' '.join(tokens))


# ------------------------------------------------------------------------------------------------
# generators
NAMES = ['a', 'b', 'ab', 'c', 'skip', 'skipme', 'skip.d', 'askip', 'x y', 'eé', '.hid', 'f.txt']


def gen_random(rng, mode, max_depth=4, max_breadth=5, p_err=0.0):
    def node(d):
        r = rng.random()
        if d < max_depth and r < 0.45:
            n = rng.choice([0, 0, 1, 2, 3, max_breadth, max_breadth])
            names = rng.sample(NAMES + (['bad1', 'badx'] if (mode == 'W' and rng.random() < p_err) else []) +
                               (['b\\s'] if (mode == 'G' and rng.random() < p_err) else []), min(n, len(NAMES)))
            return D(*[(nm, node(d + 1)) for nm in names])
        if r < 0.75:
            return F
        if r < 0.95:
            return L(rng.choice(['.', '..', 'a', 'b', 'nonexistent', '../a', '/tmp', 'f.txt', 'skipme']))
        return O if mode == 'W' else F
    n = rng.choice([0, 1, 3, max_breadth, 8])
    names = rng.sample(NAMES, min(n, len(NAMES)))
    return D(*[(nm, node(1)) for nm in names])


def gen_wide(n_files, n_dirs=0, per_dir=0, extra=()):
    ch = [('e%05d' % i, F) for i in range(n_files)]
    ch += [('d%04d' % i, D(*[('f%d' % j, F) for j in range(per_dir)])) for i in range(n_dirs)]
    ch += list(extra)
    return D(*ch)


def gen_many_dirs(n, file_every=0, top_files=0):
    """n sibling folders in one directory (each of them becomes a pending walk job while the parent is
    still being listed); a file in every `file_every`-th of them, a few files next to them."""
    ch = [('d%05d' % i, D(('f.txt', F)) if (file_every and i % file_every == 0) else D()) for i in range(n)]
    ch += [('top%d.txt' % i, F) for i in range(top_files)]
    return D(*ch)


def gen_dir_grid(outer, inner, leaf_file_every=0):
    """`outer` folders each holding `inner` sub-folders: with a FIFO job queue all the outer folders are listed
    before the first inner one is, so up to outer*inner directory jobs wait at the same moment."""
    return D(*[('o%03d' % i, D(*[('i%03d' % j, D(('f', F)) if (leaf_file_every and (i * inner + j) % leaf_file_every == 0) else D())
                                  for j in range(inner)])) for i in range(outer)])


def gen_deep(levels, with_files=True):
    t = D(('leaf', F))
    for i in range(levels):
        ch = [('n', t)]
        if with_files and i % 7 == 0:
            ch.append(('f', F))
        if with_files and i % 11 == 0:
            ch.append(('skipd', D(('inner', F))))
        t = D(*ch)
    return t


def gen_longchain(root, siblings=(), inside=(('hidden', F),), name_len=250):
    """A chain of long-named folders below `root` such that the last one has a path >= PATH_MAX
    (unreadable) while its parent is readable; `siblings` are added next to the chain at the top."""
    rootlen = len(os.fsencode(root))
    names = []
    plen = rootlen
    while plen < PATH_MAX:
        nm = ('L%02d' % len(names)) + 'x' * (name_len - 3)
        names.append(nm)
        plen += 1 + len(nm)
    t = D(*inside)
    for i, nm in enumerate(reversed(names)):
        ch = [(nm, t)]
        if i > 0:
            ch.append(('side', F))
        t = D(*ch)
    t['ch'].extend([list(s) for s in siblings])
    return t
