"""Helpers of the wire cluster (C14): message descriptions, payload generator, judge runner.

A message description is one text line that the Rust harness sub `bincode`, the OCaml driver
`drv_wire.ml` and this module all read the same way (see drv_wire.ml for the grammar)."""
import os, subprocess, resource
import vlib

MIB4 = 4 * 1024 * 1024
U32 = 2 ** 32 - 1
U64 = 2 ** 64 - 1
I64 = 2 ** 63 - 1


def hexs(b):
    if isinstance(b, str):
        b = b.encode()
    return b.hex() if b else '-'


def payload(length, seed):
    """Same generator as harness/subs/bincode.rs and drv_wire.ml."""
    x = seed & 0xFFFFFFFF
    out = bytearray(length)
    for i in range(length):
        x = (x * 1664525 + 1013904223) & 0xFFFFFFFF
        out[i] = x >> 24
    return bytes(out)


def judge(binary, lines, timeout=1500):
    """Like vlib.judge, but with an unlimited stack and a big minor heap: the extracted list
    functions are not tail recursive and 4 MiB payloads are 4 M element lists."""
    def pre():
        try:
            resource.setrlimit(resource.RLIMIT_STACK, (resource.RLIM_INFINITY, resource.RLIM_INFINITY))
        except (ValueError, OSError):
            pass
    p = subprocess.run([binary], input='\n'.join(lines) + '\n', text=True, timeout=timeout,
                       stdout=subprocess.PIPE, stderr=subprocess.PIPE, preexec_fn=pre,
                       env=dict(os.environ, OCAMLRUNPARAM='s=32M'))
    if p.returncode != 0:
        raise vlib.BrokenTie('judge %s failed (rc %d): %s' % (os.path.basename(binary), p.returncode, p.stderr[-2000:]))
    return p.stdout.splitlines()


# ------------------------------------------------------------------------------------------------
# random message descriptions
STRINGS = ['', 'a', 'f', 'a/b', 'dir/sub/file.txt', 'with space', 'x' * 300, 'été', '€/\U0001F600', 'a\\b', '..', '\x00', '\x7f']
CHARS = ['/', '\\', '\x00', '\x7f', '\u0080', '\u00e9', '\u07ff', '\u0800', '\u20ac', '\ud7ff', '\ue000', '\uffff',
         '\U00010000', '\U0001F600', '\U0010FFFF']
TIMES_OK = ['0:0', '0:1', '1:999999999', '1700000000:123456789', '4294967296:0', '%d:999999999' % I64, '253402300799:5']
TIMES_PRE = ['-1:0', '-1:500000000', '-315619200:0', '-1:999999999', '-%d:1' % I64]
SMALL_SIZES = [0, 1, 2, 3, 7, 8, 255, 256, 257, 4095, 4096, 4097, 65535, 65536]
BIG_SIZES = [MIB4 - 1, MIB4, MIB4 + 1]
PATTERNS = ['a', '^b.*$', 'dir/.*', '.*\\.txt', '', 'x|y', '(?:q)+', 'é+']


def r_str(rng):
    if rng.random() < 0.7:
        return rng.choice(STRINGS)
    n = rng.choice([1, 2, 5, 17, 64, 255, 256, 1000])
    return ''.join(rng.choice('abcXYZ/._- é€') for _ in range(n))


def r_u64(rng):
    return rng.choice([0, 1, 255, 256, 65535, 2 ** 32 - 1, 2 ** 32, 2 ** 63, U64, rng.randrange(U64 + 1)])


def r_u32(rng):
    return rng.choice([0, 1, 255, 65536, U32, rng.randrange(U32 + 1)])


def r_time(rng, pre=False):
    if pre:
        return rng.choice(TIMES_PRE)
    if rng.random() < 0.5:
        return rng.choice(TIMES_OK)
    return '%d:%d' % (rng.randrange(0, 2 ** rng.choice([8, 31, 32, 40, 63])), rng.randrange(10 ** 9))


def r_kind(rng):
    return rng.choice(['File', 'Folder', 'Unknown'])


def r_target(rng):
    return '%s %s' % (rng.choice(['norm', 'notnorm']), hexs(r_str(rng)))


def r_details(rng, pre=False):
    k = 'file' if pre else rng.choice(['file', 'folder', 'symlink'])
    if k == 'file':
        return 'file %s %d' % (r_time(rng, pre), r_u64(rng))
    if k == 'folder':
        return 'folder'
    return 'symlink %s %s' % (r_kind(rng), r_target(rng))


def r_marker(rng):
    ph = rng.choice(['deleting', 'copying', 'done'])
    if ph == 'deleting':
        ph = 'deleting %d' % r_u32(rng)
    elif ph == 'copying':
        ph = 'copying %d %d' % (r_u32(rng), r_u64(rng))
    return '%d %s' % (r_u64(rng), ph)


COMMANDS = ['SetRoot', 'GetEntries', 'CreateRootAncestors', 'GetFileContent', 'CreateOrUpdateFile', 'CreateSymlink',
            'CreateFolder', 'DeleteFile', 'DeleteFolder', 'DeleteSymlink', 'ProfilingTimeSync', 'Marker', 'Shutdown']
RESPONSES = ['RootDetails', 'Entry', 'EndOfEntries', 'FileContent', 'ProfilingTimeSync', 'ProfilingDataDefault', 'Marker', 'Error']


def gen_command(rng, variant, size=None, pre=False):
    """Returns (description, payload spec or None)."""
    v = variant
    if v in ('SetRoot', 'GetFileContent', 'CreateFolder', 'DeleteFile', 'DeleteFolder'):
        return 'C %s %s' % (v, hexs(r_str(rng))), None
    if v == 'GetEntries':
        n = rng.choice([0, 1, 2, 5])
        ps = [rng.choice(PATTERNS) for _ in range(n)]
        nk = n if rng.random() < 0.8 else rng.choice([0, 1, 3])     # the two vectors are independent on the wire
        ks = [rng.choice('IE') for _ in range(nk)]
        return 'C GetEntries %d %s %d %s' % (n, ' '.join(hexs(p) for p in ps), nk, ' '.join(ks)), None
    if v in ('CreateRootAncestors', 'ProfilingTimeSync', 'Shutdown'):
        return 'C ' + v, None
    if v == 'CreateOrUpdateFile':
        ln = rng.choice(SMALL_SIZES) if size is None else size
        seed = rng.randrange(2 ** 32)
        t = r_time(rng, True) if pre else (rng.choice(['none', r_time(rng)]))
        return 'C CreateOrUpdateFile %s %d:%d %s %d' % (hexs(r_str(rng)), ln, seed, t, rng.randrange(2)), (ln, seed)
    if v == 'CreateSymlink':
        return 'C CreateSymlink %s %s %s' % (hexs(r_str(rng)), r_kind(rng), r_target(rng)), None
    if v == 'DeleteSymlink':
        return 'C DeleteSymlink %s %s' % (hexs(r_str(rng)), r_kind(rng)), None
    if v == 'Marker':
        return 'C Marker ' + r_marker(rng), None
    raise ValueError(v)


def gen_response(rng, variant, size=None, pre=False):
    v = variant
    if v == 'RootDetails':
        d = ('some ' + r_details(rng, pre)) if (pre or rng.random() < 0.7) else 'none'
        return 'R RootDetails %s %d %s' % (d, rng.randrange(2), hexs(rng.choice(CHARS))), None
    if v == 'Entry':
        return 'R Entry %s %s' % (hexs(r_str(rng)), r_details(rng, pre)), None
    if v in ('EndOfEntries', 'ProfilingDataDefault'):
        return 'R ' + v, None
    if v == 'FileContent':
        ln = rng.choice(SMALL_SIZES) if size is None else size
        seed = rng.randrange(2 ** 32)
        return 'R FileContent %d:%d %d' % (ln, seed, rng.randrange(2)), (ln, seed)
    if v == 'ProfilingTimeSync':
        return 'R ProfilingTimeSync %d:%d' % (r_u64(rng), rng.randrange(10 ** 9)), None
    if v == 'Marker':
        return 'R Marker ' + r_marker(rng), None
    if v == 'Error':
        return 'R Error ' + hexs(r_str(rng)), None
    raise ValueError(v)


# ------------------------------------------------------------------------------------------------
# hand-made byte strings for the decoder
def le(v, n):
    return int(v).to_bytes(n, 'little')


def bstr(s):
    b = s if isinstance(s, bytes) else s.encode()
    return le(len(b), 8) + b


def crafted_decodes():
    """(type, bytes, note) - corner cases of the decoder."""
    out = []
    t = lambda s, n: le(s, 8) + le(n, 4)
    cuf = lambda mt: le(4, 4) + bstr('p') + bstr(b'\x01\x02') + mt + b'\x01'
    out += [('C', cuf(b'\x01' + t(5, 10 ** 9)), 'nanos carry into seconds'),
            ('C', cuf(b'\x01' + t(5, U32)), 'nanos u32 max'),
            ('C', cuf(b'\x01' + t(I64, 999999999)), 'largest time'),
            ('C', cuf(b'\x01' + t(I64, 10 ** 9)), 'carry past i64 -> error'),
            ('C', cuf(b'\x01' + t(2 ** 63, 0)), 'seconds beyond i64 -> error'),
            ('C', cuf(b'\x01' + t(U64, 10 ** 9)), 'u64 overflow -> error'),
            ('C', cuf(b'\x02' + t(1, 1)), 'option tag 2'),
            ('C', cuf(b'\x00')[:-1] + b'\x02', 'bool byte 2'),
            ('C', le(13, 4), 'variant 13'), ('C', le(12, 4), 'Shutdown'), ('C', le(12, 4) + b'zz', 'trailing bytes'),
            ('C', le(2 ** 31, 4), 'variant 2^31'), ('C', b'', 'empty'), ('C', b'\x00\x00\x00', 'short tag'),
            ('C', le(0, 4) + le(U64, 8) + b'abc', 'huge string length'),
            ('C', le(0, 4) + le(4, 8) + b'abc', 'string one short'),
            ('C', le(4, 4) + bstr('p') + le(2 ** 40, 8) + b'xx', 'huge data length'),
            ('C', le(1, 4) + le(2 ** 60, 8), 'huge vector length'),
            ('C', le(1, 4) + le(1, 8) + bstr('a') + le(1, 8) + le(2, 4), 'filter kind 2'),
            ('C', le(1, 4) + le(2, 8) + bstr('a') + bstr('b') + le(0, 8), 'two patterns no kinds'),
            ('C', le(11, 4) + le(9, 8) + le(3, 4), 'phase 3'),
            ('C', le(5, 4) + bstr('l') + le(3, 4) + le(0, 4) + bstr('t'), 'symlink kind 3'),
            ('C', le(5, 4) + bstr('l') + le(2, 4) + le(2, 4) + bstr('t'), 'symlink target 2')]
    for bad in [b'\x80', b'\xc0\x80', b'\xc1\xbf', b'\xc2', b'\xe0\x9f\xbf', b'\xe0\xa0', b'\xed\xa0\x80', b'\xed\x9f\xbf',
                b'\xee\x80\x80', b'\xf0\x8f\xbf\xbf', b'\xf0\x90\x80\x80', b'\xf4\x8f\xbf\xbf', b'\xf4\x90\x80\x80', b'\xf5\x80\x80\x80',
                b'\xff', b'a\xc3', b'\xc3\xa9\xe2\x82\xac\xf0\x9f\x98\x80z', b'\xe2\x82', b'\xf0\x9f\x98']:
        out.append(('C', le(0, 4) + bstr(bad), 'utf-8 ' + bad.hex()))
        out.append(('R', le(7, 4) + bstr(bad), 'utf-8 ' + bad.hex()))
        out.append(('R', le(0, 4) + b'\x00\x01' + bad, 'char ' + bad.hex()))
        out.append(('R', le(0, 4) + b'\x00\x01' + bad + b'\x80\x80\x80', 'char+ ' + bad.hex()))
    d = lambda s, n: le(s, 8) + le(n, 4)
    out += [('R', le(4, 4) + d(U64, 999999999), 'largest duration'),
            ('R', le(4, 4) + d(U64, 10 ** 9), 'duration overflow'),
            ('R', le(4, 4) + d(U64 - 4, U32), 'duration carry 4'),
            ('R', le(4, 4) + d(U64 - 3, U32), 'duration carry overflow'),
            ('R', le(4, 4) + d(2 ** 63, 3 * 10 ** 9 + 7), 'duration beyond i64 is fine'),
            ('R', le(5, 4) + d(0, 0) + le(0, 8), 'profiling default'),
            ('R', le(5, 4) + d(3, 4) + le(1, 8) + bstr('main') + le(0, 8), 'profiling one empty thread'),
            ('R', le(5, 4) + d(3, 4) + le(1, 8) + bstr('main') + le(2, 8) + bstr('scope') + d(1, 2) + d(3, 4) + d(2, 2)
                  + bstr('') + d(0, 0) + d(0, 10 ** 9) + d(9, 9), 'profiling one thread two entries'),
            ('R', le(5, 4) + d(3, 4) + le(1, 8) + bstr('main') + le(2, 8) + bstr('scope') + d(1, 2), 'profiling truncated'),
            ('R', le(5, 4) + d(3, 4) + le(1, 8) + bstr(b'\xff') + le(0, 8), 'profiling bad key'),
            ('R', le(8, 4), 'variant 8'), ('R', le(2, 4), 'EndOfEntries'),
            ('R', le(0, 4) + b'\x02', 'option tag 2'),
            ('R', le(0, 4) + b'\x01' + le(3, 4), 'details variant 3'),
            ('R', le(0, 4) + b'\x01' + le(1, 4) + b'\x01', 'root details without char'),
            ('R', le(1, 4) + bstr('p') + le(0, 4) + d(2 ** 63, 0) + le(1, 8), 'entry time beyond i64'),
            ('R', le(1, 4) + bstr('p') + le(0, 4) + d(7, 2 * 10 ** 9 + 1) + le(1, 8), 'entry time carry 2'),
            ('R', le(3, 4) + le(3, 8) + b'abc' + b'\x01', 'file content'),
            ('R', le(3, 4) + le(3, 8) + b'abc', 'file content without flag'),
            ('R', le(3, 4) + le(3, 8) + b'\xff\xfe\xfd' + b'\x00' + b'tail', 'file content binary with tail')]
    return out
