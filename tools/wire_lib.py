"""Helpers of the wire cluster (C14): message descriptions, payload generator, judge runner.

A message description is one text line that the Rust harness sub `bincode`, the OCaml driver
`drv_wire.ml` and this module all read the same way (see drv_wire.ml for the grammar)."""
import os, subprocess, resource
import vlib

MIB4 = 4 * 1024 * 1024
U32 = 2 ** 32 - 1
U64 = 2 ** 64 - 1
I64 = 2 ** 63 - 1


def hexs(b):
    if isinstance(b, str):
        b = b.encode()
    return b.hex() if b else '-'


def payload(length, seed):
    """Same generator as harness/subs/bincode.rs and drv_wire.ml."""
    x = seed & 0xFFFFFFFF
    out = bytearray(length)
    for i in range(length):
        x = (x * 1664525 + 1013904223) & 0xFFFFFFFF
        out[i] = x >> 24
    return bytes(out)


def judge(binary, lines, timeout=1500):
    """Like vlib.judge, but with an unlimited stack and a big minor heap: the extracted list
    functions are not tail recursive and 4 MiB payloads are 4 M element lists."""
    def pre():
        try:
            resource.setrlimit(resource.RLIMIT_STACK, (resource.RLIM_INFINITY, resource.RLIM_INFINITY))
        except (ValueError, OSError):
            pass
    p = subprocess.run([binary], input='\n'.join(lines) + '\n', text=True, timeout=timeout,
                       stdout=subprocess.PIPE, stderr=subprocess.PIPE, preexec_fn=pre,
                       env=dict(os.environ, OCAMLRUNPARAM='s=32M'))
    if p.returncode != 0:
        raise vlib.BrokenTie('judge %s failed (rc %d): %s' % (os.path.basename(binary), p.returncode, p.stderr[-2000:]))
    return p.stdout.splitlines()


# ------------------------------------------------------------------------------------------------
# random message descriptions
STRINGS = ['', 'a', 'f', 'a/b', 'dir/sub/file.txt', 'with space', 'x' * 300, 'été', '€/\U0001F600', 'a\\b', '..', '\x00', '\x7f']
CHARS = ['/', '\\', '\x00', '\x7f', '\u0080', '\u00e9', '\u07ff', '\u0800', '\u20ac', '\ud7ff', '\ue000', '\uffff',
         '\U00010000', '\U0001F600', '\U0010FFFF']
TIMES_OK = ['0:0', '0:1', '1:999999999', '1700000000:123456789', '4294967296:0', '%d:999999999' % I64, '253402300799:5']
TIMES_PRE = ['-1:0', '-1:500000000', '-315619200:0', '-1:999999999', '-%d:1' % I64]
SMALL_SIZES = [0, 1, 2, 3, 7, 8, 255, 256, 257, 4095, 4096, 4097, 65535, 65536]
BIG_SIZES = [MIB4 - 1, MIB4, MIB4 + 1]
PATTERNS = ['a', '^b.*$', 'dir/.*', '.*\\.txt', '', 'x|y', '(?:q)+', 'é+']


def r_str(rng):
    if rng.random() < 0.7:
        return rng.choice(STRINGS)
    n = rng.choice([1, 2, 5, 17, 64, 255, 256, 1000])
    return ''.join(rng.choice('abcXYZ/._- é€') for _ in range(n))


def r_u64(rng):
    return rng.choice([0, 1, 255, 256, 65535, 2 ** 32 - 1, 2 ** 32, 2 ** 63, U64, rng.randrange(U64 + 1)])


def r_u32(rng):
    return rng.choice([0, 1, 255, 65536, U32, rng.randrange(U32 + 1)])


def r_time(rng, pre=False):
    if pre:
        return rng.choice(TIMES_PRE)
    if rng.random() < 0.5:
        return rng.choice(TIMES_OK)
    return '%d:%d' % (rng.randrange(0, 2 ** rng.choice([8, 31, 32, 40, 63])), rng.randrange(10 ** 9))


def r_kind(rng):
    return rng.choice(['File', 'Folder', 'Unknown'])


def r_target(rng):
    return '%s %s' % (rng.choice(['norm', 'notnorm']), hexs(r_str(rng)))


def r_details(rng, pre=False):
    k = 'file' if pre else rng.choice(['file', 'folder', 'symlink'])
    if k == 'file':
        return 'file %s %d' % (r_time(rng, pre), r_u64(rng))
    if k == 'folder':
        return 'folder'
    return 'symlink %s %s' % (r_kind(rng), r_target(rng))


def r_marker(rng):
    ph = rng.choice(['deleting', 'copying', 'done'])
    if ph == 'deleting':
        ph = 'deleting %d' % r_u32(rng)
    elif ph == 'copying':
        ph = 'copying %d %d' % (r_u32(rng), r_u64(rng))
    return '%d %s' % (r_u64(rng), ph)


COMMANDS = ['SetRoot', 'GetEntries', 'CreateRootAncestors', 'GetFileContent', 'CreateOrUpdateFile', 'CreateSymlink',
            'CreateFolder', 'DeleteFile', 'DeleteFolder', 'DeleteSymlink', 'ProfilingTimeSync', 'Marker', 'Shutdown']
RESPONSES = ['RootDetails', 'Entry', 'EndOfEntries', 'FileContent', 'ProfilingTimeSync', 'ProfilingDataDefault', 'Marker', 'Error']


def gen_command(rng, variant, size=None, pre=False):
    """Returns (description, payload spec or None)."""
    v = variant
    if v in ('SetRoot', 'GetFileContent', 'CreateFolder', 'DeleteFile', 'DeleteFolder'):
        return 'C %s %s' % (v, hexs(r_str(rng))), None
    if v == 'GetEntries':
        n = rng.choice([0, 1, 2, 5])
        ps = [rng.choice(PATTERNS) for _ in range(n)]
        nk = n if rng.random() < 0.8 else rng.choice([0, 1, 3])     # the two vectors are independent on the wire
        ks = [rng.choice('IE') for _ in range(nk)]
        return 'C GetEntries %d %s %d %s' % (n, ' '.join(hexs(p) for p in ps), nk, ' '.join(ks)), None
    if v in ('CreateRootAncestors', 'ProfilingTimeSync', 'Shutdown'):
        return 'C ' + v, None
    if v == 'CreateOrUpdateFile':
        ln = rng.choice(SMALL_SIZES) if size is None else size
        seed = rng.randrange(2 ** 32)
        t = r_time(rng, True) if pre else (rng.choice(['none', r_time(rng)]))
        return 'C CreateOrUpdateFile %s %d:%d %s %d' % (hexs(r_str(rng)), ln, seed, t, rng.randrange(2)), (ln, seed)
    if v == 'CreateSymlink':
        return 'C CreateSymlink %s %s %s' % (hexs(r_str(rng)), r_kind(rng), r_target(rng)), None
    if v == 'DeleteSymlink':
        return 'C DeleteSymlink %s %s' % (hexs(r_str(rng)), r_kind(rng)), None
    if v == 'Marker':
        return 'C Marker ' + r_marker(rng), None
    raise ValueError(v)


def gen_response(rng, variant, size=None, pre=False):
    v = variant
    if v == 'RootDetails':
        d = ('some ' + r_details(rng, pre)) if (pre or rng.random() < 0.7) else 'none'
        return 'R RootDetails %s %d %s' % (d, rng.randrange(2), hexs(rng.choice(CHARS))), None
    if v == 'Entry':
        return 'R Entry %s %s' % (hexs(r_str(rng)), r_details(rng, pre)), None
    if v in ('EndOfEntries', 'ProfilingDataDefault'):
        return 'R ' + v, None
    if v == 'FileContent':
        ln = rng.choice(SMALL_SIZES) if size is None else size
        seed = rng.randrange(2 ** 32)
        return 'R FileContent %d:%d %d' % (ln, seed, rng.randrange(2)), (ln, seed)
    if v == 'ProfilingTimeSync':
        return 'R ProfilingTimeSync %d:%d' % (r_u64(rng), rng.randrange(10 ** 9)), None
    if v == 'Marker':
        return 'R Marker ' + r_marker(rng), None
    if v == 'Error':
        return 'R Error ' + hexs(r_str(rng)), None
    raise ValueError(v)


# ------------------------------------------------------------------------------------------------
# hand-made byte strings for the decoder
def le(v, n):
    return int(v).to_bytes(n, 'little')


def bstr(s):
    b = s if isinstance(s, bytes) else s.encode()
    return le(len(b), 8) + b


def crafted_decodes():
    """(type, bytes, note) - corner cases of the decoder."""
    out = []
    t = lambda s, n: le(s, 8) + le(n, 4)
    cuf = lambda mt: le(4, 4) + bstr('p') + bstr(b'\x01\x02') + mt + b'\x01'
    out += [('C', cuf(b'\x01' + t(5, 10 ** 9)), 'nanos carry into seconds'),
            ('C', cuf(b'\x01' + t(5, U32)), 'nanos u32 max'),
            ('C', cuf(b'\x01' + t(I64, 999999999)), 'largest time'),
            ('C', cuf(b'\x01' + t(I64, 10 ** 9)), 'carry past i64 -> error'),
            ('C', cuf(b'\x01' + t(2 ** 63, 0)), 'seconds beyond i64 -> error'),
            ('C', cuf(b'\x01' + t(U64, 10 ** 9)), 'u64 overflow -> error'),
            ('C', cuf(b'\x02' + t(1, 1)), 'option tag 2'),
            ('C', cuf(b'\x00')[:-1] + b'\x02', 'bool byte 2'),
            ('C', le(13, 4), 'variant 13'), ('C', le(12, 4), 'Shutdown'), ('C', le(12, 4) + b'zz', 'trailing bytes'),
            ('C', le(2 ** 31, 4), 'variant 2^31'), ('C', b'', 'empty'), ('C', b'\x00\x00\x00', 'short tag'),
            ('C', le(0, 4) + le(U64, 8) + b'abc', 'huge string length'),
            ('C', le(0, 4) + le(4, 8) + b'abc', 'string one short'),
            ('C', le(4, 4) + bstr('p') + le(2 ** 40, 8) + b'xx', 'huge data length'),
            ('C', le(1, 4) + le(2 ** 60, 8), 'huge vector length'),
            ('C', le(1, 4) + le(1, 8) + bstr('a') + le(1, 8) + le(2, 4), 'filter kind 2'),
            ('C', le(1, 4) + le(2, 8) + bstr('a') + bstr('b') + le(0, 8), 'two patterns no kinds'),
            ('C', le(11, 4) + le(9, 8) + le(3, 4), 'phase 3'),
            ('C', le(5, 4) + bstr('l') + le(3, 4) + le(0, 4) + bstr('t'), 'symlink kind 3'),
            ('C', le(5, 4) + bstr('l') + le(2, 4) + le(2, 4) + bstr('t'), 'symlink target 2')]
    for bad in [b'\x80', b'\xc0\x80', b'\xc1\xbf', b'\xc2', b'\xe0\x9f\xbf', b'\xe0\xa0', b'\xed\xa0\x80', b'\xed\x9f\xbf',
                b'\xee\x80\x80', b'\xf0\x8f\xbf\xbf', b'\xf0\x90\x80\x80', b'\xf4\x8f\xbf\xbf', b'\xf4\x90\x80\x80', b'\xf5\x80\x80\x80',
                b'\xff', b'a\xc3', b'\xc3\xa9\xe2\x82\xac\xf0\x9f\x98\x80z', b'\xe2\x82', b'\xf0\x9f\x98']:
        out.append(('C', le(0, 4) + bstr(bad), 'utf-8 ' + bad.hex()))
        out.append(('R', le(7, 4) + bstr(bad), 'utf-8 ' + bad.hex()))
        out.append(('R', le(0, 4) + b'\x00\x01' + bad, 'char ' + bad.hex()))
        out.append(('R', le(0, 4) + b'\x00\x01' + bad + b'\x80\x80\x80', 'char+ ' + bad.hex()))
    d = lambda s, n: le(s, 8) + le(n, 4)
    out += [('R', le(4, 4) + d(U64, 999999999), 'largest duration'),
            ('R', le(4, 4) + d(U64, 10 ** 9), 'duration overflow'),
            ('R', le(4, 4) + d(U64 - 4, U32), 'duration carry 4'),
            ('R', le(4, 4) + d(U64 - 3, U32), 'duration carry overflow'),
            ('R', le(4, 4) + d(2 ** 63, 3 * 10 ** 9 + 7), 'duration beyond i64 is fine'),
            ('R', le(5, 4) + d(0, 0) + le(0, 8), 'profiling default'),
            ('R', le(5, 4) + d(3, 4) + le(1, 8) + bstr('main') + le(0, 8), 'profiling one empty thread'),
            ('R', le(5, 4) + d(3, 4) + le(1, 8) + bstr('main') + le(2, 8) + bstr('scope') + d(1, 2) + d(3, 4) + d(2, 2)
                  + bstr('') + d(0, 0) + d(0, 10 ** 9) + d(9, 9), 'profiling one thread two entries'),
            ('R', le(5, 4) + d(3, 4) + le(1, 8) + bstr('main') + le(2, 8) + bstr('scope') + d(1, 2), 'profiling truncated'),
            ('R', le(5, 4) + d(3, 4) + le(1, 8) + bstr(b'\xff') + le(0, 8), 'profiling bad key'),
            ('R', le(8, 4), 'variant 8'), ('R', le(2, 4), 'EndOfEntries'),
            ('R', le(0, 4) + b'\x02', 'option tag 2'),
            ('R', le(0, 4) + b'\x01' + le(3, 4), 'details variant 3'),
            ('R', le(0, 4) + b'\x01' + le(1, 4) + b'\x01', 'root details without char'),
            ('R', le(1, 4) + bstr('p') + le(0, 4) + d(2 ** 63, 0) + le(1, 8), 'entry time beyond i64'),
            ('R', le(1, 4) + bstr('p') + le(0, 4) + d(7, 2 * 10 ** 9 + 1) + le(1, 8), 'entry time carry 2'),
            ('R', le(3, 4) + le(3, 8) + b'abc' + b'\x01', 'file content'),
            ('R', le(3, 4) + le(3, 8) + b'abc', 'file content without flag'),
            ('R', le(3, 4) + le(3, 8) + b'\xff\xfe\xfd' + b'\x00' + b'tail', 'file content binary with tail')]
    return out


# ------------------------------------------------------------------------------------------------
# the encrypted TCP leg (harness sub `link`, judge request K): message descriptions with their sizes
PATH_COMPONENT_MAX = 255           # bytes, Linux NAME_MAX
PATH_MAX = 4096                    # Linux; a root-relative path stays below it
WIN_PATH_MAX_UTF8 = 32767 * 3      # Windows extended-length path, UTF-16 units -> UTF-8 bytes (upper bound)
LEGIT_STRINGS_MAX = 98304          # python side's notion of "a message the protocol can produce": all strings <= 96 KiB
PATH_TOTALS = [0, 1, 64, 200, 217, 218, 219, 220, 255, 256, 300, 511, 766, 1000, 2047, 3000, 4000, 4095]
_COMP_CHARS = 'abcdefghijklmnopqrstuvwxyzABCXYZ0123456789._- '
_WIDE = ['é', '€', '\U0001F600']


def long_path(rng, total, wide=False):
    """A normalised root-relative path ('' = the root) of exactly `total` bytes: components of at most 255 bytes
    separated by '/', several levels when it is long; with `wide` some characters take 2 to 4 bytes."""
    if total <= 0:
        return ''
    comps, left = [], total
    while left > 0:
        room = min(left, PATH_COMPONENT_MAX)
        n = room if (left <= PATH_COMPONENT_MAX or rng.random() < 0.6) else rng.randrange(1, room + 1)
        if left - n == 1:          # a lone separator cannot end the path
            n -= 1 if n > 1 else -1
            n = min(n, left)
        out, size = [], 0
        while size < n:
            ch = rng.choice(_WIDE) if (wide and rng.random() < 0.15) else rng.choice(_COMP_CHARS)
            b = len(ch.encode())
            if size + b > n:
                ch, b = 'x', 1
            out.append(ch)
            size += b
        comp = ''.join(out)
        if comp in ('.', '..') or comp.strip() == '':
            comp = 'd' * n
        comps.append(comp)
        left -= n
        if left > 0:
            left -= 1              # the separator
            if left == 0:          # would end with '/': give the byte to the last component instead
                comps[-1] += 'z'
    p = '/'.join(comps)
    assert len(p.encode()) == total, (total, len(p.encode()))
    return p


def parse_desc(toks, i, kind):
    """Reads one message description (without the leading C / R) from the token list, like the Rust and OCaml
    parsers do.  Returns ({'variant', 'data', 'strings', 'final', 'text'}, next index)."""
    start = i

    def hexlen(t):
        return 0 if t == '-' else len(t) // 2
    v = toks[i]; i += 1
    data, strings = None, 0

    def details(i):
        k = toks[i]; i += 1
        s = 0
        if k == 'file':
            i += 2
        elif k == 'symlink':
            i += 2
            s = hexlen(toks[i]); i += 1
        return s, i

    def marker(i):
        i += 1
        ph = toks[i]; i += 1
        return i + {'deleting': 1, 'copying': 2, 'done': 0}[ph]
    if kind == 'C':
        if v in ('SetRoot', 'GetFileContent', 'CreateFolder', 'DeleteFile', 'DeleteFolder'):
            strings = hexlen(toks[i]); i += 1
        elif v == 'GetEntries':
            n = int(toks[i]); i += 1
            strings = sum(hexlen(t) for t in toks[i:i + n]) + 8 * n; i += n
            nk = int(toks[i]); i += 1 + nk
            strings += 4 * nk
        elif v == 'CreateOrUpdateFile':
            strings = hexlen(toks[i]); i += 1
            data = int(toks[i].split(':')[0]); i += 3
        elif v == 'CreateSymlink':
            strings = hexlen(toks[i]); i += 3
            strings += hexlen(toks[i]); i += 1
        elif v == 'DeleteSymlink':
            strings = hexlen(toks[i]); i += 2
        elif v == 'Marker':
            i = marker(i)
        elif v not in ('CreateRootAncestors', 'ProfilingTimeSync', 'Shutdown'):
            raise ValueError('command ' + v)
        final = v == 'Shutdown'
    else:
        if v == 'RootDetails':
            o = toks[i]; i += 1
            if o == 'some':
                strings, i = details(i)
            i += 1
            strings += hexlen(toks[i]); i += 1
        elif v == 'Entry':
            strings = hexlen(toks[i]); i += 1
            s, i = details(i)
            strings += s
        elif v == 'FileContent':
            data = int(toks[i].split(':')[0]); i += 2
        elif v == 'ProfilingTimeSync':
            i += 1
        elif v == 'Marker':
            i = marker(i)
        elif v == 'Error':
            strings = hexlen(toks[i]); i += 1
        elif v not in ('EndOfEntries', 'ProfilingDataDefault'):
            raise ValueError('response ' + v)
        final = v == 'ProfilingDataDefault'
    return {'variant': v, 'data': data, 'strings': strings, 'final': final, 'text': ' '.join(toks[start:i])}, i


def parse_link_request(line):
    """'X kc <cmds> kr <resps>' -> (list of command metas, list of response metas)."""
    t = line.split()
    assert t[0] == 'X'
    i = 1
    out = []
    for kind in ('C', 'R'):
        k = int(t[i]); i += 1
        ms = []
        for _ in range(k):
            m, i = parse_desc(t, i, kind)
            ms.append(m)
        out.append(ms)
    return out[0], out[1]


def link_request(cmds, resps):
    """cmds / resps: descriptions as gen_command / gen_response return them ('C ...' / 'R ...')."""
    strip = lambda d: d.split(' ', 1)[1]
    return 'X %d %s %d %s' % (len(cmds), ' '.join(strip(c) for c in cmds), len(resps), ' '.join(strip(r) for r in resps))


def chunk_command(rng, data_len, path, mtime=True, more=None):
    t = r_time(rng) if mtime else 'none'
    return 'C CreateOrUpdateFile %s %d:%d %s %d' % (hexs(path), data_len, rng.randrange(2 ** 32), t,
                                                     rng.randrange(2) if more is None else more)


def chunk_response(rng, data_len, more=None):
    return 'R FileContent %d:%d %d' % (data_len, rng.randrange(2 ** 32), rng.randrange(2) if more is None else more)


def small_command(rng, final_ok=False):
    v = rng.choice([c for c in COMMANDS if final_ok or c != 'Shutdown'])
    return gen_command(rng, v)[0]


def small_response(rng, final_ok=False):
    v = rng.choice([r for r in RESPONSES if final_ok or r != 'ProfilingDataDefault'])
    return gen_response(rng, v)[0]


def listing(rng, n, long_every=50):
    """Descriptions of the responses of a GetEntries of n entries: files, folders and symlinks under paths of every
    length (every `long_every`-th one long, with a long link target), then EndOfEntries."""
    out = []
    for k in range(n):
        if k % long_every == long_every - 1:
            p = long_path(rng, rng.choice([255, 766, 2047, 4000, 4095]), wide=rng.random() < 0.3)
            d = 'symlink %s %s %s' % (r_kind(rng), rng.choice(['norm', 'notnorm']), hexs(long_path(rng, rng.choice([255, 1000, 4095]))))
        else:
            p = long_path(rng, rng.choice([1, 5, 12, 30, 64, 120]), wide=rng.random() < 0.1)
            d = rng.choice(['folder', 'file %s %d' % (r_time(rng), r_u64(rng)), 'symlink %s %s' % (r_kind(rng), r_target(rng))])
        out.append('R Entry %s %s' % (hexs(p), d))
    out.append('R EndOfEntries')
    return out
